"""C07 — one dialect context governs the whole statement at every depth.
Model: coq/Dialect.v (role-tagged token view of Terms.render / Query.rquery, class re-labelling, explicit kwargs),
coq/lemmas/Dialect*.v, statement coq/props/C07.v.  Class constants are regenerated into gen/QueryTable.v on every run."""
import copy
import json
import random
import re

from harness import queries_family as qf
from harness import terms_family as tf
from harness.lib import S, OS, B, O, P
from harness.query_extract import CLASSES, qclass

ID = "C07"
COQ_PROP = "props/C07.v"
CORR_REQUIRE = ["Crit", "gen.TermsTable", "Terms", "Page", "gen.QueryTable", "Query", "QueryCorr", "Dialect", "DialectCorr"]
CORR_CHECK = "check_case"
CORR_SHOW = "show_case"
SHARED_EXTRACT = ["terms", "query"]
SHARD = 120
RULE = ("statement specs of the `queries` family (SELECT with WITH/joins/sub-query sources, IN/EXISTS/comparison/select-list "
        "sub-queries, sub-queries and literals inside function arguments, set operations, INSERT/UPDATE/DELETE) whose "
        "(sub-)statements are built by independently chosen query classes; each spec is rendered (a) as labelled, (b) with "
        "every level re-labelled to one class, for each of the ten classes, (c) through get_sql with explicit quote kwargs. "
        "Correspondence: token model text == pypika text == shared string model. Oracle: the spec is rebuilt with sentinel "
        "names per role; every occurrence must carry the outer convention's quote; devendored token sequences are compared "
        "across the ten classes. Non-trivial = at least one sub-query of a class other than the outer one, or a function "
        "argument containing a sub-query/literal/alias, or explicit kwargs; distinct by structural hash.")
TRUSTED = [
    "harness/queries_family.py + harness/terms_family.py build the same statement on pypika and as a Gallina value",
    "harness/query_extract.py reads QUOTE_CHAR / SECONDARY_QUOTE_CHAR / ALIAS_QUOTE_CHAR / QUERY_ALIAS_QUOTE_CHAR / dialect / "
    "as_keyword / wrap_set_operation_queries off real builder instances on every run (gen/QueryTable.v)",
    "oracle lexer (harness/props/C07.py: lex, devendor): SQL tokens, the documented vendor segments it erases",
]
ASSUMPTIONS = [
    "statement shapes are those of coq/Query.v; vendor-only clauses (MySQL ON DUPLICATE KEY UPDATE, PostgreSQL ON CONFLICT / "
    "RETURNING, MSSQL TOP, ClickHouse FINAL/SAMPLE/LIMIT BY, Interval literals) are checked by the oracle on the implementation "
    "only (no Gallina model)",
    "explicit kwargs: quote_char optional; secondary_quote_char / alias_quote_char / as_keyword passed together or not at all",
]

CLS_NAMES = [name for _, name in CLASSES]
CTOR = {name: ctor for ctor, name in CLASSES}


# ----------------------------------------------------------------------------------------------
# spec utilities
# ----------------------------------------------------------------------------------------------
def relabel_spec(s, cls):
    """the same specification with every (sub-)statement built by `cls`"""
    if cls is None:
        return s
    s = copy.deepcopy(s)

    def walk(x):
        if isinstance(x, dict):
            if "cls" in x:
                x["cls"] = cls
            for v in x.values():
                walk(v)
        elif isinstance(x, list):
            for v in x:
                walk(v)
    walk(s)
    return s


def top_cls_name(s):
    if s["k"] == "set":
        b = s["base"]
        return b["cls"] if b["k"] == "sel" else "Query"
    return s["cls"]


def kw_python(kw):
    out = {}
    if "q" in kw:
        out["quote_char"] = kw["q"]
    if "rest" in kw:
        out["secondary_quote_char"], out["alias_quote_char"], out["as_keyword"] = kw["rest"]
    return out


def kw_coq(kw):
    q = "None" if "q" not in kw else "(Some %s)" % OS(kw["q"])
    rest = "None" if "rest" not in kw else "(Some (%s, %s, %s))" % (OS(kw["rest"][0]), OS(kw["rest"][1]), B(kw["rest"][2]))
    return "{| kw_q := %s; kw_rest := %s |}" % (q, rest)


# ---- construction-time keyword arguments ("ckw") ------------------------------------------------------------------
# A (sub-)statement dict may carry "ckw": {"as_keyword": true, "dialect": "MYSQL", "via": "entry" | "builder"}: the statement
# is then STARTED with these keyword arguments, through the entry point the spec calls first (Q.from_ / Q.with_ / Q.select /
# Q.into / Q.update, all of which forward **kwargs) or through Q._builder(**kwargs).  What is asked for is filtered per class
# (ClickHouse already passes as_keyword=True itself, only the generic Query accepts dialect=); the EXPECTED conventions are
# computed from the request (outer_ckw), never read back off the built object.
CKW_ENTRIES = ("from_", "with_", "select", "into", "update")
CKW_DIALECTS = ["MYSQL", "ORACLE", "MSSQL", "VERTICA", "SQLLITE", "SNOWFLAKE", "CLICKHOUSE"]   # not the ARRAY[ ones (no model)
CLS_DEFAULT_AS = {"ClickHouseQuery"}       # classes whose _builder passes as_keyword=True itself
CLS_TAKES_DIALECT = {"Query"}


def ckw_effective(cls_name, ckw):
    out = {}
    if not ckw:
        return out
    if ckw.get("as_keyword") and cls_name not in CLS_DEFAULT_AS:
        out["as_keyword"] = True
    if ckw.get("dialect") and cls_name in CLS_TAKES_DIALECT:
        out["dialect"] = ckw["dialect"]
    return out


def outer_ckw(spec):
    """the construction-time request that governs the whole statement: that of the outermost builder (for a set operation
    its base query, whose defaults the operation takes)"""
    s = spec
    if s["k"] == "set":
        s = s["base"]
        if s["k"] != "sel":
            return {}
    return ckw_effective(s["cls"], s.get("ckw"))


def strip_ckw(spec):
    s = copy.deepcopy(spec)

    def walk(x):
        if isinstance(x, dict):
            x.pop("ckw", None)
            for v in x.values():
                walk(v)
        elif isinstance(x, list):
            for v in x:
                walk(v)
    walk(s)
    return s


def has_ckw(spec):
    return '"ckw"' in json.dumps(spec)


class _Lazy:
    """a statement of class Q that is started by the first builder call made on it"""

    def __init__(self, Q, kw, via):
        self.__dict__.update(_Q=Q, _kw=kw, _via=via)

    def __getattr__(self, name):
        Q, kw = self._Q, self._kw
        if self._via == "entry" and name in CKW_ENTRIES:
            return lambda *a: getattr(Q, name)(*a, **kw)
        return getattr(Q._builder(**kw), name)


class _KwQ:
    """stands in for a query class inside queries_family.build_query: every way of starting a statement gets the kwargs"""

    def __init__(self, Q, kw, via):
        self._lazy = lambda: _Lazy(Q, kw, via)

    def _builder(self):
        return self._lazy()

    def into(self, t):
        return self._lazy().into(t)

    def update(self, t):
        return self._lazy().update(t)


def build(spec):
    """queries_family.build_query, with the "ckw" of every (sub-)statement applied where that statement is started"""
    if not has_ckw(spec):
        return qf.build_query(spec)
    from pypika.enums import Dialects
    orig_bq, orig_qc = qf.build_query, qf.qclass

    def bq(s):
        eff = ckw_effective(s["cls"], s.get("ckw")) if s.get("k") != "set" else {}
        if not eff:
            return orig_bq(s)
        kw = dict(eff)
        if "dialect" in kw:
            kw["dialect"] = getattr(Dialects, kw["dialect"])
        via = s["ckw"].get("via", "entry")

        def once(name):          # build_query resolves the class of `s` before it builds anything below it
            qf.qclass = orig_qc
            return _KwQ(orig_qc(name), kw, via)
        qf.qclass = once
        try:
            return orig_bq(s)
        finally:
            qf.qclass = orig_qc
    qf.build_query = bq
    try:
        return bq(spec)
    finally:
        qf.build_query, qf.qclass = orig_bq, orig_qc


def render(spec, kw=None):
    try:
        q = build(spec)
        return str(q) if kw is None else q.get_sql(**kw_python(kw))
    except Exception as e:  # noqa
        return "!" + type(e).__name__


def rerender(spec):
    """the SAME statement object rendered by str(), then under foreign explicit conventions, then by str() again"""
    try:
        q = build(spec)
        a = str(q)
        q.get_sql(quote_char="`", secondary_quote_char='"', alias_quote_char="`", as_keyword=True)
        q.get_sql(quote_char=None)
        return [a, str(q)]
    except Exception as e:  # noqa
        return ["!" + type(e).__name__] * 2


# ----------------------------------------------------------------------------------------------
# generation
# ----------------------------------------------------------------------------------------------
class DGen(qf.QGen):
    """QGen plus the constructs C07 is about: arrays, booleans, aliased literals / criteria, literals and aliases
    inside function arguments, set operations as sources"""

    def value(self):
        r = self.r.random()
        if r < 0.08:
            return ["array", [["vali", self.r.choice([1, 2, 3]), None] for _ in range(self.r.choice([0, 1, 2]))], None]
        return super().value()

    def sitem(self, cls, nsrc, depth):
        r = self.r.random()
        if r < 0.06:
            return ["t", ["vals", self.r.choice(["abc", "it's", 'say "hi"']), self.r.choice([None, "lit"])]]
        if r < 0.10:
            return ["t", ["func", "F", [["vals", self.r.choice(["x", "it's"]), self.r.choice([None, "inner"])],
                                      self.field(nsrc)], self.r.choice([None, "fa"])]]
        if r < 0.13:
            return ["t", ["basic", "eq", self.field(nsrc), self.field(nsrc), self.r.choice([None, "crit"])]]
        if r < 0.16:
            return ["t", ["array", [self.field(nsrc), ["vals", "s", None]], self.r.choice([None, "arr"])]]
        if r < 0.18:
            return ["t", ["valb", self.r.random() < 0.5, cls == "SQLLiteQuery", None]]
        if depth < self.max_depth and r < 0.24:
            sub = self.select(self.cls(cls), depth + 1, small=True, nsel=1)
            sub["selects"] = [["t", self.alias_of_forced(self.field(1))]]
            if self.r.random() < 0.4:
                sub["groupby"] = [sub["selects"][0]]
            return ["func", self.r.choice(["COALESCE", "F"]), [["sub", sub], ["t", self.value()]], self.r.choice([None, "fa"])]
        return super().sitem(cls, nsrc, depth)

    def alias_of(self, t):
        """the alias pool includes the names in use: an alias equal to the aliased column's own name"""
        t = super().alias_of(t)
        if t[0] == "field" and self.r.random() < 0.25:
            t = list(t)
            t[-1] = t[1]
        return t

    def tref(self, alias_p=None):
        t = super().tref(alias_p)
        if t[2] is None and self.r.random() < 0.08:
            t = [t[0], t[1], t[0]]          # a table aliased by its own name
        return t

    def alias_of_forced(self, t):
        t = list(t)
        t[-1] = self.r.choice(["al", "n", "total"])
        return t

    def over_setop(self, cls):
        """SELECT ... FROM (<set operation>) [alias]: the only position where a set operation is used as a source
        (next to joins an un-aliased table would pick up pypika's "2" alias: Term.__eq__ makes `table in [setop]` true)"""
        so = self.setop(self.cls(cls))
        if self.r.random() < 0.6:
            so["alias"] = self.r.choice(["su", "z"])
        q = {"k": "sel", "cls": cls, "from": [["q", so]], "joins": [],
             "selects": [self.sitem(cls, 1, 1) for _ in range(self.r.choice([1, 2]))]}
        if self.r.random() < 0.5:
            q["where"] = self.citem(cls, 1, 1)
        return q

    def any(self):
        if self.r.random() < 0.06:
            return self.over_setop(self.cls())
        return super().any()


def gen_kw(rng):
    kw = {}
    if rng.random() < 0.7:
        kw["q"] = rng.choice(['"', "`", None])
    if rng.random() < 0.7:
        kw["rest"] = [rng.choice(["'", '"', "'"]), rng.choice([None, '"', "`", ""]), rng.random() < 0.4]
    return kw


def gen_cases(rng, tier):
    n = 130 if tier == "quick" else 1800
    out = []
    for i in range(n):
        g = DGen(rng, p_alias=rng.choice([0.3, 0.5]), p_subq=rng.choice([0.3, 0.45, 0.6]),
                 max_depth=rng.choice([1, 2, 2, 3] if tier == "quick" else [2, 3, 3]),
                 hostile=0.15, inner_same_cls=rng.choice([0.0, 0.3, 0.6]))
        g.p_csub = rng.choice([0.0, 0.15, 0.3])     # sub-queries inside HAVING / GROUP BY / ORDER BY / SET values
        g.p_nested_setop = rng.choice([0.0, 0.2])   # set operations as operands of set operations
        spec = g.any()
        out.append({"spec": spec, "relabel": None, "kw": None})
        out.append({"spec": spec, "relabel": rng.choice(CLS_NAMES), "kw": None})
        if rng.random() < 0.5:
            out.append({"spec": spec, "relabel": rng.choice([None, None, rng.choice(CLS_NAMES)]), "kw": gen_kw(rng)})
        # the same statement with (sub-)statements STARTED with as_keyword=True / dialect=...; own PRNG keyed by the spec, so
        # the stream above (and with it every case generated before this dimension existed) is unchanged
        crng = random.Random("ckw-" + json.dumps(spec, sort_keys=True))
        if crng.random() < 0.6:
            out.append({"spec": add_ckw(spec, crng), "relabel": crng.choice([None, None, crng.choice(CLS_NAMES)]), "kw": None})
    return out


def gen_ckw(rng, p_as):
    ckw = {"via": rng.choice(["entry", "entry", "builder"])}
    if rng.random() < p_as:
        ckw["as_keyword"] = True
    if rng.random() < 0.35:
        ckw["dialect"] = rng.choice(CKW_DIALECTS)
    return ckw if len(ckw) > 1 else None


def add_ckw(spec, rng):
    """construction-time kwargs on the outermost builder (mostly as_keyword=True) and on about half of the sub-statements"""
    s = copy.deepcopy(spec)
    top = s["base"] if s["k"] == "set" else s

    def walk(x):
        if isinstance(x, dict):
            if "cls" in x and x.get("k") in ("sel", "ins", "upd", "del"):
                ckw = gen_ckw(rng, 0.8) if x is top else (gen_ckw(rng, 0.7) if rng.random() < 0.5 else None)
                if ckw:
                    x["ckw"] = ckw
            for key in sorted(x):
                if key != "ckw":
                    walk(x[key])
        elif isinstance(x, list):
            for v in x:
                walk(v)
    walk(s)
    if not has_ckw(s):
        top["ckw"] = {"via": "entry", "as_keyword": True}
    return s


# ----------------------------------------------------------------------------------------------
# corpus: one witness per known finding (the same specs are the Gallina witnesses of coq/DialectCorr.v) + positives
# ----------------------------------------------------------------------------------------------
def _T(n, alias=None):
    return [n, [], alias]


def _F(n, alias=None):
    return ["field", n, None, alias]


def _sel(cls, tbl, items, **kw):
    d = {"k": "sel", "cls": cls, "from": [["t", _T(tbl)]], "joins": [], "selects": items}
    d.update(kw)
    return d


def witnesses():
    W = {}
    one = ["t", ["vali", 1, None]]
    W["w_fn_alias"] = _sel("SnowflakeQuery", "t", [["func", "COALESCE", [["sub", _sel("Query", "u", [["t", _F("b", "bb")]])], one], None]])
    W["w_fn_as"] = _sel("Query", "t", [["func", "COALESCE", [["sub", _sel("ClickHouseQuery", "u", [["t", _F("b", "bb")]])], one], None]])
    W["w_qalias"] = {"k": "sel", "cls": "MySQLQuery", "from": [["q", _sel("PostgreSQLQuery", "u", [["t", _F("b")]], alias="s")]],
                     "joins": [], "selects": [["t", ["star", None]]]}
    W["w_setop_mixed"] = {"k": "set", "base": _sel("MySQLQuery", "t", [["t", _F("a", "x")]]),
                          "ops": [["union", _sel("PostgreSQLQuery", "u", [["t", _F("b", "y")]])]]}
    W["w_cte"] = {"k": "sel", "cls": "MySQLQuery", "with": [["cte", _sel("MySQLQuery", "u", [["t", _F("b")]])]],
                  "from": [["a", "cte"]], "joins": [], "selects": [["t", ["star", None]]]}
    W["w_crit_alias"] = _sel("Query", "t", [["t", ["basic", "eq", _F("a"), _F("b"), "crit"]]])
    W["w_setop_order"] = {"k": "set", "base": _sel("SnowflakeQuery", "t", [["t", _F("a", "x")]]),
                          "ops": [["union", _sel("SnowflakeQuery", "u", [["t", _F("b", "x")]])]], "orderby": [[_F("a", "x"), None]]}
    W["w_fn_gba"] = _sel("OracleQuery", "t", [["func", "COALESCE", [["sub", _sel("Query", "u", [["t", _F("b", "bb")]],
                                                                                groupby=[["t", _F("b", "bb")]])], one], None]])
    W["w_fn_literal"] = _sel("Query", "t", [["t", ["func", "COALESCE", [_F("a"), ["vals", "x", None]], None]], ["t", ["vals", "y", None]]])
    W["w_fn_term_alias"] = _sel("SnowflakeQuery", "t", [["t", ["func", "COALESCE", [["vals", "x", "y"], ["vali", 1, None]], None]],
                                                        ["t", ["vals", "x", "y"]]])
    W["w_qualifier"] = {"k": "sel", "cls": "SnowflakeQuery", "from": [["t", _T("t", "ta")]], "joins": [],
                        "selects": [["t", ["field", "a", ["#0", [], None], None]]]}
    W["w_setop_alias"] = {"k": "sel", "cls": "SnowflakeQuery",
                          "from": [["q", {"k": "set", "base": _sel("SnowflakeQuery", "t", [["t", _F("a")]]),
                                          "ops": [["union", _sel("SnowflakeQuery", "u", [["t", _F("a")]])]], "alias": "su"}]],
                          "joins": [], "selects": [["t", ["field", "a", ["#0", [], None], None]]]}
    W["p_nested"] = {
        "k": "sel", "cls": "MySQLQuery",
        "from": [["t", _T("t")],
                 ["q", {"k": "sel", "cls": "VerticaQuery",
                        "from": [["t", _T("u")], ["q", _sel("OracleQuery", "v", [["t", _F("c", "cc")]],
                                                             where=["t", ["basic", "eq", _F("c"), ["vals", "it's", None], None]])]],
                        "joins": [], "selects": [["t", ["field", "b", ["#0", [], None], "bb"]],
                                                 ["t", ["func", "F", [["field", "c", ["#1", [], None], None]], None]]]}]],
        "joins": [["left", ["q", _sel("SnowflakeQuery", "w", [["t", _F("d")]])],
                   ["on", ["t", ["basic", "eq", ["field", "a", ["#0", [], None], None], ["field", "d", ["#2", [], None], None], None]]]]],
        "selects": [["t", ["field", "a", ["#0", [], None], "al"]],
                    ["t", ["case", [[["basic", "gt", ["field", "a", ["#0", [], None], None], ["vali", 1, None], None], ["vals", "big", None]]],
                           ["vals", "small", None], "sz"]]],
        "where": ["in", ["field", "a", ["#0", [], None], None], _sel("ClickHouseQuery", "z", [["t", _F("e")]]), False],
        "groupby": [["t", ["field", "a", ["#0", [], None], "al"]]], "limit": 3}
    return W


W_KW = {"w_fn_literal": {"q": "`", "rest": ['"', None, False]}}


def witness_pool():
    """deterministic (name -> case) pool: every deviation template x outer class x inner class.  corpus() uses the members
    listed in WITNESS_KEYS (a cover of the open findings computed by --write-findings)."""
    one = ["t", ["vali", 1, None]]
    pool = {}

    def put(name, spec, kw=None):
        pool[name] = {"spec": spec, "relabel": None, "kw": kw, "name": name}
    inner_q = lambda i, **kw: _sel(i, "u", [["t", _F("b", "bb")]], **kw)   # noqa: E731
    f0 = ["field", "a", ["#0", [], None], None]
    f1 = ["field", "b", ["#1", [], None], None]
    for o in CLS_NAMES:
        put("cte:%s" % o, {"k": "sel", "cls": o, "with": [["cte", _sel(o, "u", [["t", _F("b")]])]], "from": [["a", "cte"]], "joins": [],
                           "selects": [["t", ["star", None]]]})
        put("crit:%s" % o, _sel(o, "t", [["t", ["basic", "eq", _F("a"), _F("b"), "crit"]]]))
        put("crit-fnterm:%s" % o, _sel(o, "t", [["t", ["func", "F", [["basic", "eq", _F("a"), _F("b"), "crit"]], None]]]))
        put("coincide:%s" % o, {"k": "sel", "cls": o, "from": [["t", _T("t", "t")]], "joins": [],
                                "selects": [["t", ["field", "id", ["#0", [], None], "id"]], ["t", _F("a", "a")], ["t", ["vali", 1, "1"]]],
                                "groupby": [["t", _F("a", "a")]], "orderby": [[["t", ["field", "id", ["#0", [], None], "id"]], None]]})
        put("coincide-sub:%s" % o, {"k": "sel", "cls": o, "from": [["q", _sel(o, "u", [["t", _F("id", "id")]], alias="u")]], "joins": [],
                                    "selects": [["t", ["field", "id", ["#0", [], None], "id"]]]})
        put("qual:%s" % o, {"k": "sel", "cls": o, "from": [["t", _T("t", "ta")]], "joins": [], "selects": [["t", f0]]})
        put("setop-alias:%s" % o, {"k": "sel", "cls": o, "from": [["q", {"k": "set", "base": _sel(o, "t", [["t", _F("a")]]),
                                                                           "ops": [["union", _sel(o, "u", [["t", _F("a")]])]], "alias": "su"}]],
                                   "joins": [], "selects": [["t", f0]]})
        put("fnterm:%s" % o, _sel(o, "t", [["t", ["func", "COALESCE", [["vals", "x", "y"], ["vali", 1, None]], None]], ["t", ["vals", "x", "y"]]]))
        put("setop-order:%s" % o, {"k": "set", "base": _sel(o, "t", [["t", _F("a", "x")]]), "ops": [["union", _sel(o, "u", [["t", _F("b", "x")]])]],
                                   "orderby": [[_F("a", "x"), None]]})
        for i in CLS_NAMES:
            put("fn:%s:%s" % (o, i), _sel(o, "t", [["func", "COALESCE", [["sub", inner_q(i)], one], None]]))
            put("fn-gb:%s:%s" % (o, i), _sel(o, "t", [["func", "COALESCE", [["sub", inner_q(i, groupby=[["t", _F("b", "bb")]])], one], None]]))
            put("fn-crit:%s:%s" % (o, i), _sel(o, "t", [["func", "F", [["sub", _sel(i, "u", [["t", ["basic", "eq", _F("a"), _F("b"), "crit"]]])]], None]]))
            gsub = inner_q(i, groupby=[["t", _F("b", "bb")]])
            put("gb-from:%s:%s" % (o, i), {"k": "sel", "cls": o, "from": [["q", gsub]], "joins": [], "selects": [["t", ["star", None]]]})
            put("gb-join:%s:%s" % (o, i), {"k": "sel", "cls": o, "from": [["t", _T("t")]],
                                          "joins": [["inner", ["q", gsub], ["on", ["t", ["basic", "eq", f0, f1, None]]]]], "selects": [["t", f0]]})
            put("gb-in:%s:%s" % (o, i), _sel(o, "t", [["t", _F("a")]], where=["in", _F("a"), gsub, False]))
            put("gb-gb:%s:%s" % (o, i), _sel(o, "t", [["t", _F("a")]], groupby=[["sub", gsub]]))
            put("gb-set:%s:%s" % (o, i), {"k": "set", "base": _sel(o, "t", [["t", _F("a", "x")]], groupby=[["t", _F("a", "x")]]),
                                         "ops": [["union", gsub]]})
            put("set:%s:%s" % (o, i), {"k": "set", "base": _sel(o, "t", [["t", _F("a", "x")]]), "ops": [["union", _sel(i, "u", [["t", _F("b", "y")]])]]})
            sub = _sel(i, "u", [["t", _F("b")]], alias="s")
            put("qa-from:%s:%s" % (o, i), {"k": "sel", "cls": o, "from": [["q", sub]], "joins": [], "selects": [["t", ["star", None]]]})
            put("qa-join:%s:%s" % (o, i), {"k": "sel", "cls": o, "from": [["t", _T("t")]],
                                          "joins": [["left", ["q", sub], ["on", ["t", ["basic", "eq", f0, f1, None]]]]], "selects": [["t", f0]]})
            put("qa-sel:%s:%s" % (o, i), _sel(o, "t", [["sub", sub]]))
            put("qa-fn:%s:%s" % (o, i), _sel(o, "t", [["func", "F", [["sub", {"k": "sel", "cls": o, "from": [["q", sub]], "joins": [],
                                                                            "selects": [["t", ["star", None]]]}]], None]]))
            put("qa-gb:%s:%s" % (o, i), _sel(o, "t", [["t", _F("a")]], groupby=[["sub", {"k": "sel", "cls": o, "from": [["q", sub]], "joins": [],
                                                                                           "selects": [["t", ["star", None]]]}]]))
            put("qa-set:%s:%s" % (o, i), {"k": "set", "base": {"k": "sel", "cls": o, "from": [["q", sub]], "joins": [], "selects": [["t", ["star", None]]]},
                                         "ops": [["union", _sel(o, "v", [["t", _F("c")]])]]})
    kw = {"q": "`", "rest": ['"', '"', True]}
    put("kw-fn", _sel("Query", "t", [["func", "COALESCE", [["sub", _sel("Query", "u", [["t", _F("b", "bb")]],
                                                                         where=["t", ["basic", "eq", _F("c"), ["vals", "s", None], None]])], one], None]]), kw)
    put("kw-fnterm", _sel("Query", "t", [["t", ["func", "COALESCE", [["vals", "x", "y"], ["vali", 1, None]], None]]]), kw)
    put("kw-cte", pool["cte:Query"]["spec"], kw)
    put("kw-crit", pool["crit:Query"]["spec"], {"q": "`", "rest": ["'", None, False]})
    put("kw-qual", pool["qual:Query"]["spec"], kw)
    put("kw-setop-alias", pool["setop-alias:Query"]["spec"], kw)
    put("kw-setop-order", pool["setop-order:Query"]["spec"], kw)
    return pool


# members of witness_pool() that together reproduce every open finding (written by --write-findings)
# pool members that reproduced the findings repaired in fix wave 2 (1270518, 07d9040, 1518abd, 76524c2, 3ab11e6, d20983c, 97eddd6):
# they stay in the corpus, render with the outer convention now, and any regression is an unlisted signature = VIOLATION
REGRESSION_KEYS = [
    'fn-gb:OracleQuery:PostgreSQLQuery',
    'kw-fn',
    'fn-crit:PostgreSQLQuery:ClickHouseQuery',
    'fn-crit:SnowflakeQuery:ClickHouseQuery',
    'fn-gb:MSSQLQuery:ClickHouseQuery',
    'fn-gb:MySQLQuery:PostgreSQLQuery',
    'fn-gb:OracleQuery:ClickHouseQuery',
    'fn-gb:OracleQuery:SnowflakeQuery',
    'gb-set:MSSQLQuery:ClickHouseQuery',
    'gb-set:OracleQuery:ClickHouseQuery',
    'gb-set:OracleQuery:PostgreSQLQuery',
    'gb-set:OracleQuery:SnowflakeQuery',
    'gb-set:SnowflakeQuery:ClickHouseQuery',
    'kw-fnterm',
    'fn-crit:ClickHouseQuery:MSSQLQuery',
    'fn-crit:ClickHouseQuery:MySQLQuery',
    'fn-crit:ClickHouseQuery:OracleQuery',
    'fn-crit:ClickHouseQuery:PostgreSQLQuery',
    'fn-crit:ClickHouseQuery:Query',
    'fn-crit:ClickHouseQuery:RedshiftQuery',
    'fn-crit:ClickHouseQuery:SQLLiteQuery',
    'fn-crit:ClickHouseQuery:SnowflakeQuery',
    'fn-crit:ClickHouseQuery:VerticaQuery',
    'fn-crit:MySQLQuery:ClickHouseQuery',
    'fn-crit:OracleQuery:PostgreSQLQuery',
    'fn-crit:RedshiftQuery:ClickHouseQuery',
    'fn-crit:SQLLiteQuery:ClickHouseQuery',
    'fn-crit:VerticaQuery:ClickHouseQuery',
    'fn-gb:MSSQLQuery:MySQLQuery',
    'fn-gb:MSSQLQuery:PostgreSQLQuery',
    'fn-gb:MSSQLQuery:Query',
    'fn-gb:MSSQLQuery:RedshiftQuery',
    'fn-gb:MSSQLQuery:SQLLiteQuery',
    'fn-gb:MSSQLQuery:SnowflakeQuery',
    'fn-gb:MSSQLQuery:VerticaQuery',
    'fn-gb:MySQLQuery:SnowflakeQuery',
    'fn-gb:OracleQuery:MySQLQuery',
    'fn-gb:OracleQuery:RedshiftQuery',
    'fn-gb:OracleQuery:SQLLiteQuery',
    'fn-gb:OracleQuery:VerticaQuery',
    'fn-gb:SnowflakeQuery:ClickHouseQuery',
    'fn-gb:SnowflakeQuery:MSSQLQuery',
    'fn-gb:SnowflakeQuery:MySQLQuery',
    'fn-gb:SnowflakeQuery:OracleQuery',
    'fn-gb:SnowflakeQuery:RedshiftQuery',
    'fn-gb:SnowflakeQuery:SQLLiteQuery',
    'fn-gb:SnowflakeQuery:VerticaQuery',
    'gb-gb:MSSQLQuery:ClickHouseQuery',
    'gb-gb:MSSQLQuery:MySQLQuery',
    'gb-gb:MSSQLQuery:PostgreSQLQuery',
    'gb-gb:MSSQLQuery:Query',
    'gb-gb:MSSQLQuery:RedshiftQuery',
    'gb-gb:MSSQLQuery:SQLLiteQuery',
    'gb-gb:MSSQLQuery:SnowflakeQuery',
    'gb-gb:MSSQLQuery:VerticaQuery',
    'gb-gb:OracleQuery:ClickHouseQuery',
    'gb-gb:OracleQuery:MySQLQuery',
    'gb-gb:OracleQuery:PostgreSQLQuery',
    'gb-gb:OracleQuery:Query',
    'gb-gb:OracleQuery:RedshiftQuery',
    'gb-gb:OracleQuery:SQLLiteQuery',
    'gb-gb:OracleQuery:SnowflakeQuery',
    'gb-gb:OracleQuery:VerticaQuery',
    'gb-set:ClickHouseQuery:MSSQLQuery',
    'gb-set:ClickHouseQuery:MySQLQuery',
    'gb-set:ClickHouseQuery:OracleQuery',
    'gb-set:ClickHouseQuery:PostgreSQLQuery',
    'gb-set:ClickHouseQuery:Query',
    'gb-set:ClickHouseQuery:RedshiftQuery',
    'gb-set:ClickHouseQuery:SQLLiteQuery',
    'gb-set:ClickHouseQuery:SnowflakeQuery',
    'gb-set:ClickHouseQuery:VerticaQuery',
    'gb-set:MSSQLQuery:MySQLQuery',
    'gb-set:MSSQLQuery:PostgreSQLQuery',
    'gb-set:MSSQLQuery:Query',
    'gb-set:MSSQLQuery:RedshiftQuery',
    'gb-set:MSSQLQuery:SQLLiteQuery',
    'gb-set:MSSQLQuery:SnowflakeQuery',
    'gb-set:MSSQLQuery:VerticaQuery',
    'gb-set:MySQLQuery:ClickHouseQuery',
    'gb-set:MySQLQuery:SnowflakeQuery',
    'gb-set:OracleQuery:MySQLQuery',
    'gb-set:OracleQuery:Query',
    'gb-set:OracleQuery:RedshiftQuery',
    'gb-set:OracleQuery:SQLLiteQuery',
    'gb-set:OracleQuery:VerticaQuery',
    'gb-set:PostgreSQLQuery:ClickHouseQuery',
    'gb-set:Query:ClickHouseQuery',
    'gb-set:RedshiftQuery:ClickHouseQuery',
    'gb-set:SQLLiteQuery:ClickHouseQuery',
    'gb-set:SnowflakeQuery:MSSQLQuery',
    'gb-set:SnowflakeQuery:MySQLQuery',
    'gb-set:SnowflakeQuery:OracleQuery',
    'gb-set:SnowflakeQuery:Query',
    'gb-set:SnowflakeQuery:RedshiftQuery',
    'gb-set:SnowflakeQuery:SQLLiteQuery',
    'gb-set:SnowflakeQuery:VerticaQuery',
    'gb-set:VerticaQuery:ClickHouseQuery',
    'kw-crit',
    'kw-cte',
    'kw-qual',
    'kw-setop-order',
    'qa-fn:MySQLQuery:PostgreSQLQuery',
    'qa-fn:OracleQuery:PostgreSQLQuery',
    'qa-fn:SnowflakeQuery:PostgreSQLQuery',
    'qa-from:OracleQuery:PostgreSQLQuery',
    'qa-from:SnowflakeQuery:PostgreSQLQuery',
    'qa-gb:MySQLQuery:PostgreSQLQuery',
    'qa-gb:OracleQuery:PostgreSQLQuery',
    'qa-gb:SnowflakeQuery:PostgreSQLQuery',
    'qa-join:MySQLQuery:PostgreSQLQuery',
    'qa-join:OracleQuery:PostgreSQLQuery',
    'qa-join:SnowflakeQuery:PostgreSQLQuery',
    'qa-sel:MySQLQuery:PostgreSQLQuery',
    'qa-sel:OracleQuery:PostgreSQLQuery',
    'qa-sel:SnowflakeQuery:PostgreSQLQuery',
    'qa-set:MySQLQuery:PostgreSQLQuery',
    'qa-set:OracleQuery:PostgreSQLQuery',
    'qa-set:SnowflakeQuery:PostgreSQLQuery',
]

# members of witness_pool() that together reproduce every OPEN finding (written by --write-findings)
WITNESS_KEYS = [
]


def corpus():
    out = []
    for name, spec in witnesses().items():
        out.append({"spec": spec, "relabel": None, "kw": W_KW.get(name), "name": name})
    W = witnesses()
    # the same specifications built by ONE class at every level (the deviations disappear, except the class-independent ones)
    for name in ("w_fn_alias", "w_qalias", "w_setop_mixed", "p_nested"):
        for c in ("Query", "MySQLQuery", "PostgreSQLQuery", "SnowflakeQuery", "ClickHouseQuery", "OracleQuery"):
            out.append({"spec": W[name], "relabel": c, "kw": None, "name": name + "@" + c})
    pool = witness_pool()
    out += [pool[k] for k in WITNESS_KEYS]
    out += [pool[k] for k in REGRESSION_KEYS if k not in WITNESS_KEYS]
    # aliases that coincide with the name (and, for classes that do not quote, with the rendered text) of what they alias
    out += [pool["%s:%s" % (t_, o)] for o in CLS_NAMES for t_ in ("coincide", "coincide-sub")]
    # GROUP BY alias use must follow the OUTER class (Oracle / MSSQL group by expressions) in every inherited position
    for o in ("OracleQuery", "MSSQLQuery"):
        for i in ("Query", "MySQLQuery", "PostgreSQLQuery"):
            for t_ in ("gb-from", "gb-join", "gb-in"):
                out.append(pool["%s:%s:%s" % (t_, o, i)])
    out += vendor_cases()
    return out


# ----------------------------------------------------------------------------------------------
# oracle part 1: SQL lexer, sentinels
# ----------------------------------------------------------------------------------------------
QUOTES = "\"'`"
_WORD = re.compile(r"[A-Za-z_][A-Za-z0-9_$]*")
_NUM = re.compile(r"\d+(\.\d+)?")


def lex(text):
    """-> list of (kind, value, quote): kind in word / num / str (any quoted run: value is the unquoted content,
    quote the delimiter) / punct"""
    out, i, n = [], 0, len(text)
    while i < n:
        ch = text[i]
        if ch.isspace():
            i += 1
            continue
        if ch in QUOTES:
            j, buf = i + 1, []
            while j < n:
                if text[j] == ch:
                    if j + 1 < n and text[j + 1] == ch:
                        buf.append(ch)
                        j += 2
                        continue
                    break
                buf.append(text[j])
                j += 1
            out.append(("q", "".join(buf), ch))
            i = j + 1
            continue
        m = _WORD.match(text, i)
        if m:
            out.append(("word", m.group(0), None))
            i = m.end()
            continue
        m = _NUM.match(text, i)
        if m:
            out.append(("num", m.group(0), None))
            i = m.end()
            continue
        out.append(("punct", ch, None))
        i += 1
    return out


ROLE_OF = {"zt": "ident", "zh": "ident", "zc": "ident", "za": "alias", "zb": "criterion-alias", "zq": "query-alias",
           "zu": "setop-alias", "zw": "cte-name", "zs": "string"}
# roles whose deviation does not depend on the nesting position or on the inner class: reported once per outer class
POSITION_FREE = ("cte-name", "criterion-alias", "alias-qualifier", "alias-reference", "setop-alias")


class Sentinels:
    """rebuilds a spec with a fresh sentinel name at every naming position; meta[name] = (role, path kind, inner class)"""

    def __init__(self, coincide=False):
        self.n = 0
        self.meta = {}
        self.coincide = coincide      # aliases of plain columns / tables take the NAME of what they alias

    def new(self, prefix, path, cls, fn, gov=None, own=None):
        """[cls]: the class whose defaults govern this position (see [decisive]); for a sub-query alias the class of
        that sub-query, and [gov] the governing class (its AS keyword follows that one)"""
        self.n += 1
        name = "%s%d" % (prefix, self.n)
        if fn == "term":
            kind = "funcarg-term"
        elif "funcarg" in path:
            kind = "funcarg"
        elif path and path[0] == "setop":
            kind = "setop-top"
        elif "groupby" in path:
            kind = "groupby"
        elif not path:
            kind = "top"
        else:
            kind = path[-1]
        self.meta[name] = (ROLE_OF[prefix], kind, cls, gov or cls, own or cls)
        return name

    @staticmethod
    def decisive(cls, parent, absent):
        """a statement right below a function call, or an operand of a top-level set operation, finds the alias / literal
        keys ABSENT and fills them from its OWN class; everything else inherits the governing class"""
        if absent or parent is None:
            return cls
        return parent["dec"]

    # --- terms ---
    def tref(self, t, st):
        if t is None:
            return None
        name, schema, alias = t
        if name.startswith("#"):
            return t
        tn = self.new("zt", st["path"], st["dec"], st["fn"])
        return [tn, [self.new("zh", st["path"], st["dec"], st["fn"]) for _ in (schema or [])],
                None if alias is None else (tn if self.coincide else self.new("za", st["path"], st["dec"], st["fn"]))]

    def alias(self, a, st, prefix="za"):
        if a is None:
            return None
        key = (prefix, a)
        if key not in st["amap"]:
            st["amap"][key] = self.new(prefix, st["path"], st["dec"], st["fn"], own=st["cls"])
        return st["amap"][key]

    def term(self, t, st):
        k = t[0]
        fnst = dict(st, fn=("term" if st["fn"] is None else st["fn"]))
        if k == "field":
            cn = self.new("zc", st["path"], st["dec"], st["fn"])
            if self.coincide and t[3] is not None:
                st["amap"][("za", t[3])] = cn
                return ["field", cn, self.tref(t[2], st), cn]
            return ["field", cn, self.tref(t[2], st), self.alias(t[3], st)]
        if k == "star":
            return ["star", self.tref(t[1], st)]
        if k == "vals":
            return ["vals", self.new("zs", st["path"], st["dec"], st["fn"]), self.alias(t[2], st)]
        if k in ("vali", "valf", "vald"):
            return [k, t[1], self.alias(t[2], st)]
        if k == "valb":
            return ["valb", t[1], t[2], self.alias(t[3], st)]
        if k in ("valnone", "null"):
            return [k, self.alias(t[1], st)]
        if k == "lit":
            return ["lit", t[1], self.alias(t[2], st)]
        if k == "param":
            return t
        if k == "neg":
            return ["neg", self.term(t[1], st)]
        if k == "arith":
            return ["arith", t[1], self.term(t[2], st), self.term(t[3], st), self.alias(t[4], st)]
        if k == "basic":
            return ["basic", t[1], self.term(t[2], st), self.term(t[3], st), self.alias(t[4], st, "zb")]
        if k == "cplx":
            return ["cplx", t[1], self.term(t[2], st), self.term(t[3], st), self.alias(t[4], st)]
        if k == "in":
            return ["in", self.term(t[1], st), self.term(t[2], st), t[3], self.alias(t[4], st)]
        if k == "between":
            return ["between", self.term(t[1], st), self.term(t[2], st), self.term(t[3], st), self.alias(t[4], st)]
        if k == "bitand":
            return ["bitand", self.term(t[1], st), t[2], self.alias(t[3], st)]
        if k in ("isnull", "notnull", "not", "all"):
            return [k, self.term(t[1], st), self.alias(t[2], st)]
        if k == "case":
            return ["case", [[self.term(c, st), self.term(v, st)] for c, v in t[1]], None if t[2] is None else self.term(t[2], st),
                    self.alias(t[3], st)]
        if k == "func":
            return ["func", t[1], [self.term(a, fnst) for a in t[2]], self.alias(t[3], st)]
        if k == "cast":
            return ["cast", self.term(t[1], fnst), t[2], self.alias(t[3], st)]
        if k in ("tuple", "array"):
            return [k, [self.term(a, st) for a in t[1]], self.alias(t[2], st)]
        return t   # empty, sub

    # --- items / statements ---
    def item(self, it, st):
        k = it[0]
        if k == "t":
            return ["t", self.term(it[1], st)]
        ab = st.get("abs", False)
        gb = st.get("gb", False)      # inside a GROUP BY item: _group_sql consumes groupby_alias

        def edge(name):
            return [] if ab else (["groupby"] if gb else [name])
        if k == "sub":
            return ["sub", self.query(it[1], st["path"] + edge("select-sub"), st, ab)]
        if k == "in":
            return ["in", self.term(it[1], st), self.query(it[2], st["path"] + edge("in"), st, ab), it[3]]
        if k == "exists":
            return ["exists", self.query(it[1], st["path"] + edge("exists"), st, ab), it[2]]
        if k == "cmp":
            return ["cmp", it[1], self.term(it[2], st), self.query(it[3], st["path"] + edge("cmp"), st, ab)]
        if k == "func":
            fnst = dict(st, fn=("term" if st["fn"] is None else st["fn"]))
            args = []
            for a in it[2]:
                if a[0] == "t":
                    args.append(["t", self.term(a[1], fnst)])
                else:
                    args.append(self.item(a, dict(st, path=st["path"] + ["funcarg"], abs=True)))
            return ["func", it[1], args, self.alias(it[3], st)]
        if k == "cplx":
            return ["cplx", it[1], self.item(it[2], st), self.item(it[3], st)]
        if k == "not":
            return ["not", self.item(it[1], st)]
        return it

    def source(self, s, st, edge, cte):
        if s[0] == "t":
            return ["t", self.tref(s[1], st)]
        if s[0] == "q":
            return ["q", self.query(s[1], st["path"] + [edge], st)]
        return ["a", cte.get(s[1], s[1])]

    def query(self, s, path, parent=None, absent=False):
        k = s["k"]
        if k == "set":
            top = top_cls_name(s)
            absent = absent or parent is None          # a top-level set operation leaves the keys to its operands
            base = self.query(s["base"], path + ["setop"], parent, absent)
            st = {"path": path, "cls": top, "dec": self.decisive(top, parent, absent), "fn": None, "amap": dict(self._last_amap)}
            out = {"k": "set", "base": base, "ops": [[o, self.query(q, path + ["setop"], parent, absent)] for o, q in s["ops"]]}
            if s.get("orderby"):
                out["orderby"] = [[self.term(t, st), d] for t, d in s["orderby"]]
            for key in ("limit", "offset"):
                if s.get(key) is not None:
                    out[key] = s[key]
            if s.get("alias") is not None:
                out["alias"] = self.new("zu", path, top, None, parent["dec"] if parent is not None else top)
            return out
        cls = s["cls"]
        st = {"path": path, "cls": cls, "dec": self.decisive(cls, parent, absent), "fn": None, "amap": {}}
        dec = st["dec"]
        out = {"k": k, "cls": cls}
        if s.get("ckw"):
            out["ckw"] = s["ckw"]
        if k == "sel":
            cte = {}
            if s.get("with"):
                out["with"] = []
                for name, sub in s["with"]:
                    cte[name] = self.new("zw", path, dec, None)
                    out["with"].append([cte[name], self.query(sub, path + ["with"], st)])
            out["from"] = [self.source(x, st, "from", cte) for x in s.get("from", [])]
            out["joins"] = []
            for how, src, cond in s.get("joins", []):
                src2 = self.source(src, st, "join", cte)
                if cond[0] == "on":
                    cond2 = ["on", self.item(cond[1], st)]
                elif cond[0] == "using":
                    cond2 = ["using", [self.new("zc", path, dec, None) for _ in cond[1]]]
                else:
                    cond2 = cond
                out["joins"].append([how, src2, cond2])
            out["selects"] = [self.item(i, st) for i in s.get("selects", [])]
            for key in ("where", "having"):
                if s.get(key) is not None:
                    out[key] = self.item(s[key], st)
            if s.get("groupby"):
                out["groupby"] = [self._ref_item(g, s, out, dict(st, gb=True)) for g in s["groupby"]]
            if s.get("orderby"):
                out["orderby"] = [[self._ref_item(i, s, out, st), d] for i, d in s["orderby"]]
            for key in ("distinct", "limit", "offset", "for_update"):
                if s.get(key) is not None:
                    out[key] = s[key]
            if s.get("alias") is not None:
                out["alias"] = self.new("zq", path, cls, None, parent["dec"] if parent is not None and not absent else cls)
            self._last_amap = st["amap"]
            return out
        if k == "ins":
            out["into"] = self.tref(s["into"], st)
            out["columns"] = [self.new("zc", path, dec, None) for _ in s.get("columns", [])]
            out["replace"] = s.get("replace", False)
            if s.get("rows"):
                out["rows"] = [[self.item(i, st) for i in row] for row in s["rows"]]
            if s.get("select") is not None:
                sel = s["select"]
                o2 = {"from": [self.source(x, st, "from", {}) for x in sel.get("from", [])],
                      "selects": [self.item(i, st) for i in sel["selects"]]}
                if sel.get("where") is not None:
                    o2["where"] = self.item(sel["where"], st)
                out["select"] = o2
            return out
        if k == "upd":
            out["table"] = self.tref(s["table"], st)
            out["from"] = [self.source(x, st, "from", {}) for x in s.get("from", [])]
            out["joins"] = []
            out["sets"] = [[self.new("zc", path, dec, None), self.item(v, st)] for _, v in s.get("sets", [])]
            if s.get("where") is not None:
                out["where"] = self.item(s["where"], st)
            if s.get("limit") is not None:
                out["limit"] = s["limit"]
            return out
        if k == "del":
            out["from"] = [self.source(x, st, "from", {}) for x in s.get("from", [])]
            if s.get("where") is not None:
                out["where"] = self.item(s["where"], st)
            return out
        raise ValueError(k)

    _last_amap = {}

    def _ref_item(self, g, s, out, st):
        """a GROUP BY / ORDER BY item that is literally one of the select items keeps referring to it"""
        for orig, new in zip(s.get("selects", []), out["selects"]):
            if g == orig:
                return new
        return self.item(g, st)


def sentinelize(spec, coincide=False):
    sn = Sentinels(coincide)
    return sn.query(spec, []), sn.meta


def class_conv(cls_name):
    b = qclass(cls_name)._builder()
    qa = b.ALIAS_QUOTE_CHAR if b.QUERY_ALIAS_QUOTE_CHAR is None else b.QUERY_ALIAS_QUOTE_CHAR
    from pypika import Table, Field
    f = Field("a", table=Table("t")).as_("al")
    txt = str(qclass(cls_name).from_(Table("t")).select(f).groupby(f))
    gba = txt.rstrip('"`').endswith("al")            # does this class refer to a selected alias in GROUP BY?
    return {"q": b.QUOTE_CHAR, "sq": b.SECONDARY_QUOTE_CHAR, "aq": b.ALIAS_QUOTE_CHAR, "qa": qa, "as": bool(b.as_keyword), "gba": gba}


def kw_conv(cls_name, kw):
    c = class_conv(cls_name)
    if "q" in kw:
        c["q"] = kw["q"]
    if "rest" in kw:
        c["sq"], c["aq"], c["as"] = kw["rest"]
        c["qa"] = None      # reported separately: the query-alias quote always comes from the sub-query's class
    return c


def expected_quote(role, conv):
    if role == "ident" or role == "cte-name":
        return conv["q"] or None
    if role in ("alias", "criterion-alias", "alias-qualifier", "alias-reference"):
        return (conv["aq"] or conv["q"]) or None
    if role in ("query-alias", "setop-alias"):
        return (conv["qa"] or conv["q"]) or None
    if role == "string":
        return conv["sq"] or None
    raise ValueError(role)


def sentinel_report(text, meta, conv, outer, check_qalias=True, collapse=False):
    """every occurrence of every sentinel must carry the outer convention's quote for its role"""
    toks = lex(text)
    out = []
    # token positions inside GROUP BY segments
    in_group, depth, i = set(), 0, 0
    while i < len(toks):
        k_, v_, _ = toks[i]
        if k_ == "punct" and v_ == "(":
            depth += 1
        elif k_ == "punct" and v_ == ")":
            depth -= 1
        elif k_ == "word" and v_.upper() == "GROUP" and i + 1 < len(toks) and toks[i + 1][1].upper() == "BY":
            d0, dd, j = depth, depth, i + 2
            while j < len(toks):
                kk, vv, _ = toks[j]
                if kk == "punct" and vv == "(":
                    dd += 1
                elif kk == "punct" and vv == ")":
                    if dd == d0:
                        break
                    dd -= 1
                elif dd == d0 and kk == "word" and vv.upper() in GROUP_END:
                    break
                if dd == d0:
                    in_group.add(j)
                j += 1
        i += 1

    def sig(inner, pk, role):
        if collapse:
            return ["C07", outer, "-", pk if role not in POSITION_FREE else "any", role]
        if role in POSITION_FREE:
            return ["C07", outer, "-", "any", role]
        if pk == "funcarg-term":       # the fall-backs of Function.get_sql apply, whatever class governs around it
            return ["C07", outer, "-", pk, role]
        return ["C07", outer, inner, pk, role]
    for i, (kind, val, quote) in enumerate(toks):
        if kind not in ("q", "word") or val not in meta:
            continue
        role, pk, inner, gov, own = meta[val]
        nxt = toks[i + 1] if i + 1 < len(toks) else None
        prv = toks[i - 1] if i > 0 else None
        qualifier = nxt is not None and nxt[0] == "punct" and nxt[1] == "."
        reference = prv is not None and ((prv[0] == "word" and prv[1].upper() == "BY") or (prv[0] == "punct" and prv[1] in ",("))
        if role == "alias" and reference and not qualifier and i in in_group and conv.get("gba") is False and not collapse:
            out.append({"signature": ["C07", outer, own, pk, "groupby-alias"],
                        "what": "GROUP BY refers to the selected alias %s although the outer class %s groups by expressions "
                                "(groupby_alias=False is not in force here); statement: %s" % (val, outer, text[:400])})
        if role == "alias" and qualifier:
            role = "alias-qualifier"
        elif role == "alias" and reference:
            role = "alias-reference"
        if role in ("query-alias", "setop-alias") and (not check_qalias or qualifier):
            continue
        exp = expected_quote(role, conv)
        if quote != exp:
            out.append({"signature": sig(inner, pk, role),
                        "what": "%s sentinel %s is written %s, the outer convention (%s) writes this role %s; statement: %s" % (
                            role, val, _q(quote), outer, _q(exp), text[:400])})
        # AS keyword at definition sites
        if role in ("alias", "criterion-alias", "query-alias", "setop-alias") and prv is not None and not reference:
            has_as = prv[0] == "word" and prv[1].upper() == "AS"
            if has_as != conv["as"]:
                out.append({"signature": sig(gov, pk, "as-keyword"),
                            "what": "alias %s is introduced %s AS, the outer convention (%s) writes aliases %s AS; statement: %s" % (
                                val, "with" if has_as else "without", outer, "with" if conv["as"] else "without", text[:400])})
    return out


def _q(x):
    return "bare" if x is None else "inside %s" % x


# ----------------------------------------------------------------------------------------------
# oracle part 2: devendored token sequences
# ----------------------------------------------------------------------------------------------
SETOPS = {"UNION", "INTERSECT", "EXCEPT", "MINUS"}
GROUP_END = {"HAVING", "ORDER", "LIMIT", "OFFSET", "FETCH", "FOR", "UNION", "INTERSECT", "EXCEPT", "MINUS"}


def devendor(text, kind):
    """quote-erased token values with the documented vendor segments removed"""
    t = [(k, v) for k, v, _ in lex(text)]
    U = [v.upper() if k == "word" else None for k, v in t]
    n = len(t)
    drop = [False] * n
    # matching parentheses
    match, stack = {}, []
    for i, (k, v) in enumerate(t):
        if k == "punct" and v == "(":
            stack.append(i)
        elif k == "punct" and v == ")" and stack:
            j = stack.pop()
            match[j] = i
    # set-operation operand parentheses
    for i, j in match.items():
        if i + 1 < n and U[i + 1] in ("SELECT", "WITH"):
            before = U[i - 1] if i > 0 else None
            after = U[j + 1] if j + 1 < n else None
            starts = i == 0 or t[i - 1] == ("punct", "(")
            if before in SETOPS or before == "ALL" or (after in SETOPS and starts):
                drop[i] = drop[j] = True
    # a set operation nested as an operand: "((..) UNION (..))" when operands are parenthesised, else the derived table
    # "SELECT * FROM (.. UNION ..)" (ClickHouse, SQLite)
    for i, j in match.items():
        before = U[i - 1] if i > 0 else None
        after = U[j + 1] if j + 1 < n else None
        nxt_is_end = j + 1 >= n or t[j + 1] == ("punct", ")") or after in SETOPS or after in ("ORDER", "LIMIT", "OFFSET", "FETCH")
        if (before in SETOPS or before == "ALL") and i + 1 < n and t[i + 1] == ("punct", "(") and nxt_is_end:
            drop[i] = drop[j] = True
        if i >= 3 and U[i - 3] == "SELECT" and t[i - 2] == ("punct", "*") and U[i - 1] == "FROM" and nxt_is_end \
                and i + 1 < n and (U[i + 1] in ("SELECT", "WITH") or t[i + 1] == ("punct", "(")) and i >= 4 and (U[i - 4] in SETOPS or U[i - 4] == "ALL"):
            for k_ in (i - 3, i - 2, i - 1, i, j):
                drop[k_] = True
    depth = 0
    i = 0
    while i < n:
        k, v = t[i]
        if k == "punct" and v == "(":
            depth += 1
        elif k == "punct" and v == ")":
            depth -= 1
        u = U[i]
        if u == "AS":
            drop[i] = True
        elif u == "LIMIT" and i + 1 < n and t[i + 1][0] == "num":
            drop[i] = drop[i + 1] = True
        elif u == "OFFSET" and i + 1 < n and t[i + 1][0] == "num":
            drop[i] = drop[i + 1] = True
            if i + 2 < n and U[i + 2] == "ROWS":
                drop[i + 2] = True
        elif u == "FETCH" and i + 4 < n and U[i + 1] == "NEXT":
            for j in range(i, i + 5):
                drop[j] = True
        elif u == "GROUP" and i + 1 < n and U[i + 1] == "BY":
            d0, j = depth, i + 2
            dd = depth
            while j < n:
                kk, vv = t[j]
                if kk == "punct" and vv == "(":
                    dd += 1
                elif kk == "punct" and vv == ")":
                    if dd == d0:
                        break
                    dd -= 1
                elif dd == d0 and U[j] in GROUP_END:
                    break
                drop[j] = True
                j += 1
        elif u == "ARRAY" and i + 1 < n and t[i + 1] == ("punct", "["):
            drop[i] = True
        elif k == "q" and v == "{}":
            t[i] = ("punct", "[]")
        if kind in ("upd", "del") and depth == 0 and u in ("ALTER", "TABLE", "UPDATE", "SET", "DELETE", "FROM"):
            drop[i] = True
        i += 1
    out = []
    for i, (k, v) in enumerate(t):
        if drop[i]:
            continue
        if out and out[-1] == "[" and v == "]":
            out[-1] = "[]"
            continue
        out.append(v)
    return out


def first_diff(a, b):
    for i, (x, y) in enumerate(zip(a, b)):
        if x != y:
            return i, x, y
    if len(a) != len(b):
        i = min(len(a), len(b))
        return i, (a[i] if i < len(a) else "<end>"), (b[i] if i < len(b) else "<end>")
    return None


# ----------------------------------------------------------------------------------------------
# oracle part 3: vendor-only clauses and dialect-keyed literal forms (implementation only, no Gallina model)
# ----------------------------------------------------------------------------------------------
INTERVAL_FORM = {"MySQLQuery": "expr-quoted", "OracleQuery": "expr-quoted"}   # INTERVAL '1' DAY; the others INTERVAL '1 DAY'
ARRAY_FORM = {"PostgreSQLQuery": "ARRAY[", "RedshiftQuery": "ARRAY["}          # the others: [


def vendor_cases():
    out = []
    for c in CLS_NAMES:
        for inner in ("Query", "MySQLQuery", "PostgreSQLQuery", c):
            out.append({"vendor": "forms", "cls": c, "inner": inner})
    out.append({"vendor": "mysql-dup", "cls": "MySQLQuery"})
    out.append({"vendor": "mysql-for-update", "cls": "MySQLQuery"})
    out.append({"vendor": "pg-conflict", "cls": "PostgreSQLQuery"})
    out.append({"vendor": "pg-distinct-on", "cls": "PostgreSQLQuery"})
    out.append({"vendor": "pg-for-update", "cls": "PostgreSQLQuery"})
    out.append({"vendor": "mssql-top", "cls": "MSSQLQuery"})
    out.append({"vendor": "clickhouse-extras", "cls": "ClickHouseQuery"})
    out.append({"vendor": "sqlite-bool", "cls": "SQLLiteQuery"})
    # builders outside the statement model: DROP / CREATE INDEX / ClickHouse helper functions / LOAD / COPY
    for c in CLS_NAMES:
        out.append({"vendor": "drop", "cls": c})
        out.append({"vendor": "create-index", "cls": c})
        out.append({"vendor": "clickhouse-functions", "cls": c})
    out.append({"vendor": "mysql-load", "cls": "MySQLQuery"})
    out.append({"vendor": "vertica-copy", "cls": "VerticaQuery"})
    # statements started from a Table object made by the class's factories: the dialect context is the table's query_cls
    for c in CLS_NAMES:
        out.append({"vendor": "factory", "cls": c})
    # JSON document literals: the literal's text is the same token under every class (direct and around a sub-query)
    for c in CLS_NAMES:
        out.append({"vendor": "json-literal", "cls": c})
    # statements STARTED with keyword arguments (as_keyword=True; dialect= on the generic class), through every entry point that
    # forwards **kwargs, each between two plain statements of the same class
    for c in CLS_NAMES:
        out.append({"vendor": "ctor-kwargs", "cls": c})
    # ONE set of term / table objects embedded in statements of every class, rendered in varying orders (and pre-rendered
    # with str()): rendering is a pure function of the statement and the class, so the text must equal that of fresh objects
    for order in range(len(SHARED_ORDERS)):
        out.append({"vendor": "shared-terms", "cls": "Query", "order": order})
    # every clause renderer (_*_sql) of QueryBuilder and of the dialect builders, under every class that has it
    for c in CLS_NAMES:
        out.append({"vendor": "clause-inventory", "cls": c})
        for label, (fn, methods, only) in CLAUSES.items():
            if only is None or c in only:
                out.append({"vendor": "clause-" + label, "cls": c})
    return out


# ----------------------------------------------------------------------------------------------
# clause coverage: one statement per clause renderer, with sentinel identifiers / aliases / literals inside the clause
# ----------------------------------------------------------------------------------------------
def _cl_select(Q, t, reg):
    from pypika import Table, functions as fn
    u = Table(reg("zt20", "ident")).as_(reg("za21", "alias"))
    return (Q.from_(t).join(u).on(t.field(reg("zc22", "ident")) == u.field(reg("zc23", "ident")))
            .select(t.field(reg("zc24", "ident")).as_(reg("za25", "alias")), fn.Sum(t.field(reg("zc26", "ident"))))
            .distinct().where(t.field(reg("zc27", "ident")) == reg("zs28", "string"))
            .groupby(t.field(reg("zc29", "ident"))).having(fn.Sum(t.field(reg("zc30", "ident"))) > reg("zs31", "string"))
            .orderby(t.field(reg("zc32", "ident"))).limit(5).offset(2).for_update())


def _cl_prewhere(Q, t, reg):
    f = lambda n: t.field(reg(n, "ident"))    # noqa: E731
    return (Q.from_(t).select(f("zc20"))
            .prewhere(f("zc21") == reg("zs22", "string")).prewhere(f("zc23").isin([reg("zs24", "string"), reg("zs25", "string")]))
            .prewhere(f("zc26").between(reg("zs27", "string"), reg("zs28", "string"))).prewhere(f("zc29").isnull())
            .prewhere(f("zc30").notnull() & f("zc31").like(reg("zs32", "string"))))


def _cl_indexes(Q, t, reg):
    return Q.from_(t).select(t.field(reg("zc20", "ident"))).force_index(reg("zc21", "ident"), reg("zc22", "ident")).use_index(reg("zc23", "ident"))


def _cl_totals_rollup(Q, t, reg):
    from pypika import functions as fn
    a = Q.from_(t).select(t.field(reg("zc20", "ident")), fn.Sum(t.field(reg("zc21", "ident")))).groupby(t.field(reg("zc22", "ident"))).with_totals()
    b = Q.from_(t).select(t.field(reg("zc23", "ident")), fn.Sum(t.field(reg("zc24", "ident")))).rollup(t.field(reg("zc25", "ident")), vendor="mysql")
    c = Q.from_(t).select(t.field(reg("zc26", "ident")), fn.Sum(t.field(reg("zc27", "ident")))).rollup(t.field(reg("zc28", "ident")), t.field(reg("zc29", "ident")))
    return [a, b, c]


def _cl_insert(Q, t, reg):
    from pypika import Table
    u = Table(reg("zt20", "ident"))
    a = Q.into(t).columns(reg("zc21", "ident"), t.field(reg("zc22", "ident"))).insert(1, reg("zs23", "string")).insert(2, reg("zs24", "string"))
    b = Q.into(t).columns(reg("zc25", "ident")).replace(reg("zs26", "string"))
    c = Q.into(t).columns(reg("zc27", "ident")).from_(u).select(u.field(reg("zc28", "ident"))).where(u.field(reg("zc29", "ident")) == reg("zs30", "string"))
    d = Q.from_(u).select(u.field(reg("zc31", "ident"))).into(Table(reg("zt32", "ident")))
    return [a, b, c, d]


def _cl_update_delete(Q, t, reg):
    from pypika import Table
    u = Table(reg("zt20", "ident"))
    a = (Q.update(t).set(reg("zc21", "ident"), reg("zs22", "string")).set(t.field(reg("zc23", "ident")), t.field(reg("zc24", "ident")))
         .where(t.field(reg("zc25", "ident")) == reg("zs26", "string")).limit(1))
    b = Q.update(t).join(u).on(t.field(reg("zc27", "ident")) == u.field(reg("zc28", "ident"))).set(t.field(reg("zc29", "ident")), u.field(reg("zc30", "ident")))
    c = Q.from_(t).delete().where(t.field(reg("zc31", "ident")).isin([reg("zs32", "string")]))
    d = Q.update(t).from_(u).set(t.field(reg("zc33", "ident")), u.field(reg("zc34", "ident")))
    return [a, b, c, d]


def _cl_temporal(Q, t, reg):
    from pypika import Table, SYSTEM_TIME
    v = Table(reg("zt20", "ident")).for_(SYSTEM_TIME.as_of(reg("zs21", "string")))
    w = Table(reg("zt22", "ident")).for_(SYSTEM_TIME.between(reg("zs23", "string"), reg("zs24", "string"))).as_(reg("za25", "alias"))
    return [Q.from_(v).select(v.field(reg("zc26", "ident"))), Q.from_(w).select(w.field(reg("zc27", "ident")))]


def _cl_window(Q, t, reg):
    from pypika import analytics as an, functions as fn
    f = lambda n: t.field(reg(n, "ident"))    # noqa: E731
    w1 = an.Sum(f("zc20")).over(f("zc21")).orderby(f("zc22")).rows(an.Preceding(2), an.CURRENT_ROW).as_(reg("za23", "alias"))
    w2 = an.Rank().over(f("zc24"), f("zc25")).orderby(f("zc26")).as_(reg("za27", "alias"))
    w3 = fn.Count(f("zc28")).filter(f("zc29") == reg("zs30", "string")).as_(reg("za31", "alias"))
    return Q.from_(t).select(w1, w2, w3)


def _cl_with_setop(Q, t, reg):
    from pypika import Table, AliasedQuery
    u = Table(reg("zt20", "ident"))
    sub = Q.from_(u).select(u.field(reg("zc21", "ident"))).where(u.field(reg("zc22", "ident")) == reg("zs23", "string"))
    a = Q.with_(sub, "cte1").from_(AliasedQuery("cte1")).select("*")
    b = (Q.from_(t).select(t.field(reg("zc24", "ident")).as_(reg("za25", "alias"))).union(Q.from_(u).select(u.field(reg("zc26", "ident")).as_(reg("za27", "alias"))))
         .orderby(t.field(reg("zc28", "ident"))).limit(3).offset(1))
    return [a, b]


def _cl_mysql(Q, t, reg):
    from pypika.terms import Values
    a = (Q.into(t).insert(1, reg("zs20", "string")).on_duplicate_key_update(t.field(reg("zc21", "ident")), reg("zs22", "string"))
         .on_duplicate_key_update(reg("zc23", "ident"), Values(t.field(reg("zc24", "ident")))))
    b = Q.into(t).insert(1).on_duplicate_key_ignore()
    c = Q.from_(t).select(t.field(reg("zc25", "ident"))).modifier("SQL_CALC_FOUND_ROWS").for_update(of=(reg("zt26", "ident"),), nowait=True)
    return [a, b, c]


def _cl_pg(Q, t, reg):
    from pypika import Table
    u = Table(reg("zt20", "ident"))
    a = (Q.into(t).insert(1, reg("zs21", "string")).on_conflict(t.field(reg("zc22", "ident"))).do_update(t.field(reg("zc23", "ident")), reg("zs24", "string"))
         .do_update(reg("zc25", "ident")).where(t.field(reg("zc26", "ident")) == reg("zs27", "string")).returning(t.field(reg("zc28", "ident")), reg("zc29", "ident")))
    b = Q.into(t).insert(1).on_conflict(reg("zc30", "ident")).do_nothing()
    c = Q.from_(t).select(t.field(reg("zc31", "ident")).as_(reg("za32", "alias"))).distinct_on(t.field(reg("zc33", "ident")), reg("zc34", "ident"))
    d = Q.from_(t).select(t.field(reg("zc35", "ident"))).for_update(of=(reg("zt36", "ident"),), skip_locked=True)
    e = Q.from_(t).using(u).where(t.field(reg("zc37", "ident")) == u.field(reg("zc38", "ident"))).delete()
    return [a, b, c, d, e]


def _cl_mssql(Q, t, reg):
    return Q.from_(t).select(t.field(reg("zc20", "ident")).as_(reg("za21", "alias"))).top(3, percent=True, with_ties=True).orderby(t.field(reg("zc22", "ident")))


def _cl_clickhouse(Q, t, reg):
    a = (Q.from_(t).select(t.field(reg("zc20", "ident")).as_(reg("za21", "alias"))).final().sample(10, 5)
         .distinct_on(t.field(reg("zc22", "ident")), reg("zc23", "ident")).limit_by(2, t.field(reg("zc24", "ident")), reg("zc25", "ident")))
    b = Q.from_(t).select(t.field(reg("zc26", "ident"))).limit_offset_by(2, 1, t.field(reg("zc27", "ident")))
    c = Q.update(t).set(reg("zc28", "ident"), reg("zs29", "string")).where(t.field(reg("zc30", "ident")) == reg("zs31", "string"))
    d = Q.from_(t).delete().where(t.field(reg("zc32", "ident")) == reg("zs33", "string"))
    return [a, b, c, d]


def _cl_sqlite(Q, t, reg):
    return Q.into(t).columns(reg("zc20", "ident")).insert_or_replace(reg("zs21", "string"))


def _cl_vertica(Q, t, reg):
    return Q.from_(t).select(t.field(reg("zc20", "ident")).as_(reg("za21", "alias"))).hint("lbl")


# ----------------------------------------------------------------------------------------------
# table factories: X.Table / X.Tables / Table(query_cls=X) / make_tables(query_cls=X), and copies of such tables
# ----------------------------------------------------------------------------------------------
def run_factory(cls_name):
    import pypika
    from pypika import Table
    from pypika.queries import make_tables
    X = qclass(cls_name)
    routes = {}
    routes["X.Table"] = (X.Table("orders"), ("orders", None, None))
    routes["X.Table+schema"] = (X.Table("orders", schema="sch"), ("orders", "sch", None))
    routes["X.Table+alias"] = (X.Table("orders", alias="o"), ("orders", None, "o"))
    tabs = X.Tables("items", ("orders", "o"), ("cust", "c"), "last")
    routes["X.Tables[str-first]"] = (tabs[0], ("items", None, None))
    routes["X.Tables[tuple]"] = (tabs[1], ("orders", None, "o"))
    routes["X.Tables[tuple-2]"] = (tabs[2], ("cust", None, "c"))
    routes["X.Tables[str-last]"] = (tabs[3], ("last", None, None))
    tabs = X.Tables(("orders", "o"), schema="sch")
    routes["X.Tables[tuple]+schema"] = (tabs[0], ("orders", "sch", "o"))
    routes["Table(query_cls)"] = (Table("orders", query_cls=X), ("orders", None, None))
    routes["Table(query_cls)+alias"] = (Table("orders", alias="o", schema="sch", query_cls=X), ("orders", "sch", "o"))
    mt = make_tables("items", ("orders", "o"), query_cls=X)
    routes["make_tables[str]"] = (mt[0], ("items", None, None))
    routes["make_tables[tuple]"] = (mt[1], ("orders", None, "o"))
    mt = pypika.Tables(("orders", "o"), "items", query_cls=X)
    routes["pypika.Tables[tuple]"] = (mt[0], ("orders", None, "o"))
    routes["X.Table.as_"] = (X.Table("orders").as_("o"), ("orders", None, "o"))
    routes["X.Table.for_"] = (X.Table("orders").for_(pypika.SYSTEM_TIME.as_of("2020-01-01")), None)
    rows = []
    for route, (t, plain) in routes.items():
        if plain is None:
            ref_t = Table("orders").for_(pypika.SYSTEM_TIME.as_of("2020-01-01"))
        else:
            ref_t = Table(plain[0], schema=plain[1])
            if plain[2] is not None:
                ref_t = ref_t.as_(plain[2])
        stmts = {
            "select": (lambda tb, start: start(tb).select(tb.field("id").as_("k"), "name").where(tb.field("name") == "it's").orderby(tb.field("id")).limit(5).offset(2)),
            "select-union": (lambda tb, start: start(tb).select(tb.field("id")).union(start(tb).select(tb.field("id")).where(tb.field("id") > 1))),
        }
        for label, fn in stmts.items():
            try:
                got = str(fn(t, lambda tb: _Sel(tb)))
                ref = str(fn(ref_t, lambda tb: _Ref(X, tb)))
            except Exception as e:  # noqa
                got, ref = "!" + type(e).__name__, "!reference"
            rows.append([route, label, got, ref])
        try:
            got, ref = str(t.update().set("name", "x").set("flag", True).where(t.field("id") == 1)), \
                str(X.update(ref_t).set("name", "x").set("flag", True).where(ref_t.field("id") == 1))
        except Exception as e:  # noqa
            got, ref = "!" + type(e).__name__, "!reference"
        rows.append([route, "update", got, ref])
        try:
            got, ref = str(t.insert(1, "x", True)), str(X.into(ref_t).insert(1, "x", True))
        except Exception as e:  # noqa
            got, ref = "!" + type(e).__name__, "!reference"
        rows.append([route, "insert", got, ref])
    return {"text": "", "meta": {}, "rows": rows}


class _Sel:
    """table.select(...) as a starting point with the same surface as X.from_(table)"""
    def __init__(self, tb):
        self.tb = tb

    def select(self, *terms):
        return self.tb.select(*terms)


class _Ref:
    def __init__(self, X, tb):
        self.X, self.tb = X, tb

    def select(self, *terms):
        return self.X.from_(self.tb).select(*terms)


# ----------------------------------------------------------------------------------------------
# JSON document literals: every public spelling of the JSON term; the text of a literal does not depend on the class
# ----------------------------------------------------------------------------------------------
JSON_DOC = {"kind": "a", "tags": ["x", "y"], "n": 1, "ok": True, "none": None, "q": "it's \"q\" `b`", "in": {"k": ["v"]}}
JSON_LIST = ["x", {"k": "v"}, 2, False]
# spelling -> (argument, how the argument becomes literal tokens: "json" the JSON text of the argument, "const" the
# plain string/number literal, "wrap" Term.wrap_json: JSON text for a dict/list and a plain literal for str/int/bool,
# "array" one plain literal per element)
JSON_SPELLINGS = {
    "contains": [(JSON_DOC, "json"), (JSON_LIST, "json"), ("plain", "wrap"), (5, "wrap")],
    "contained_by": [(JSON_DOC, "json"), (JSON_LIST, "json")],
    "has_key": [("k'1", "wrap")],
    "get_json_value": [("k'1", "const"), (3, "const")],
    "get_text_value": [("k2", "const"), (0, "const")],
    "get_path_json_value": [("{a,b}", "wrap")],
    "get_path_text_value": [("{a,c}", "wrap")],
    "has_keys": [(["a", "b"], "array")],
    "has_any_keys": [(["c", "d'e"], "array")],
}


def json_expected(arg, how):
    import json
    if how == "wrap":
        how = "json" if isinstance(arg, (dict, list)) else "const"
    if how == "json":
        return [json.dumps(arg, separators=(",", ":"), ensure_ascii=False)]
    if how == "const":
        return [arg] if isinstance(arg, str) else []
    return list(arg)


def json_public_spellings():
    from pypika.terms import JSON, Term
    return sorted(n for n, f in vars(JSON).items() if not n.startswith("_") and callable(f) and n != "get_sql")


def run_json(cls_name):
    from pypika import Table
    from pypika.terms import JSON
    X = qclass(cls_name)
    rows = []

    def emit(label, fn, expected):
        try:
            text = str(fn())
        except Exception as e:  # noqa
            text = "!" + type(e).__name__ + ": " + str(e)
        rows.append([label, text, expected])

    t = Table("zt1")
    for name, args in JSON_SPELLINGS.items():
        for i, (arg, how) in enumerate(args):
            exp = json_expected(arg, how)
            mk = lambda tb, name=name, arg=arg: getattr(tb.field("doc"), name)(arg)
            emit("%s#%d/where" % (name, i), lambda: X.from_(t).select(t.field("id")).where(mk(t)), exp)
            emit("%s#%d/select" % (name, i), lambda: X.from_(t).select(mk(t).as_("zb1")), exp)
            for inner in CLS_NAMES:
                I = qclass(inner)
                emit("%s#%d/sub:%s" % (name, i, inner),
                     lambda: X.from_(t).select(t.field("id")).where(t.field("id").isin(I.from_(t).select(t.field("id")).where(mk(t)))), exp)
                emit("%s#%d/from-sub:%s" % (name, i, inner),
                     lambda: X.from_(I.from_(t).select(t.field("id")).where(mk(t)).as_("zq1")).select("id"), exp)
    for i, (val, how) in enumerate([(JSON_DOC, "json"), (JSON_LIST, "json"), ("plain", "json"), (7, "json"), (None, "json")]):
        exp = json_expected(val, how)
        emit("JSON()#%d/select" % i, lambda: X.from_(t).select(JSON(val).as_("za1"), JSON(val, alias="za2")), exp + exp)
        emit("JSON()#%d/insert" % i, lambda: X.into(t).insert(1, JSON(val)), exp)
        emit("JSON()#%d/update" % i, lambda: X.update(t).set(t.field("doc"), JSON(val)).where(JSON(val).contains(val)), exp * 2 + (json_expected(val, "wrap") if val is not None else []))
        emit("JSON()#%d/chain" % i, lambda: X.from_(t).select(JSON(val).get_json_value("k").as_("zb1")), exp + ["k"])
        for inner in CLS_NAMES:
            I = qclass(inner)
            emit("JSON()#%d/sub:%s" % (i, inner),
                 lambda: X.from_(t).select(t.field("id")).where(t.field("id").isin(I.from_(t).select(JSON(val)))), exp)
    known = set(JSON_SPELLINGS)
    return {"text": "", "meta": {}, "rows": rows, "unknown": [n for n in json_public_spellings() if n not in known]}


_FORMS = re.compile(r"INTERVAL '[^']*'(?: (?!AS\b)[A-Z_]+)?|ARRAY\[|\[")


def run_ctor(cls_name):
    """rows [entry, request, text, plain text before, plain text after, text of the reference class]: the request is
    as_keyword=True and / or (generic class only) dialect=D; the reference class is the stock class of dialect D, whose
    Interval / Array syntax (quote-free tokens) the statement must show"""
    from pypika import Table, AliasedQuery
    from pypika.terms import Array, Interval
    from pypika.enums import Dialects
    X = qclass(cls_name)
    t = Table("zt1")

    def stmts(Q, kw):
        iv = lambda: (t.field("zc9") + Interval(days=1)).as_("za1")    # noqa: E731   fresh terms for every statement
        ar = lambda: Array(1, 2).as_("za2")         # noqa: E731
        return [("from_", lambda: Q.from_(t, **kw).select(iv(), ar())),
                ("select", lambda: Q.select(iv(), ar(), **kw)),
                ("_builder", lambda: Q._builder(**kw).from_(t).select(iv(), ar())),
                ("with_", lambda: Q.with_(Q.from_(t).select(iv(), ar()), "zw1", **kw).from_(AliasedQuery("zw1")).select(iv(), ar())),
                ("into", lambda: Q.into(t, **kw).from_(t).select(iv(), ar())),
                ("update", lambda: Q.update(t, **kw).set("zc1", Interval(days=1)).set("zc2", Array(1, 2)))]

    def text(fn):
        try:
            return str(fn())
        except Exception as e:  # noqa
            return "!" + type(e).__name__ + ": " + str(e)
    by_dialect = {}
    for c in CLS_NAMES:
        d = qclass(c)._builder().dialect
        if d is not None:
            by_dialect.setdefault(d.name, c)
    requests = []
    if cls_name not in CLS_DEFAULT_AS:
        requests.append({"as_keyword": True})
    if cls_name in CLS_TAKES_DIALECT:
        for d in sorted(by_dialect):
            requests.append({"dialect": d})
            requests.append({"dialect": d, "as_keyword": True})
    rows = []
    for i, (entry, plain) in enumerate(stmts(X, {})):
        for req in requests:
            kw = dict(req)
            if "dialect" in kw:
                kw["dialect"] = getattr(Dialects, kw["dialect"])
            before = text(plain)
            got = text(stmts(X, kw)[i][1])
            after = text(plain)
            ref = text(stmts(qclass(by_dialect[req["dialect"]]), {})[i][1]) if "dialect" in req else before
            rows.append([entry, req, got, before, after, ref])
    return {"text": "", "meta": {}, "rows": rows}


def ctor_oracle(cls, outcome):
    out, seen = [], set()

    def add(entry, what, msg):
        if (entry, what) not in seen:
            seen.add((entry, what))
            out.append({"signature": ["C07", cls, cls, "vendor:ctor-kwargs", entry + "/" + what], "what": msg})

    def words(text):
        return [(k_, v_, q_) for k_, v_, q_ in lex(text) if not (k_ == "word" and v_.upper() == "AS")]

    def n_as(text):
        return sum(1 for k_, v_, _ in lex(text) if k_ == "word" and v_.upper() == "AS")
    default_as = cls in CLS_DEFAULT_AS
    for entry, req, got, before, after, ref in outcome.get("rows", []):
        label = ", ".join("%s=%s" % kv for kv in sorted(req.items()))
        if got.startswith("!") or before.startswith("!") or ref.startswith("!"):
            add(entry, "exception", "%s.%s(..., %s) does not render: %s / %s / %s" % (cls, entry, label, got, before, ref))
            continue
        if before != after:
            add(entry, "plain-changed", "a plain %s statement renders %r before and %r after a statement started with %s was rendered"
                % (cls, before, after, label))
        n_alias = len(re.findall(r"za\d", got))
        structural = n_as(before) - (n_alias if default_as else 0)        # WITH name AS (...)
        want = structural + (n_alias if (default_as or req.get("as_keyword")) else 0)
        if n_as(got) != want:
            add(entry, "as-keyword", "%s.%s(..., %s): %d AS keywords, %d expected (every alias is introduced %s AS): %s"
                % (cls, entry, label, n_as(got), want, "with" if want > structural else "without", got))
        if _FORMS.findall(got) != _FORMS.findall(ref):
            add(entry, "dialect-forms", "%s.%s(..., %s) writes intervals / arrays as %r, the dialect asked for writes %r: %s  ||  %s"
                % (cls, entry, label, _FORMS.findall(got), _FORMS.findall(ref), got, ref))
        if "dialect" not in req and first_diff(words(got), words(before)) is not None:
            add(entry, "tokens", "%s.%s(..., %s) differs from the plain statement in more than AS: %s  ||  %s" % (cls, entry, label, got, before))
    return out


def json_oracle(cls, outcome):
    out, seen = [], set()
    for n in outcome.get("unknown", []):
        out.append({"signature": ["C07", cls, cls, "vendor:json-literal", "unknown-spelling:" + n],
                    "what": "pypika.terms.JSON has a public method %s that the C07 JSON family does not enumerate" % n})
    for label, text, expected in outcome.get("rows", []):
        lits = [v for kind, v, q in lex(text) if kind == "q" and q == "'"]
        if text.startswith("!") or lits != expected:
            spelling, where = label.split("#")[0], label.split("/")[1].split(":")[0]
            sig = ("C07", cls, cls, "vendor:json-literal", spelling + "/" + where)
            if sig in seen:
                continue
            seen.add(sig)
            out.append({"signature": list(sig),
                        "what": "%s under %s: the string literals of %r are %r; the class-independent text of the literals is %r"
                                % (label, cls, text, lits, expected)})
    return out


# ----------------------------------------------------------------------------------------------
# shared term objects across dialects
# ----------------------------------------------------------------------------------------------
def shared_objects():
    """kind -> builder of ONE object (term, or table used as FROM item); dialect-keyed terms (Interval, Array) and every other
    term family whose text depends on the class's quote characters / conventions"""
    from pypika import Table, Field, Case, Tuple, JSON, Not, analytics as an, functions as fn, Parameter
    from pypika.terms import Array, Interval, ValueWrapper, Function, Star, Negative
    t = Table("st", schema="sh")
    mk = {
        "interval-days": lambda: Interval(days=1),
        "interval-mixed": lambda: Interval(days=1, hours=2, minutes=3),
        "interval-weeks": lambda: Interval(weeks=2),
        "interval-quarters": lambda: Interval(quarters=1),
        "interval-micro": lambda: Interval(microseconds=5),
        "interval-negative": lambda: Interval(hours=-4),
        "interval-in-function": lambda: fn.Coalesce(Interval(months=3), Interval(years=1)),
        "interval-arith": lambda: Field("d", table=t) + Interval(days=7),
        "array": lambda: Array(Field("a", table=t), "s", 1),
        "array-empty": lambda: Array(),
        "array-in-function": lambda: Function("F", Array(1, 2), Array()),
        "field": lambda: Field("a", table=t).as_("fa"),
        "star": lambda: Star(t),
        "string": lambda: ValueWrapper("it's").as_("sv"),
        "boolean": lambda: ValueWrapper(True),
        "json": lambda: JSON({"k": "v"}).get_json_value("k"),
        "cast": lambda: fn.Cast(Field("a", table=t), "VARCHAR").as_("ca"),
        "function": lambda: fn.Concat(Field("a", table=t), "x").as_("fc"),
        "case": lambda: Case().when(Field("a", table=t) == "x", Field("b", table=t)).else_("y").as_("cs"),
        "tuple": lambda: Tuple(Field("a", table=t), "x"),
        "criterion": lambda: ((Field("a", table=t) == "x") & Field("b", table=t).isin(["p", "q"])).as_("cr"),
        "not-between": lambda: Not(Field("a", table=t).between("l", "h")),
        "negative": lambda: Negative(Field("a", table=t) + 1),
        "analytic": lambda: an.Sum(Field("a", table=t)).over(Field("b", table=t)).orderby(Field("c", table=t)).as_("an"),
        "parameter": lambda: Parameter("%s"),
    }
    return t, mk


# orders in which the ten classes render the shared objects; "str" = Term.__str__ / Interval.__str__ before any statement
SHARED_ORDERS = [
    ["str"] + CLS_NAMES,
    list(reversed(CLS_NAMES)),
    ["MySQLQuery", "PostgreSQLQuery", "OracleQuery", "Query", "SnowflakeQuery", "RedshiftQuery", "str", "VerticaQuery", "MSSQLQuery",
     "ClickHouseQuery", "SQLLiteQuery", "MySQLQuery", "PostgreSQLQuery"],
    ["PostgreSQLQuery", "MySQLQuery", "str", "OracleQuery", "RedshiftQuery", "SnowflakeQuery", "Query"],
]


def run_shared(order):
    from pypika import Table, Field
    t, mk = shared_objects()
    seq = SHARED_ORDERS[order]
    rows = []
    for kind, make in mk.items():
        obj = make()                                    # ONE object for the whole sequence
        tbl = Table("st", schema="sh")                  # ... and one table object
        first = None
        for step in seq:
            try:
                if step == "str":
                    str(obj)
                    continue
                Q = qclass(step)
                in_where = kind.startswith("interval") or kind in ("field", "function", "cast")

                def stmt(o, tb):
                    q = Q.from_(tb).select(o)
                    if in_where:        # also in WHERE, and inside a sub-query of another class
                        q = q.where(Field("w", table=tb) > o).where(Field("v", table=tb).isin(qclass("Query").from_(tb).select(o)))
                    return str(q)
                shared = stmt(obj, tbl)
                fresh = stmt(make(), Table("st", schema="sh"))
            except Exception as e:  # noqa
                shared, fresh = "!" + type(e).__name__, "!reference"
            rows.append([kind, step, first or step, shared, fresh])
            first = first or step
    return {"text": "", "meta": {}, "rows": rows}


# label -> (builder, the _*_sql methods it exercises, classes it applies to (None = all ten))
CLAUSES = {
    "select": (_cl_select, {"_select_sql", "_distinct_sql", "_from_sql", "_where_sql", "_group_sql", "_having_sql", "_orderby_sql",
                            "_limit_sql", "_offset_sql", "_for_update_sql"}, None),
    "prewhere": (_cl_prewhere, {"_prewhere_sql"}, None),
    "indexes": (_cl_indexes, {"_force_index_sql", "_use_index_sql"}, None),
    "totals-rollup": (_cl_totals_rollup, {"_group_sql", "_rollup_sql"}, None),
    "insert": (_cl_insert, {"_insert_sql", "_replace_sql", "_columns_sql", "_values_sql", "_into_sql"}, None),
    "update-delete": (_cl_update_delete, {"_update_sql", "_set_sql", "_delete_sql", "_from_sql", "_limit_sql"}, None),
    "temporal": (_cl_temporal, {"_temporal_sql"}, None),
    "window": (_cl_window, set(), None),
    "with-setop": (_cl_with_setop, {"_with_sql", "_orderby_sql"}, None),
    "mysql": (_cl_mysql, {"_on_duplicate_key_update_sql", "_on_duplicate_key_ignore_sql", "_for_update_sql", "_select_sql"}, ["MySQLQuery"]),
    "postgresql": (_cl_pg, {"_on_conflict_sql", "_on_conflict_action_sql", "_returning_sql", "_distinct_sql", "_for_update_sql", "_using_sql"},
                   ["PostgreSQLQuery"]),
    "mssql": (_cl_mssql, {"_top_sql", "_select_sql", "_limit_sql", "_offset_sql"}, ["MSSQLQuery"]),
    "clickhouse": (_cl_clickhouse, {"_limit_by_sql", "_from_sql", "_distinct_sql", "_update_sql", "_set_sql", "_delete_sql"}, ["ClickHouseQuery"]),
    "sqlite": (_cl_sqlite, {"_replace_sql"}, ["SQLLiteQuery"]),
    "vertica": (_cl_vertica, set(), ["VerticaQuery"]),
}
# renderers that belong to builders checked elsewhere (DDL: C17; LOAD / COPY: vendor cases mysql-load / vertica-copy)
# renderers a class inherits but cannot reach through its public builder methods (only PostgreSQLQueryBuilder has using())
CLAUSES_UNREACHABLE = {"_using_sql": ["PostgreSQLQuery"]}
CLAUSES_ELSEWHERE = {"_create_table_sql", "_table_options_sql", "_body_sql", "_as_select_sql", "_preserve_rows_sql",
                     "_load_file_sql", "_into_table_sql", "_options_sql", "_copy_table_sql", "_from_file_sql"}


def clause_inventory(cls_name):
    """every `_*_sql` method defined in pypika/queries.py and pypika/dialects.py on the builder of [cls_name] (its whole MRO),
    on Table and on _SetOperation, plus those of classes this check does not render; read off the imported source"""
    import inspect
    import pypika.queries as PQ
    import pypika.dialects as PD
    own, other = set(), set()
    b = qclass(cls_name)._builder()
    mro = set(type(b).__mro__) | {PQ.Table, PQ._SetOperation}
    for mod in (PQ, PD):
        for _, k in inspect.getmembers(mod, inspect.isclass):
            if k.__module__ != mod.__name__:
                continue
            names = {m for m in vars(k) if re.match(r"_\w+_sql$", m)}
            (own if k in mro else other).update(names)
    return own, other


def run_vendor(case):
    from pypika import Table, Field
    from pypika.terms import Array, Interval, Function, Values
    Q = qclass(case["cls"])
    v = case["vendor"]
    meta = {}

    def reg(name, role, kind="top", inner=None):
        meta[name] = (role, kind, inner or case["cls"], inner or case["cls"], inner or case["cls"])
        return name
    t = Table(reg("zt1", "ident"))
    if v == "shared-terms":
        return run_shared(case["order"])
    if v == "factory":
        return run_factory(case["cls"])
    if v == "json-literal":
        return run_json(case["cls"])
    if v == "ctor-kwargs":
        return run_ctor(case["cls"])
    if v == "clause-inventory":
        own, other = clause_inventory(case["cls"])
        covered = set()
        for label, (fn_, methods, only) in CLAUSES.items():
            if only is None or case["cls"] in only:
                covered |= methods
        all_known = set(CLAUSES_ELSEWHERE)
        for label, (fn_, methods, only) in CLAUSES.items():
            all_known |= methods
        unreachable = {m for m, only in CLAUSES_UNREACHABLE.items() if case["cls"] not in only}
        return {"text": "", "meta": {}, "uncovered": sorted(own - covered - CLAUSES_ELSEWHERE - unreachable),
                "unknown": sorted((own | other) - all_known)}
    if v.startswith("clause-"):
        qs = CLAUSES[v[len("clause-"):]][0](Q, t, reg)
        qs = qs if isinstance(qs, list) else [qs]
        texts = [str(q) for q in qs]
        if not any("zt1" in x for x in texts):
            del meta["zt1"]
        # the same SELECT statements as sub-queries of statements built by OTHER classes: every clause must take the
        # conventions from the context it is handed, not from its own builder
        nested = []
        outers = [o for o in ("MySQLQuery", "OracleQuery", "Query") if o != case["cls"]][:2]
        for o in outers:
            for q in qs:
                if getattr(q, "_selects", None) and not getattr(q, "_insert_table", None) and not getattr(q, "_update_table", None) \
                        and not getattr(q, "_delete_from", False):
                    try:
                        nested.append([o, str(qclass(o).from_(q.as_("zq99")).select("*"))])
                    except Exception as e:  # noqa
                        nested.append([o, "!" + type(e).__name__])
        return {"text": " ; ".join(texts), "meta": meta, "nested": nested}
    if v == "forms":
        u = Table(reg("zt2", "ident"))
        I = qclass(case["inner"])
        iv = Interval(days=1)
        sub = I.from_(u).select(iv, Array(Field(reg("zc3", "ident", "select-sub", case["inner"])), reg("zs4", "string", "select-sub", case["inner"])))
        q = Q.from_(t).select(iv, Function("F", iv, Array(1, 2)), Array(t.field(reg("zc5", "ident")), reg("zs6", "string")), sub) \
            .where(t.field(reg("zc7", "ident")) > Interval(weeks=1))
    elif v == "mysql-dup":
        q = Q.into(t).insert(1, reg("zs3", "string")).on_duplicate_key_update(t.field(reg("zc4", "ident")), reg("zs5", "string")) \
            .on_duplicate_key_update(reg("zc6", "ident"), Values(t.field(reg("zc7", "ident"))))
    elif v in ("mysql-for-update", "pg-for-update"):
        q = Q.from_(t).select(t.field(reg("zc3", "ident"))).for_update(of=(reg("zt4", "ident"),))
    elif v == "pg-conflict":
        q = Q.into(t).insert(1, reg("zs3", "string")).on_conflict(t.field(reg("zc4", "ident"))) \
            .do_update(t.field(reg("zc5", "ident")), reg("zs6", "string")).do_update(reg("zc9", "ident")) \
            .where(t.field(reg("zc10", "ident")) == reg("zs11", "string")) \
            .returning(t.field(reg("zc7", "ident")), reg("zc8", "ident"))
    elif v == "pg-distinct-on":
        q = Q.from_(t).select(t.field(reg("zc3", "ident")).as_(reg("za6", "alias"))).distinct_on(t.field(reg("zc4", "ident")), reg("zc5", "ident"))
    elif v == "mssql-top":
        q = Q.from_(t).select(t.field(reg("zc3", "ident")).as_(reg("za4", "alias"))).top(3)
    elif v == "clickhouse-extras":
        q = Q.from_(t).select(t.field(reg("zc3", "ident")).as_(reg("za6", "alias"))).final().sample(10) \
            .limit_by(2, t.field(reg("zc4", "ident")), reg("zc5", "ident"))
    elif v == "drop":
        texts = [str(Q.drop_table(t)), str(Q.drop_database(reg("zt3", "ident"))), str(Q.drop_user(reg("zt4", "ident"))),
                 str(Q.drop_view(reg("zt5", "ident"))), str(Q.drop_index(reg("zt6", "ident")))]
        return {"text": " ; ".join(texts), "meta": meta}
    elif v == "create-index":
        q = Q.create_index(reg("zt3", "ident")).on(t).columns(reg("zc4", "ident"), t.field(reg("zc5", "ident")))
    elif v == "clickhouse-functions":
        from pypika.clickhouse.array import HasAny
        from pypika.clickhouse.type_conversion import ToFixedString
        from pypika.clickhouse.search_string import Match
        q = Q.from_(t).select(ToFixedString(t.field(reg("zc3", "ident")), 10), HasAny(t.field(reg("zc4", "ident")), t.field(reg("zc5", "ident"))),
                              Match(t.field(reg("zc6", "ident")), reg("zs7", "string")))
    elif v == "mysql-load":
        del meta["zt1"]
        q = Q.load("f.csv").into(Table(reg("zt3", "ident"), schema=reg("zh4", "ident")))
    elif v == "vertica-copy":
        del meta["zt1"]
        q = Q.from_file("f.csv").copy_(Table(reg("zt3", "ident"), schema=reg("zh4", "ident")))
    elif v == "sqlite-bool":
        q = Q.from_(t).select(True, t.field(reg("zc3", "ident")) == False).where(t.field(reg("zc4", "ident")) == True)   # noqa: E712
        q2 = Q.into(t).insert(True, False)
        q3 = Q.update(t).set(reg("zc5", "ident"), True)
        return {"text": str(q), "extra": [str(q2), str(q3)], "meta": meta}
    else:
        raise ValueError(v)
    return {"text": str(q), "meta": meta}


def vendor_oracle(case, outcome):
    cls, v = case["cls"], case["vendor"]
    if v == "json-literal":
        return json_oracle(cls, outcome)
    if v == "ctor-kwargs":
        return ctor_oracle(cls, outcome)
    if v == "factory":
        out = []
        for route, label, got, ref in outcome.get("rows", []):
            if got != ref:
                out.append({"signature": ["C07", cls, cls, "vendor:factory", route + "/" + label],
                            "what": "a statement started from a table made by %s of %s renders %r, the same statement started from %s.from_()/update()/into() "
                                    "renders %r" % (route, cls, got, cls, ref)})
        return out
    if v == "shared-terms":
        out, seen = [], set()
        for kind, step, first, shared, fresh in outcome.get("rows", []):
            if shared != fresh and (kind, step) not in seen:
                seen.add((kind, step))
                out.append({"signature": ["C07", step, first, "vendor:shared-terms", kind],
                            "what": "a %s object that was rendered before (first under %s) renders under %s as %r, a fresh one as %r: "
                                    "the rendering leaks state from an earlier dialect context" % (kind, first, step, shared, fresh)})
        return out
    if v == "clause-inventory":
        out = []
        for m in outcome.get("unknown", []):
            out.append({"signature": ["C07", cls, cls, "vendor:clause-inventory", "unknown-renderer:" + m],
                        "what": "pypika has a clause renderer %s that no C07 clause case exercises (add it to CLAUSES in harness/props/C07.py)" % m})
        for m in outcome.get("uncovered", []):
            out.append({"signature": ["C07", cls, cls, "vendor:clause-inventory", "uncovered-renderer:" + m],
                        "what": "the builder of %s has the clause renderer %s but no clause case of that class exercises it" % (cls, m)})
        return out
    text = outcome["text"]
    meta = {k: tuple(x) for k, x in outcome["meta"].items()}
    out = sentinel_report(text, meta, class_conv(cls), cls)
    for x in out:
        if x["signature"][4] not in POSITION_FREE:      # the documented class-wide residue keeps its own signature
            x["signature"] = ["C07", cls, case.get("inner", cls), "vendor:" + v, x["signature"][4]]
    for o, txt in outcome.get("nested", []):
        if txt.startswith("!"):
            out.append({"signature": ["C07", o, cls, "vendor:" + v + "-nested", "exception"], "what": "nested rendering raised " + txt})
            continue
        for x in sentinel_report(txt, {k: m for k, m in meta.items() if k in txt}, class_conv(o), o):
            if x["signature"][4] not in POSITION_FREE:
                x["signature"] = ["C07", o, cls, "vendor:" + v + "-nested", x["signature"][4]]
            out.append(x)
    seen_names = {val for kind, val, _ in lex(" ; ".join([text] + list(outcome.get("extra", [])))) if kind in ("q", "word")}
    for name in meta:
        if name not in seen_names:
            out.append({"signature": ["C07", cls, cls, "vendor:" + v, "not-a-separate-identifier"],
                        "what": "%s does not occur as an identifier / literal of its own (quoted together with its qualifier?): %s" % (name, text)})
    if v == "forms":
        inner = case["inner"]
        forms = set(re.findall(r"INTERVAL '(\d+)( [A-Z]+)?'( [A-Z]+)?", text))
        want = INTERVAL_FORM.get(cls, "unit-quoted")
        for num, inside, outside in forms:
            got = "expr-quoted" if outside and not inside else "unit-quoted"
            if got != want:
                out.append({"signature": ["C07", cls, inner, "vendor:forms", "interval-form"],
                            "what": "INTERVAL rendered %s under %s (documented form: %s): %s" % (got, cls, want, text)})
        n_int = len(re.findall(r"INTERVAL '", text))
        if n_int != 4:
            out.append({"signature": ["C07", cls, inner, "vendor:forms", "interval-count"], "what": "expected 4 INTERVAL literals: " + text})
        want_a = ARRAY_FORM.get(cls, "[")
        got_arr = re.findall(r"(ARRAY)?\[", text)
        for g in got_arr:
            form = "ARRAY[" if g else "["
            if form != want_a:
                out.append({"signature": ["C07", cls, inner, "vendor:forms", "array-form"],
                            "what": "array literal written %s under %s (documented: %s): %s" % (form, cls, want_a, text)})
        if len(got_arr) != 3:
            out.append({"signature": ["C07", cls, inner, "vendor:forms", "array-count"], "what": "expected 3 array literals: " + text})
    if v == "sqlite-bool":
        texts = [text] + outcome.get("extra", [])
        labels = ["select+where", "insert", "update-set"]
        forms = {}
        for lab, tx in zip(labels, texts):
            for kind, val, _ in lex(tx):
                if kind == "word" and val.lower() in ("true", "false"):
                    forms.setdefault("word", []).append(lab)
                if kind == "num" and val in ("0", "1") and lab != "insert":
                    pass
        # the select list / SET value use the SQLite wrapper (1 / 0); comparisons and INSERT VALUES the generic words
        if "word" in forms:
            for lab in sorted(set(forms["word"])):
                out.append({"signature": ["C07", cls, cls, "vendor:sqlite-bool", "boolean-form:" + lab],
                            "what": "SQLLiteQuery writes booleans as 1/0 in the select list but as true/false in %s: %s" % (lab, " ; ".join(texts))})
    return out


# ----------------------------------------------------------------------------------------------
# implementation
# ----------------------------------------------------------------------------------------------
def run_impl(case):
    if "vendor" in case:
        try:
            return run_vendor(case)
        except Exception as e:  # noqa
            return {"text": "!" + type(e).__name__, "meta": {}}
    spec = relabel_spec(case["spec"], case.get("relabel"))
    kw = case.get("kw")
    out = {}
    if has_ckw(spec):
        # the same statement started WITHOUT construction-time kwargs is built and rendered first: what one statement was
        # started with must not leak into (or be pinned for) the next one
        out["plain_text"] = render(strip_ckw(spec), kw)
    out["text"] = render(spec, kw)
    if kw is None:
        out["rerender"] = rerender(spec)
    # oracle observations (independent of the model): the same specification with sentinel names
    try:
        sspec, meta = sentinelize(spec)
        out["meta"] = {k: list(v) for k, v in meta.items()}
        out["sent_text"] = render(sspec, kw)
        if kw is None:
            per = {}
            for c in CLS_NAMES:
                per[c] = render(relabel_spec(sspec, c))
            out["per_class"] = per
            cspec, _ = sentinelize(spec, coincide=True)
            out["per_class_coincident"] = {c: render(relabel_spec(cspec, c)) for c in CLS_NAMES}
    except Exception as e:  # noqa
        out["sent_error"] = "%s: %s" % (type(e).__name__, e)
    return out


def to_coq(case, outcome):
    if "vendor" in case or "text" not in outcome:
        return None
    rl = case.get("relabel")
    kw = case.get("kw")
    if kw is None and outer_ckw(relabel_spec(case["spec"], rl)).get("as_keyword"):
        # a statement started with as_keyword=True is str()-rendered under its class's conventions with the AS keyword on: in
        # the model that is the explicit-kwargs context (class literal / alias quotes, as_keyword=True), taken from the REQUEST
        cc = class_conv(top_cls_name(relabel_spec(case["spec"], rl)))
        kw = {"rest": [cc["sq"], cc["aq"], True]}
    return P(O(None if rl is None else CTOR[rl]), O(None if kw is None else kw_coq(kw)), qf.coq_query(case["spec"]),
             S(outcome["text"]))


def oracle(case, outcome):
    if "vendor" in case:
        if outcome.get("text", "!").startswith("!"):
            return [{"signature": ["C07", case["cls"], case["cls"], "vendor:" + case["vendor"], "exception"],
                     "what": "vendor statement does not render: %s" % outcome.get("text")}]
        return vendor_oracle(case, outcome)
    if "sent_error" in outcome:
        raise RuntimeError(outcome["sent_error"])
    if "sent_text" not in outcome or outcome["sent_text"].startswith("!"):
        return []
    meta = {k: tuple(v) for k, v in outcome["meta"].items()}
    spec = relabel_spec(case["spec"], case.get("relabel"))
    rr = outcome.get("rerender")
    pre = []
    if rr and (rr[0] != rr[1] or rr[0] != outcome["text"]):
        pre.append({"signature": ["C07", top_cls_name(spec), "-", "re-render", "text-changed"],
                    "what": "the same statement object renders differently after it was rendered under other conventions: %r then %r (fresh: %r)"
                            % (rr[0][:300], rr[1][:300], outcome["text"][:300])})
    outer = top_cls_name(spec)
    kw = case.get("kw")
    out = list(pre)
    asked_as = bool(outer_ckw(spec).get("as_keyword"))      # the outermost builder was started with as_keyword=True

    def conv_of(c):
        """the conventions of class c, with the AS keyword on when the outermost builder - were it of class c - is started
        with as_keyword=True (the request, not what the object says)"""
        cv = class_conv(c)
        cv["as"] = cv["as"] or bool(outer_ckw(relabel_spec(spec, c)).get("as_keyword"))
        return cv
    if "plain_text" in outcome and not outcome["plain_text"].startswith("!") and not outcome["text"].startswith("!"):
        # construction-time kwargs change nothing but the AS keyword (the dialects offered have no effect on these statements)
        def no_as(text):
            return [(k_, v_, q_) for k_, v_, q_ in lex(text) if not (k_ == "word" and v_.upper() == "AS")]
        d = first_diff(no_as(outcome["text"]), no_as(outcome["plain_text"]))
        if d is not None:
            out.append({"signature": ["C07", outer, "-", "construction-kwargs", "tokens"],
                        "what": "started with construction-time kwargs the statement differs from the plain one in more than AS, at token "
                                "%d: %r vs %r; %s  ||  %s" % (d[0], d[1], d[2], outcome["text"][:300], outcome["plain_text"][:300])})
        n_as = sum(1 for k_, v_, _ in lex(outcome["text"]) if k_ == "word" and v_.upper() == "AS")
        n_as0 = sum(1 for k_, v_, _ in lex(outcome["plain_text"]) if k_ == "word" and v_.upper() == "AS")
        if not asked_as and n_as != n_as0:
            out.append({"signature": ["C07", outer, "-", "construction-kwargs", "as-keyword"],
                        "what": "the outermost statement was not started with as_keyword=True, yet the AS keywords differ from the plain "
                                "statement's: %s  ||  %s" % (outcome["text"][:300], outcome["plain_text"][:300])})
    if kw is None:
        out += sentinel_report(outcome["sent_text"], meta, conv_of(outer), outer)
    else:
        conv = kw_conv(outer, kw)
        rep = sentinel_report(outcome["sent_text"], meta, conv, "explicit-kwargs", check_qalias=False, collapse=True)
        if "rest" not in kw:
            # only quote_char was given: identifiers must follow it (aliases / literals keep each class's own defaults)
            rep = [v for v in rep if v["signature"][4] == "ident"]
        out += rep
    # the same specification built by each class: quoting per class, and devendored token sequences against the generic class
    per = outcome.get("per_class") or {}
    ref = per.get("Query")
    kind = spec["k"]
    for c, txt in per.items():
        if txt.startswith("!"):
            continue
        cmeta = {k: (r, pk, c, c, c) for k, (r, pk, _, _, _) in meta.items()}
        out += sentinel_report(txt, cmeta, conv_of(c), c)
        if ref is not None and not ref.startswith("!") and c != "Query":
            d = first_diff(devendor(txt, kind), devendor(ref, kind))
            if d is not None:
                out.append({"signature": ["C07", c, "Query", "tokens", "sequence"],
                            "what": "devendored token sequences differ at position %d: %s writes %r, Query writes %r; %s  ||  %s" % (
                                d[0], c, d[1], d[2], txt[:300], ref[:300])})
    # ... and once more with every column / table alias equal to the name of what it aliases (an alias must be emitted whether or
    # not it coincides with the rendered text of its expression)
    pco = outcome.get("per_class_coincident") or {}
    refc = pco.get("Query")
    for c, txt in pco.items():
        if c == "Query" or txt.startswith("!") or refc is None or refc.startswith("!"):
            continue
        d = first_diff(devendor(txt, kind), devendor(refc, kind))
        if d is not None:
            out.append({"signature": ["C07", c, "Query", "tokens", "sequence-coincident-alias"],
                        "what": "with aliases equal to the aliased names the devendored token sequences differ at position %d: %s writes %r, "
                                "Query writes %r; %s  ||  %s" % (d[0], c, d[1], d[2], txt[:300], refc[:300])})
    # the labelled (mixed-class) rendering against the uniform rendering by its outer class
    if kw is None and outer in per and not per[outer].startswith("!"):
        d = first_diff(devendor(outcome["sent_text"], kind), devendor(per[outer], kind))
        if d is not None:
            out.append({"signature": ["C07", outer, "mixed", "tokens", "sequence"],
                        "what": "devendored tokens of the mixed-class statement differ from the single-class one at %d: %r vs %r; %s  ||  %s" % (
                            d[0], d[1], d[2], outcome["sent_text"][:300], per[outer][:300])})
    # de-duplicate by signature
    seen, uniq = set(), []
    for v in out:
        k = json.dumps(v["signature"])
        if k not in seen:
            seen.add(k)
            uniq.append(v)
    return uniq


def _classes(spec, acc=None, depth=0):
    acc = acc if acc is not None else set()
    if isinstance(spec, dict):
        if "cls" in spec:
            acc.add(spec["cls"])
        for v in spec.values():
            _classes(v, acc)
    elif isinstance(spec, list):
        for v in spec:
            _classes(v, acc)
    return acc


def _has_func_content(x):
    if isinstance(x, list):
        if len(x) >= 3 and x[0] == "func" and isinstance(x[2], list):
            s = json.dumps(x[2])
            if '"sub"' in s or '"vals"' in s or '"k": "sel"' in s:
                return True
        return any(_has_func_content(v) for v in x)
    if isinstance(x, dict):
        return any(_has_func_content(v) for v in x.values())
    return False


def nontrivial_key(case):
    if "vendor" in case:
        return json.dumps(case, sort_keys=True)
    spec = relabel_spec(case["spec"], case.get("relabel"))
    if len(_classes(spec)) > 1 or _has_func_content(spec) or case.get("kw") or has_ckw(spec):
        return json.dumps([spec, case.get("kw")], sort_keys=True)
    return None


def histogram(cases):
    h = {}
    for c in cases:
        if "vendor" in c:
            h["vendor:" + c["vendor"]] = h.get("vendor:" + c["vendor"], 0) + 1
            continue
        qf.shape(c["spec"], h)
        key = "relabel" if c.get("relabel") else ("kwargs" if c.get("kw") else "as-labelled")
        h[key] = h.get(key, 0) + 1
        if len(_classes(c["spec"])) > 1 and not c.get("relabel"):
            h["cross-class"] = h.get("cross-class", 0) + 1
        if _has_func_content(c["spec"]):
            h["function-arg-content"] = h.get("function-arg-content", 0) + 1
        if has_ckw(c["spec"]):
            h["construction-kwargs"] = h.get("construction-kwargs", 0) + 1
            for key in ("as_keyword", "dialect"):
                if outer_ckw(relabel_spec(c["spec"], c.get("relabel"))).get(key):
                    h["construction-kwargs:outer-" + key] = h.get("construction-kwargs:outer-" + key, 0) + 1
    return h


def targeted_search(rng, broken, mism_cases):
    """small statements of every class x every nesting position x every inner class (a forwarding slip in one get_sql shows
    on the shortest statement that uses that clause), plus the sub-statements of disagreeing cases"""
    out = []
    for o in CLS_NAMES:
        for i_ in CLS_NAMES:
            inner = _sel(i_, "u", [["t", _F("b", "bb")]], where=["t", ["basic", "eq", _F("c"), ["vals", "s", None], None]])
            f0 = ["field", "a", ["#0", [], None], None]
            f1 = ["field", "b", ["#1", [], None], None]
            base = {"k": "sel", "cls": o, "from": [["t", _T("t", "ta")]], "joins": [], "selects": [["t", ["field", "a", ["#0", [], None], "al"]]]}
            out.append({"spec": dict(base, **{"from": [["t", _T("t")], ["q", dict(inner, alias="s")]]}), "relabel": None, "kw": None})
            out.append({"spec": dict(base, joins=[["left", ["q", dict(inner, alias="s")], ["on", ["t", ["basic", "eq", f0, f1, None]]]]]),
                        "relabel": None, "kw": None})
            out.append({"spec": dict(base, joins=[["inner", ["t", _T("u", "ua")], ["on", ["t", ["basic", "eq", f0, f1, None]]]]],
                                     having=["t", ["basic", "gt", f0, ["vals", "h", None], None]],
                                     groupby=[["t", f0]], orderby=[[["t", f1], "asc"]]), "relabel": None, "kw": None})
            out.append({"spec": dict(base, where=["in", f0, inner, False]), "relabel": None, "kw": None})
            out.append({"spec": dict(base, where=["exists", inner, False]), "relabel": None, "kw": None})
            out.append({"spec": dict(base, where=["cmp", "eq", f0, inner]), "relabel": None, "kw": None})
            out.append({"spec": dict(base, selects=[["sub", inner], ["func", "F", [["sub", inner]], "fa"]]), "relabel": None, "kw": None})
            out.append({"spec": dict(base, **{"with": [["cte", inner]], "from": [["a", "cte"]], "selects": [["t", ["star", None]]]}),
                        "relabel": None, "kw": None})
            out.append({"spec": {"k": "set", "base": _sel(o, "t", [["t", _F("a", "x")]]), "ops": [["union", inner]]}, "relabel": None, "kw": None})
            out.append({"spec": {"k": "upd", "cls": o, "table": _T("t"), "sets": [["a", ["t", ["vals", "v", None]]]],
                                 "where": ["in", _F("a"), inner, False]}, "relabel": None, "kw": None})
    for c in mism_cases:
        if "spec" in c:
            out.append({"spec": c["spec"], "relabel": None, "kw": None})
    g = DGen(rng, p_alias=0.5, p_subq=0.5, max_depth=2, hostile=0.0, inner_same_cls=0.2)
    for _ in range(300):
        out.append({"spec": g.any(), "relabel": None, "kw": None})
    return out


# ----------------------------------------------------------------------------------------------
# the known findings, computed from the class constants by the exact characterisation proved in coq/props/C07.v
# (python -m harness.props.C07 --write-findings  regenerates findings.d/C07.json)
# ----------------------------------------------------------------------------------------------
def predicted_findings():
    conv = {c: class_conv(c) for c in CLS_NAMES}

    def aq_of(o, supplier_aq):
        return (supplier_aq or conv[o]["q"]) or None
    F = []

    def add(sig, what, witness):
        F.append({"signature": sig, "what": what, "witness": witness})
    w_fn = "SnowflakeQuery.from_(t).select(Coalesce(Query.from_(u).select(u.b.as_('bb')), 1)) -> SELECT COALESCE((SELECT b bb FROM u),1) FROM t (selected directly: b \"bb\")"
    w_as = "Query.from_(t).select(Coalesce(ClickHouseQuery.from_(u).select(u.b.as_('bb')), 1)) -> SELECT COALESCE((SELECT \"b\" AS \"bb\" FROM \"u\"),1) FROM \"t\""
    w_qa = "MySQLQuery.from_(PostgreSQLQuery.from_(u).select('b').as_('s')).select('*') -> SELECT * FROM (SELECT `b` FROM `u`) \"s\""
    w_set = "MySQLQuery.from_(t).select(t.a.as_('x')).union(PostgreSQLQuery.from_(u).select(u.b.as_('y'))) -> (SELECT `a` `x` FROM `t`) UNION (SELECT `b` \"y\" FROM `u`)"
    for o in CLS_NAMES:
        for i in CLS_NAMES:
            for kind, wit in (("funcarg", w_fn), ("setop-top", w_set)):
                where = "inside a function argument" if kind == "funcarg" else "that is an operand of a top-level set operation"
                if aq_of(o, conv[i]["aq"]) != aq_of(o, conv[o]["aq"]):
                    add(["C07", o, i, kind, "alias"],
                        "an alias in a %s (sub-)query %s of a %s statement is quoted by the inner class's ALIAS_QUOTE_CHAR "
                        "(alias_quote_char is not forwarded there), not by the outer convention" % (i, where, o), wit)
                if conv[i]["as"] != conv[o]["as"]:
                    add(["C07", o, i, kind, "as-keyword"],
                        "an alias in a %s (sub-)query %s of a %s statement follows the inner class's as_keyword" % (i, where, o),
                        w_as if kind == "funcarg" else w_set)
            qa_i = (conv[i]["qa"] or conv[o]["q"]) or None
            qa_o = (conv[o]["qa"] or conv[o]["q"]) or None
            if qa_i != qa_o:
                for kind in ("from", "join", "select-sub", "funcarg", "setop-top", "groupby"):
                    add(["C07", o, i, kind, "query-alias"],
                        "the alias of a %s sub-query (%s position) inside a %s statement is quoted with the SUB-query class's "
                        "ALIAS_QUOTE_CHAR / QUERY_ALIAS_QUOTE_CHAR (QueryBuilder.get_sql overwrites alias_quote_char with its own constants)"
                        % (i, kind, o), w_qa)
    for o in CLS_NAMES:
        for i in CLS_NAMES:
            if conv[o]["gba"] is False and conv[i]["gba"]:
                for kind, where in (("funcarg", "inside a function argument"), ("setop-top", "that is an operand of a top-level set operation"),
                                    ("groupby", "inside a GROUP BY item (_group_sql consumes groupby_alias as a named parameter)")):
                    add(["C07", o, i, kind, "groupby-alias"],
                        "a %s (sub-)query %s of a %s statement groups by a selected alias: groupby_alias=False of the outer class is not "
                        "forwarded there" % (i, where, o),
                        "OracleQuery.from_(t).select(Coalesce(Query.from_(u).select(u.b.as_('bb')).groupby(u.b.as_('bb')), 1)) -> "
                        "SELECT COALESCE((SELECT b bb FROM u GROUP BY bb),1) FROM t")
    for o in CLS_NAMES + ["explicit-kwargs"]:
        c = conv.get(o)
        if c is None or c["q"]:
            add(["C07", o, "-", "any", "cte-name"],
                "WITH-clause names (and FROM references to them) are rendered bare by every class while columns qualified by them are quoted",
                "MySQLQuery.with_(MySQLQuery.from_(u).select('b'),'cte').from_(AliasedQuery('cte')).select('*') -> WITH cte AS (SELECT `b` FROM `u`) SELECT * FROM cte")
        add(["C07", o, "-", "any", "criterion-alias"],
            "the alias of a comparison (BasicCriterion) is quoted by alias_quote_char only: quote_char is a named parameter of "
            "BasicCriterion.get_sql and never reaches format_alias_sql",
            "Query.from_(t).select((t.a == t.b).as_('crit')) -> SELECT \"a\"=\"b\" crit FROM \"t\"")
        if c is None or (c["aq"] and c["aq"] != c["q"]):
            add(["C07", o, "-", "any", "alias-qualifier"],
                "a table alias is introduced with alias_quote_char but used as a column qualifier with quote_char",
                "SnowflakeQuery.from_(Table('t').as_('ta')).select(ta.a) -> SELECT ta.a FROM t \"ta\"")
            if c is not None:      # with explicit kwargs the query-alias roles are not judged
              add(["C07", o, "-", "any", "setop-alias"],
                  "the alias of a set operation used as a source is quoted by alias_quote_char (a _SetOperation has no QUERY_ALIAS_QUOTE_CHAR) "
                  "while references to it are written with quote_char",
                  "SnowflakeQuery.from_(q1.union(q2).as_('su')).select(...) -> ... FROM ((SELECT ..) UNION (SELECT ..)) \"su\" with columns su.x")
            add(["C07", o, "-", "funcarg-term", "alias"],
                "an aliased literal / term inside a function call gets quote_char instead of alias_quote_char (Function.get_sql re-packs only "
                "quote_char / dialect / with_namespace)",
                "SnowflakeQuery.from_(t).select(Coalesce(ValueWrapper('x').as_('y'),1), ValueWrapper('x').as_('y')) -> SELECT COALESCE('x' y,1),'x' \"y\" FROM t")
        if c is None or c["as"]:
            add(["C07", o, "-", "funcarg-term", "as-keyword"],
                "an aliased literal / term inside a function call is written without AS although the statement's convention uses AS",
                "ClickHouseQuery.from_(t).select(Coalesce(ValueWrapper('x').as_('y'),1)) -> SELECT COALESCE('x' \"y\",1) FROM \"t\"")
    for o in ("SnowflakeQuery", "OracleQuery", "MySQLQuery", "explicit-kwargs"):
        add(["C07", o, "-", "any", "alias-reference"],
            "a GROUP BY / ORDER BY reference to a selected alias is quoted differently from the alias itself: _SetOperation._orderby_sql uses "
            "quote_char only; below a function call the reference follows the inner class",
            "SnowflakeQuery: (SELECT a \"x\" FROM t) UNION (SELECT b \"x\" FROM u) ORDER BY x")
    for kind in ("funcarg", "funcarg-term"):
        for role in ("alias", "as-keyword", "string"):
            if not (kind == "funcarg-term" and role in ("alias", "as-keyword")):
                add(["C07", "explicit-kwargs", "-", kind, role],
                    "explicit secondary_quote_char / alias_quote_char / as_keyword are lost below a function call (Function.get_sql forwards "
                    "only quote_char, dialect, with_namespace)",
                    "Query.from_(t).select(Coalesce(t.a,'x'),'y').get_sql(quote_char='`', secondary_quote_char='\"') -> SELECT COALESCE(`a`,'x'),\"y\" FROM `t`")
    for o in CLS_NAMES:
        if conv[o]["q"] != '"':
            add(["C07", o, o, "vendor:drop", "ident"],
                "%s.drop_database / drop_user / drop_view / drop_index use the generic DropQueryBuilder (double quote) while drop_table uses the "
                "dialect's builder" % o, "MySQLQuery.drop_database('d') -> DROP DATABASE \"d\" ; MySQLQuery.drop_table('t') -> DROP TABLE `t`")
            add(["C07", o, o, "vendor:clickhouse-functions", "ident"],
                "ClickHouse helper functions (toFixedString, hasAny, match/toString ...) hard-code the double quote for their field arguments",
                "MySQLQuery.from_(t).select(ToFixedString(t.a, 10)) -> SELECT toFixedString(\"a\",10) FROM `t`")
        add(["C07", o, o, "vendor:create-index", "ident"],
            "CreateIndexBuilder renders the index name and the columns bare and the table through str(table) (always the double quote), "
            "whatever the query class", "MySQLQuery.create_index('ix').on(t).columns('a') -> CREATE INDEX ix ON \"t\"(a)")
    add(["C07", "MySQLQuery", "MySQLQuery", "vendor:mysql-load", "not-a-separate-identifier"],
        "MySQLLoadQueryBuilder wraps the whole (schema-qualified, unquoted) table text in hard-coded backticks",
        "MySQLQuery.load('f.csv').into(Table('t', schema='s')) -> ... INTO TABLE `s.t` ...")
    add(["C07", "VerticaQuery", "VerticaQuery", "vendor:vertica-copy", "not-a-separate-identifier"],
        "VerticaCopyQueryBuilder wraps the whole (schema-qualified, unquoted) table text in hard-coded double quotes",
        "VerticaQuery.from_file('f.csv').copy_(Table('t', schema='s')) -> COPY \"s.t\" FROM LOCAL 'f.csv' ...")
    for lab in ("insert", "select+where"):
        add(["C07", "SQLLiteQuery", "SQLLiteQuery", "vendor:sqlite-bool", "boolean-form:" + lab],
            "SQLLiteQuery writes Python booleans as 1/0 in the select list and in UPDATE SET (builder wraps with SQLLiteValueWrapper) but as "
            "true/false in comparisons (Term.wrap_constant default wrapper) and in INSERT VALUES (_apply_terms wraps without the class wrapper)",
            "SQLLiteQuery.from_(t).select(True).where(t.a == True) -> SELECT 1 FROM \"t\" WHERE \"a\"=true ; SQLLiteQuery.into(t).insert(True) -> INSERT INTO \"t\" VALUES (true)")
    seen, out = set(), []
    for f in F:
        k = json.dumps(f["signature"])
        if k in seen:
            continue
        seen.add(k)
        out.append(dict(id="C07-%03d" % (len(out) + 1), property="C07", status="open", **f))
    return out


FIX_LINES = {
    "1270518": "a function call hands the statement's alias and literal conventions (secondary_quote_char, alias_quote_char, "
               "as_keyword, groupby_alias) on to its arguments",
    "07d9040": "the alias of a sub-query (and of a set operation used as a source) follows the outermost query class",
    "1518abd": "a set operation takes all rendering defaults from its base query, so every operand uses one convention",
    "76524c2": "ORDER BY of a set operation quotes a reference to a selected alias like the alias itself",
    "3ab11e6": "GROUP BY hands groupby_alias on to its items",
    "d20983c": "Oracle and MSSQL switch groupby_alias off in _set_kwargs_defaults, so the operands of a set operation inherit it",
    "97eddd6": "the alias of a comparison is quoted like every other alias",
    "29316c4": "MySQL LOAD DATA and Vertica COPY quote each part of a schema-qualified table name",
    "e7a5678": "INSERT values are wrapped with the query class's value wrapper (SQLite booleans)",
    "147dede": "the ClickHouse helper functions render a column argument with the statement's quote_char (classes with an "
               "empty quote_char still get the hard-coded double quote: those signatures stay open)",
    "f8ac2a6": "CREATE INDEX quotes an index or table name given as str",
}


def fixing_commit(sig):
    """the pypika commit that repaired the deviation behind a (formerly open) signature; None = still open"""
    _, o, i, kind, role = sig
    if role in ("cte-name", "alias-qualifier"):
        return None
    if kind.startswith("vendor:"):
        v = kind[7:]
        if v in ("mysql-load", "vertica-copy"):
            return "29316c4"
        if role == "boolean-form:insert":
            return "e7a5678"
        if v == "clickhouse-functions":      # `quote_char or '"'`: classes with an empty quote_char still get the double quote
            return "147dede" if o == "MySQLQuery" else None
        return None
    if role in ("query-alias", "setop-alias"):
        return "07d9040"
    if role == "criterion-alias":
        return "97eddd6"
    if role == "groupby-alias":
        return {"funcarg": "1270518", "setop-top": "d20983c", "groupby": "3ab11e6"}[kind]
    if role == "alias-reference":
        return "76524c2" if o == "SnowflakeQuery" else "1270518"
    if kind in ("funcarg", "funcarg-term"):
        return "1270518"
    if kind == "setop-top":
        return "1518abd"
    return None


def corpus_signatures(cases):
    obs = {}
    for c in cases:
        o = run_impl(c)
        for v in oracle(c, o):
            obs.setdefault(json.dumps(v["signature"]), []).append(c.get("name") or ("vendor:%s:%s" % (c.get("vendor"), c.get("cls"))))
    return obs


if __name__ == "__main__":
    import sys
    if "--write-findings" in sys.argv:
        import os
        here = os.path.abspath(__file__)
        allp = {json.dumps(f["signature"]): f for f in predicted_findings()}
        predicted = {k: f for k, f in allp.items() if fixing_commit(f["signature"]) is None}
        # 1. what the fixed part of the corpus (named witnesses, regression pins, vendor cases) already reproduces
        WITNESS_KEYS[:] = []
        have = corpus_signatures(corpus())
        # 2. greedy cover of the remaining open signatures by members of the pool
        pool = witness_pool()
        want = set(predicted) - set(have)
        keys = []
        if want:
            per = {k: set(corpus_signatures([c])) for k, c in pool.items()}
            while True:
                best = max(sorted(per), key=lambda k: len(per[k] & want))
                if not per[best] & want:
                    break
                keys.append(best)
                want -= per[best]
        WITNESS_KEYS[:] = keys
        obs = corpus_signatures(corpus())
        unexpected = sorted(set(obs) - set(predicted))
        out = []
        for k, f in predicted.items():
            if k in obs:
                out.append(dict(f, id="C07-%03d" % (len(out) + 1), corpus_witness=obs[k][0]))
        n_open = len(out)
        # 3. repaired deviations: one entry per pypika commit
        by_commit = {}
        for k, f in allp.items():
            c = fixing_commit(f["signature"])
            if c is not None:
                by_commit.setdefault(c, []).append(f)
        for c in sorted(by_commit):
            fs = by_commit[c]
            if any(json.dumps(f["signature"]) in obs for f in fs):
                print("  NOT REPAIRED after all:", c, [f["signature"] for f in fs if json.dumps(f["signature"]) in obs][:3])
                continue
            kinds = sorted({"%s/%s" % (f["signature"][3], f["signature"][4]) for f in fs})
            out.append({"id": "C07-fixed-" + c, "property": "C07", "status": "fixed", "commit": c,
                        "what": "%s (was: %s); %d signatures (%s) removed; their witnesses stay in the corpus as regression pins"
                                % (FIX_LINES[c], fs[0]["what"], len(fs), ", ".join(kinds)),
                        "line": "fixed: property=C07 %s %s" % (c, FIX_LINES[c])})
        path = os.path.join(os.path.dirname(os.path.dirname(os.path.dirname(here))), "findings.d", "C07.json")
        with open(path, "w") as f:
            json.dump(out, f, indent=1)
        src = open(here).read()
        a = src.index("\nWITNESS_KEYS = [") + 1
        b = src.index("]\n", a) + 2
        body = "WITNESS_KEYS = [\n" + "".join("    %r,\n" % k for k in keys) + "]\n"
        open(here, "w").write(src[:a] + body + src[b:])
        print("wrote", path, n_open, "open findings,", len(out) - n_open, "fixed entries;", len(keys), "pool witnesses; open-predicted but not reproduced (dropped):",
              len(predicted) - n_open)
        for k in sorted(set(predicted) - set(obs)):
            print("  dropped", k)
        for k in unexpected:
            print("  UNEXPECTED (not an open prediction)", k, obs[k][:2])
