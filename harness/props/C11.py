"""C11 — set operations compose operands in order with the documented arity check (model: coq/SetOp.v).

A case is a chain-building program  base.<m>(o1).<step>...  plus the way the finished chain is used
(str / get_sql(**kw) / FROM item / IN container / JOIN item).  Operands are opaque queries: the model gets each
operand's own renderings from the implementation (under every kwargs variant that could be meant) and has to
pick the right one, put them in the right order with the right keywords, wrapping, arity check and trailing clauses.
"""
import glob
import json
import os
import re
import sqlite3
from enum import Enum

from harness.lib import S, OS, L, P, B, O, Zc, VERIF

ID = "C11"
COQ_PROP = "props/C11.v"
CORR_REQUIRE = ["SetOp", "SetOpCorr"]
CORR_CHECK = "check_case"
CORR_SHOW = "show_case"
SHARD = 60
RULE = ("random chain-building programs: base of one of the 10 query classes (optionally with an explicit "
        "wrap_set_operation_queries), 1-6 (thorough: 1-12) operand-adding calls drawn from the 5 methods and the 3 "
        "operators, operands of the same or another class, equal or unequal arity (mismatch first/middle/last), "
        "operands that are themselves chains / Vertica-hinted / not queries at all, chain-level orderby/limit/offset/"
        "as_ steps interleaved, chain used via str, get_sql(kwargs), FROM, IN, JOIN; an SQLite stream executes the "
        "chain.  Non-trivial: at least two operand calls with two different operators, or an arity mismatch, or a "
        "container use, or a trailing clause; distinct by the JSON of the case")
TRUSTED = [
    "harness/props/C11.py builds the same program on pypika objects and as a Gallina value (correspondence harness)",
    "operands are opaque: each operand's own get_sql texts (subquery False/True, per kwargs variant) are recorded from "
    "the implementation and handed to the model as a lookup table; the model must select variant, order, keywords, "
    "wrapping flag, arity check, trailing clauses, parentheses and alias itself",
    "sqlite3 3.40.1 as the engine of the SQLite clause; Python set/list algebra as its reference",
]
ASSUMPTIONS = [
    "operand rendering is a total function of (kwargs, subquery flag); operands whose own get_sql raises are out of scope",
    "ORDER BY fields of the chain are opaque terms (alias + own text); kwargs keys other than dialect, quote_char, "
    "alias_quote_char, as_keyword are passed through uninterpreted",
    "the SQLite clause is validated on the engine (not proved): operands without their own ORDER BY/LIMIT, no MINUS, "
    "OFFSET only together with LIMIT",
]
ALLOWED_AXIOMS = []

CLASSES = ["Query", "MySQLQuery", "VerticaQuery", "OracleQuery", "PostgreSQLQuery", "RedshiftQuery", "MSSQLQuery",
           "ClickHouseQuery", "SQLLiteQuery", "SnowflakeQuery"]
METHS = {"union": ("MUnion", "UNION"), "union_all": ("MUnionAll", "UNION ALL"), "intersect": ("MIntersect", "INTERSECT"),
         "except_of": ("MExcept", "EXCEPT"), "minus": ("MMinus", "MINUS"),
         "+": ("MAdd", "UNION"), "*": ("MMul", "UNION ALL"), "-": ("MSub", "MINUS")}
TABLES = ["t", "u", "v", "w"]
COLS = ["a", "b", "c"]
N_WHERE = 5


# ================================================================================================
# building pypika objects from specs
# ================================================================================================
def _cls(name):
    import pypika
    import pypika.dialects as d
    return getattr(d, name, None) or getattr(pypika, name)


def _where(T, i):
    return [T.a > 1, T.b == 2, T.c.isin([1, 2]), T.a == "x UNION (y", T.b.isnull()][i]


def build_q(sp):
    """a QueryBuilder from a 'q' spec"""
    from pypika import Table, Order
    C = _cls(sp["cls"])
    T = Table(sp["tbl"])
    kw = {}
    if sp.get("wrap") is not None:
        kw["wrap_set_operation_queries"] = sp["wrap"]
    if sp.get("subq"):
        inner = C.from_(T).select("*")
        q = C.from_(inner, **kw)
        T = inner
    else:
        q = C.from_(T, **kw)
    if sp.get("join"):
        J = Table("j")
        q = q.join(J).on(T.a == J.a)
    terms = []
    for col, alias in sp["sel"]:
        if col == "*":
            terms.append("*")
        elif col == "@iv":           # a term whose text depends on the dialect keyword argument
            from pypika.terms import Interval
            t = T.field("a") + Interval(days=1)
            terms.append(t.as_(alias) if alias else t)
        elif col.startswith("#"):
            from pypika.terms import ValueWrapper
            t = ValueWrapper(int(col[1:]))
            terms.append(t.as_(alias) if alias else t)
        else:
            f = T.field(col)
            terms.append(f.as_(alias) if alias else f)
    if terms:
        q = q.select(*terms)
    if sp.get("distinct"):
        q = q.distinct()
    if sp.get("where") is not None:
        q = q.where(_where(T, sp["where"]))
    if sp.get("group"):
        q = q.groupby(*[T.field(c) for c, _ in sp["sel"] if c in COLS])
    if sp.get("ob"):
        q = q.orderby(T.field(sp["ob"][0]), order=Order.desc if sp["ob"][1] == "desc" else Order.asc)
    if sp.get("lim") is not None:
        q = q.limit(sp["lim"])
    if sp.get("hint"):
        q = q.hint(sp["hint"])
    # operand-level dialect clauses: they belong to the operand's own text and must never leak into the chain's tail
    if sp.get("limit_by"):
        n_, off_, col_ = sp["limit_by"]
        q = q.limit_by(n_, T.field(col_)) if off_ is None else q.limit_offset_by(n_, off_, T.field(col_))
    if sp.get("distinct_on"):
        q = q.distinct_on(T.field(sp["distinct_on"]))
    if sp.get("top") is not None:
        q = q.top(sp["top"])
    if sp.get("for_update"):
        q = q.for_update()
    return q


def apply_meth(x, m, o):
    if m == "+":
        return x + o
    if m == "*":
        return x * o
    if m == "-":
        return x - o
    return getattr(x, m)(o)


def build_operand(sp):
    from pypika import Table, Query
    k = sp["k"]
    if k == "q":
        return build_q(sp)
    if k == "chain":
        return apply_meth(build_q(sp["base"]), sp["m"], build_q(sp["o"]))
    if k == "table":
        return Table(sp["tbl"])
    if k == "empty":
        return _cls(sp["cls"]).from_(Table(sp["tbl"]))
    if k == "insert":
        return _cls(sp["cls"]).into(Table(sp["tbl"])).insert(1, 2)
    raise ValueError(k)


def spec_arity(sp):
    """number of selected terms, from the case description alone (None: not a query)"""
    k = sp["k"]
    if k == "q":
        return len(sp["sel"])
    if k == "chain":
        return len(sp["base"]["sel"])
    if k in ("empty", "insert"):
        return 0
    return None


def spec_kind(sp):
    if sp["k"] == "q":
        return sp["cls"] + ("+hint" if sp.get("hint") else "")
    if sp["k"] == "chain":
        return "_SetOperation"
    return sp["k"]


def is_builder_spec(sp):
    """the object has a _selects list (QueryBuilder, or a chain: its base's)"""
    return sp["k"] in ("q", "empty", "insert", "chain")


def spec_cls(sp):
    return sp["base"]["cls"] if sp["k"] == "chain" else sp["cls"]


def malformed(sp):
    return sp["k"] in ("table", "empty", "insert")


def all_operand_specs(case):
    return [case["base"], case["first"][1]] + [st[2] for st in case["steps"] if st[0] == "op"]


def all_meths(case):
    return [case["first"][0]] + [st[1] for st in case["steps"] if st[0] == "op"]


# ---- kwargs dicts <-> JSON ------------------------------------------------------------------
def jk(K):
    return {k: (v.name if isinstance(v, Enum) else v) for k, v in K.items()}


def unjk(J):
    from pypika.enums import Dialects
    out = dict(J)
    if out.get("dialect") is not None:
        out["dialect"] = Dialects[out["dialect"]]
    return out


def class_conventions(clsname):
    """the documented conventions of a query class, read off the class attributes of a fresh builder:
    (items applied with setdefault, items forced)"""
    b = _cls(clsname)._builder()
    d = {"quote_char": b.QUOTE_CHAR, "secondary_quote_char": b.SECONDARY_QUOTE_CHAR,
         "alias_quote_char": b.ALIAS_QUOTE_CHAR,
         "query_alias_quote_char": b.ALIAS_QUOTE_CHAR if b.QUERY_ALIAS_QUOTE_CHAR is None else b.QUERY_ALIAS_QUOTE_CHAR,
         "as_keyword": b.as_keyword, "dialect": b.dialect.name if b.dialect is not None else None}
    forced = {"groupby_alias": False} if clsname in ("OracleQuery", "MSSQLQuery") else {}
    return d, forced


def page_style(clsname):
    return {"OracleQuery": "POracle", "MSSQLQuery": "PMssql"}.get(clsname, "PStd")


def eff_kwargs(Kcall, base_sp):
    """what _SetOperation.get_sql documents: anything set by the caller is kept, every other convention is the
    base query's"""
    d, forced = class_conventions(base_sp["cls"])
    K = dict(Kcall)
    for k, v in d.items():
        K.setdefault(k, v)
    K.update(forced)
    return K


def own_kwargs(Kcall, sp):
    """the decoy: the operand's own class conventions instead of the base's"""
    if not is_builder_spec(sp):
        return None
    return eff_kwargs(Kcall, {"cls": spec_cls(sp)})


def impl_conventions(ob):
    """(setdefault items, forced items, pagination style) as the implementation object applies them"""
    d = {}
    ob._set_kwargs_defaults(d)
    sentinel = object()
    d2 = {k: sentinel for k in d}
    ob._set_kwargs_defaults(d2)
    forced = {k: v for k, v in d2.items() if v is not sentinel}
    defaults = {k: v for k, v in d.items() if k not in forced}
    p = ob.QUERY_CLS._builder()
    p._limit, p._offset = 3, None
    t = p._apply_pagination("")
    style = {" LIMIT 3": "PStd", " FETCH NEXT 3 ROWS ONLY": "POracle",
             " OFFSET 0 ROWS FETCH NEXT 3 ROWS ONLY": "PMssql"}.get(t, "?" + t)
    return jk(defaults), jk(forced), style


def order_field(fs, base_obj, base_sp):
    """the Field object an orderby(...) argument stands for, as documented"""
    from pypika import Table, Field
    kind = fs[0]
    if kind == "str":
        return fs[1], Field(fs[1], table=base_obj._from[0])
    if kind == "field":
        f = Table(base_sp["tbl"]).field(fs[1])
        return f, f
    if kind == "afield":
        f = Table(base_sp["tbl"]).field(fs[1]).as_(fs[2])
        return f, f
    if kind == "ofield":
        f = Table(fs[1]).field(fs[2])
        return f, f
    if kind == "pos":        # ORDER BY <column position>: a constant, wrapped, never a column name
        from pypika.terms import ValueWrapper
        return fs[1], ValueWrapper(fs[1])
    if kind == "expr":       # an aliased expression
        f = (Table(base_sp["tbl"]).field(fs[1]) + 1).as_(fs[2])
        return f, f
    raise ValueError(kind)        # fail closed on an unknown argument form


# ================================================================================================
# running the implementation
# ================================================================================================
def _safe(f):
    try:
        return f()
    except Exception as ex:  # noqa
        return "!" + type(ex).__name__


_MSG = re.compile(r"\n\nMain Query:\n(.*)\n\nSet Operations Query:\n(.*)\Z", re.S)


def _exc_outcome(ex):
    name = type(ex).__name__
    if name == "SetOperationException":
        m = _MSG.search(str(ex))
        return {"tag": name, "out1": m.group(1) if m else "?", "out2": m.group(2) if m else "?"}
    return {"tag": name, "out1": "", "out2": ""}


def _db(seed):
    import random
    r = random.Random(seed)
    con = sqlite3.connect(":memory:")
    for t in TABLES + ["j"]:
        con.execute("create table %s (a int, b int, c int)" % t)
        for _ in range(r.choice([3, 4, 5, 6])):
            con.execute("insert into %s values (?,?,?)" % t, (r.randrange(4), r.randrange(3), r.randrange(2)))
    return con


def _rows(con, sql):
    try:
        return [list(r) for r in con.execute(sql).fetchall()]
    except Exception as ex:  # noqa
        return "!" + str(ex)


def run_impl(case):
    from pypika import Query, Table, Order
    from pypika.queries import _SetOperation, QueryBuilder
    out = {}
    specs = all_operand_specs(case)
    objs = [build_operand(sp) for sp in specs]
    base = objs[0]
    # ---- build the chain, remembering every intermediate chain and its text at creation time
    chain = apply_meth(base, case["first"][0], objs[1])
    inter = [(chain, _safe(lambda: str(chain)))]
    fields = []      # per orderby step: list of (alias, Field object)
    i = 2
    for st in case["steps"]:
        if st[0] == "op":
            chain = apply_meth(chain, st[1], objs[i])
            i += 1
        elif st[0] == "orderby":
            args, fobjs = [], []
            for fs in st[1]:
                a, f = order_field(fs, base, specs[0])
                args.append(a)
                fobjs.append(f)
            fields.append(fobjs)
            if st[2] is None:
                chain = chain.orderby(*args)
            else:
                chain = chain.orderby(*args, order=Order.desc if st[2] == "desc" else Order.asc)
        elif st[0] == "limit":
            chain = chain.limit(st[1])
        elif st[0] == "offset":
            chain = chain.offset(st[1])
        elif st[0] == "as":
            chain = chain.as_(st[1])
        inter.append((chain, _safe(lambda: str(chain))))
    # ---- use the chain; record the call that reaches _SetOperation.get_sql
    use = case["use"]
    rec = {}
    orig = _SetOperation.get_sql

    state = {"armed": False, "depth": 0}

    def spy(self, with_alias=False, subquery=False, **kwargs):
        outer = state["armed"] and state["depth"] == 0 and self is chain and "kw" not in rec
        if outer:
            rec["kw"] = jk(kwargs)
            rec["wa"] = bool(with_alias)
            rec["sub"] = bool(subquery)
            rec["alias"] = self.alias
        state["depth"] += 1
        try:
            r = orig(self, with_alias=with_alias, subquery=subquery, **kwargs)
        finally:
            state["depth"] -= 1
        if outer:
            rec["ret"] = r
        return r

    _SetOperation.get_sql = spy
    try:
        try:
            if use == "str":
                state["armed"] = True
                text = str(chain)
            elif use == "get_sql":
                state["armed"] = True
                text = chain.get_sql(**unjk(case["kw"]))
            else:
                O_ = _cls(case["outer"])
                T0 = Table("t0")
                if use == "from":
                    cont = O_.from_(chain).select("*")
                elif use == "isin":
                    cont = O_.from_(T0).select("*").where(T0.a.isin(chain))
                elif use == "join":
                    cont = O_.from_(T0).join(chain).on(T0.a == chain.a).select(T0.a)
                else:
                    raise ValueError(use)
                state["armed"] = True
                text = str(cont)
            out.update({"tag": "ok", "text": text})
        except Exception as ex:  # noqa
            out.update(_exc_outcome(ex))
    finally:
        _SetOperation.get_sql = orig
    out["rec"] = rec
    # ---- operands' own renderings under the candidate kwargs
    Kcall = {k: v for k, v in rec.get("kw", {}).items()}
    Ks = []
    for K in [eff_kwargs(Kcall, specs[0])] + [own_kwargs(Kcall, sp) for sp in specs]:
        if K is not None and K not in Ks:
            Ks.append(K)
    out["Ks"] = Ks
    ops = []
    for sp, ob in zip(specs, objs):
        if isinstance(ob, QueryBuilder):
            sel = [getattr(s, "alias", None) for s in ob._selects]
            dd, ff, st = impl_conventions(ob)
            d = {"sel": sel, "builder": True, "chain": False, "wrap": bool(ob.wrap_set_operation_queries),
                 "defaults": dd, "forced": ff, "page": st}
        elif isinstance(ob, _SetOperation):
            sel = [getattr(s, "alias", None) for s in ob.base_query._selects]
            d = {"sel": sel, "builder": isinstance(getattr(type(ob), "_selects", None), property), "chain": True,
                 "wrap": False, "defaults": {}, "forced": {}, "page": "PStd"}
        else:
            d = {"sel": [], "builder": False, "chain": False, "wrap": False, "defaults": {}, "forced": {}, "page": "PStd"}
        d["texts"] = [[_safe(lambda: ob.get_sql(subquery=False, **unjk(K))), _safe(lambda: ob.get_sql(subquery=True, **unjk(K)))]
                      for K in Ks]
        ops.append(d)
    out["ops"] = ops
    out["opaque_fail"] = any(t.startswith("!") for d in ops for pair in d["texts"] for t in pair)
    out["fields"] = [[{"alias": f.alias, "texts": [_safe(lambda: f.get_sql(**unjk(K))) for K in Ks]} for f in fl]
                     for fl in fields]
    # ---- immutability of the intermediate chains
    out["inter"] = [[then, _safe(lambda: str(c))] for c, then in inter]
    # ---- SQLite
    if case.get("sqlite") is not None and out.get("tag") == "ok":
        con = _db(case["sqlite"])
        out["sqlite"] = {"chain": _rows(con, out["text"]),
                         "ops": [_rows(con, str(build_operand(sp))) for sp in specs]}
    return out


# ================================================================================================
# model side
# ================================================================================================
def kval(v):
    if v is None:
        return "VNone"
    if isinstance(v, bool):
        return "(VBool %s)" % B(v)
    if isinstance(v, str):
        return "(VStr %s)" % S(v)
    raise ValueError("kwargs value %r" % (v,))


def kw_coq(K):
    return L(["(%s, %s)" % (S(k), kval(K[k])) for k in sorted(K)])


def op_coq(d, Ks):
    tbl = L(["(%s, %s, %s)" % (kw_coq(K), S(t[0]), S(t[1])) for K, t in zip(Ks, d["texts"])])
    return "(mk_op %s %s %s %s %s %s %s %s)" % (L([OS(a) for a in d["sel"]]), B(d["builder"]), B(d["chain"]), B(d["wrap"]),
                                                kw_coq(d["defaults"]), kw_coq(d["forced"]), d["page"], tbl)


def to_coq(case, outcome):
    if "harness_exc" in outcome:
        raise RuntimeError(outcome["harness_exc"])
    Ks, ops, rec = outcome["Ks"], outcome["ops"], outcome["rec"]
    if outcome.get("opaque_fail"):
        return None
    if outcome["tag"] == "ok":
        text = outcome["text"]
        ret = rec.get("ret")
        if ret is None or text.count(ret) != 1:
            return None
        k = text.index(ret)
        prefix, suffix, out1, out2 = text[:k], text[k + len(ret):], text, ""
    else:
        prefix = suffix = ""
        out1, out2 = outcome["out1"], outcome["out2"]
    if "kw" not in rec:
        return None
    steps, i, fi = [], 2, 0
    for st in case["steps"]:
        if st[0] == "op":
            steps.append("(StOp %s %s)" % (METHS[st[1]][0], op_coq(ops[i], Ks)))
            i += 1
        elif st[0] == "orderby":
            fl = outcome["fields"][fi]
            fi += 1
            fs = L(["(mk_field %s %s)" % (OS(f["alias"]), L(["(%s, %s)" % (kw_coq(K), S(t)) for K, t in zip(Ks, f["texts"])]))
                    for f in fl])
            steps.append("(StOrderby %s %s)" % (fs, "None" if st[2] is None else '(Some "%s")' % st[2].upper()))
        elif st[0] == "limit":
            steps.append("(StLimit %s)" % O(None if st[1] is None else Zc(st[1])))
        elif st[0] == "offset":
            steps.append("(StOffset %s)" % O(None if st[1] is None else Zc(st[1])))
        elif st[0] == "as":
            steps.append("(StAs %s)" % OS(st[1]))
    if case["use"] in ("from", "isin", "join"):
        steps.append("(StAs %s)" % OS(rec.get("alias")))      # FROM assigns sq<n> to an un-aliased sub-query
    return "(Build_ccase %s %s %s %s %s %s %s %s %s %s %s %s)" % (
        op_coq(ops[0], Ks), METHS[case["first"][0]][0], op_coq(ops[1], Ks), L(steps), kw_coq(rec["kw"]),
        B(rec["wa"]), B(rec["sub"]), S(prefix), S(suffix), S(outcome["tag"]), S(out1), S(out2))


# ================================================================================================
# oracle: the property's observable on the implementation, independent of the model
# ================================================================================================
_KW = re.compile(r"UNION ALL\b|UNION\b|INTERSECT\b|EXCEPT\b|MINUS\b")


def split_depth0(text):
    """split at set keywords that are outside quotes and outside parentheses -> (segments, keywords, keyword spans)"""
    segs, kws, spans = [], [], []
    depth, quote, start, i, n = 0, None, 0, 0, len(text)
    while i < n:
        c = text[i]
        if quote:
            if c == quote:
                quote = None
        elif c in "\"'`":
            quote = c
        elif c == "(":
            depth += 1
        elif c == ")":
            depth -= 1
        elif depth == 0 and c in "UIEM" and (i == 0 or not (text[i - 1].isalnum() or text[i - 1] == "_")):
            m = _KW.match(text, i)
            if m:
                segs.append(text[start:i])
                kws.append(m.group(0))
                spans.append((i, m.end()))
                i = m.end()
                start = i
                continue
        i += 1
    segs.append(text[start:])
    return segs, kws, spans


def _viol(op, kind, what, msg):
    return {"signature": ["C11", op, kind, what], "what": msg}


def _expected_wrap(base_sp):
    if base_sp.get("wrap") is not None:
        return bool(base_sp["wrap"])
    return base_sp["cls"] not in ("ClickHouseQuery", "SQLLiteQuery")      # the dialects documented not to wrap


# limit/offset in the base dialect's syntax: LIMIT n OFFSET m, or (Oracle, MSSQL) OFFSET m ROWS FETCH NEXT n ROWS ONLY
_TAIL = re.compile(r"^(?:ORDER BY (?P<ob>.*?))?\s*(?:LIMIT (?P<l>-?\d+))?\s*(?:OFFSET (?P<o>-?\d+))?$", re.S)
_TAIL_FETCH = re.compile(r"^(?:ORDER BY (?P<ob>.*?))?\s*(?:OFFSET (?P<o>-?\d+) ROWS)?\s*(?:FETCH NEXT (?P<l>-?\d+) ROWS ONLY)?$", re.S)


def _check_tail(case, rest):
    """rest: what follows the last operand.  Expected from the steps: ORDER BY (all orderby fields, in call order,
    with their directions), LIMIT iff a limit was set (0 included), OFFSET iff a non-zero offset was set."""
    obs, lim, off = [], None, None
    for st in case["steps"]:
        if st[0] == "orderby":
            obs += [(fs, st[2]) for fs in st[1]]
        elif st[0] == "limit":
            lim = st[1]
        elif st[0] == "offset":
            off = st[1]
    fetch = page_style(case["base"].get("cls", "")) != "PStd"
    m = (_TAIL_FETCH if fetch else _TAIL).match(rest.strip())
    if not m:
        return "trailing-clauses-malformed", "trailing text %r is not ORDER BY/LIMIT/OFFSET in that order" % rest
    ob, l_, o_ = m.group("ob"), m.group("l"), m.group("o")
    if bool(obs) != (ob is not None):
        return "orderby-missing-or-spurious", "chain orderby fields %r but trailing text %r" % (obs, rest)
    if obs:
        clauses = [c.strip() for c in ob.split(",")]
        if len(clauses) != len(obs):
            return "orderby-clause-count", "%d orderby fields, clauses %r" % (len(obs), clauses)
        for (fs, d), cl in zip(obs, clauses):
            want_dir = None if d is None else d.upper()
            has_dir = cl.rsplit(" ", 1)[-1] if cl.rsplit(" ", 1)[-1] in ("ASC", "DESC") else None
            if want_dir != has_dir:
                return "orderby-direction", "clause %r, requested direction %r" % (cl, d)
            term = cl[: -len(has_dir) - 1] if has_dir else cl
            ident = re.sub(r"[`\"]", "", term).split(".")[-1]
            if fs[0] == "pos":
                if term.strip() != str(fs[1]):
                    return "orderby-position", "clause %r is not the column position %r" % (cl, fs[1])
                continue
            if fs[0] == "expr":
                if ident != fs[2] and fs[1] not in re.sub(r"[`\"]", "", term):
                    return "orderby-term", "clause %r is neither the alias %r nor an expression over %r" % (cl, fs[2], fs[1])
                continue
            names = {fs[1]} if fs[0] in ("str", "field") else ({fs[1], fs[2]} if fs[0] == "afield" else {fs[2]})
            if ident not in names:
                return "orderby-term", "clause %r does not name %r" % (cl, sorted(names))
    if (lim is not None) != (l_ is not None) or (lim is not None and int(l_) != lim):
        return "limit", "limit %r but trailing text %r" % (lim, rest)
    if off:
        if o_ is None or int(o_) != off:
            return "offset", "offset %r but trailing text %r" % (off, rest)
    elif o_ is not None and int(o_) != 0:
        return "offset", "no offset but trailing text %r" % rest
    return None


def _check_chain_text(case, text, Kcall):
    """text = the chain rendered at top level (no outer parentheses/alias) under Kcall"""
    specs, meths = all_operand_specs(case), all_meths(case)
    K = eff_kwargs(Kcall, specs[0])
    wrap = _expected_wrap(specs[0])
    out = []
    n = len(specs)
    owns = [build_operand(sp).get_sql(**unjk(K)) for sp in specs]

    def expected(i):
        if wrap:
            return "(" + owns[i] + ")"
        if i > 0 and specs[i]["k"] == "chain":      # grouping kept as a derived table where operands stay bare
            return "SELECT * FROM (" + owns[i] + ")"
        return owns[i]
    exps = [expected(i) for i in range(n)]
    # depth-0 keywords inside an expected operand text belong to that operand (none, unless something is off)
    inner = [len(split_depth0(e)[1]) for e in exps]
    _, kws_all, spans = split_depth0(text)
    if len(kws_all) != n - 1 + sum(inner):
        return [_viol("any", spec_kind(specs[0]), "operand-count",
                      "%d operands composed (with %d keywords of their own), %d depth-0 keywords in %r"
                      % (n, sum(inner), len(kws_all), text))]
    segs, kws, j, start = [], [], 0, 0
    for i in range(n):
        j += inner[i]
        if i < n - 1:
            segs.append(text[start:spans[j][0]])
            kws.append(kws_all[j])
            start = spans[j][1]
            j += 1
        else:
            segs.append(text[start:])
    for i, (m, kw) in enumerate(zip(meths, kws)):
        if kw != METHS[m][1]:
            out.append(_viol(m, spec_kind(specs[i + 1]), "keyword",
                             "call #%d %s rendered as %s, documented %s: %r" % (i + 1, m, kw, METHS[m][1], text)))
    for i, sp in enumerate(specs):
        own = owns[i]
        exp = exps[i]
        seg = segs[i].strip()
        m = "base" if i == 0 else meths[i - 1]
        if i == n - 1:
            ok = seg.startswith(exp)
            rest = seg[len(exp):] if ok else None
        else:
            ok, rest = seg == exp, None
        if not ok:
            if sp["k"] == "q" and sp.get("hint") and wrap:
                out.append(_viol("any", "VerticaQuery-operand-with-hint", "operand-text-changed-when-wrapped",
                                 "operand #%d renders %r alone but %r in the chain" % (i, own, seg)))
                if i == n - 1:
                    return out
                continue
            others = exps
            bare = own if wrap else "(" + own + ")"
            if (seg == bare) or (i == n - 1 and seg.startswith(bare)):
                what = "wrapping"
            elif any(seg == o2 or (i == n - 1 and seg.startswith(o2)) for j, o2 in enumerate(others) if j != i):
                what = "operand-order"
            else:
                what = "operand-text-changed"
            out.append(_viol(m, spec_kind(sp), what,
                             "segment #%d is %r, the operand alone renders %r (wrap=%s): %r" % (i, seg, own, wrap, text)))
            if i == n - 1:
                return out
        if i == n - 1 and rest is not None:
            t = _check_tail(case, rest)
            if t:
                out.append(_viol("any", spec_kind(specs[0]), "tail:" + t[0], t[1] + " in " + repr(text)))
    return out


def _py_fold(meths, rows):
    acc = [tuple(r) for r in rows[0]]
    for m, r in zip(meths, rows[1:]):
        r = [tuple(x) for x in r]
        kw = METHS[m][1]
        if kw == "UNION ALL":
            acc = acc + r
        elif kw == "UNION":
            acc = sorted(set(acc) | set(r))
        elif kw == "INTERSECT":
            acc = sorted(set(acc) & set(r))
        elif kw == "EXCEPT":
            acc = sorted(set(acc) - set(r))
        else:
            return None
    return acc


def _check_sqlite(case, outcome):
    sq = outcome.get("sqlite")
    if not sq:
        return []
    specs, meths = all_operand_specs(case), all_meths(case)
    base = specs[0]
    got = sq["chain"]
    wrapped = _expected_wrap(base)
    nested_bare = (not wrapped) and any(sp["k"] == "chain" for sp in specs)
    if isinstance(got, str):
        if nested_bare:
            return [_viol("any", "_SetOperation-operand-without-wrapping", "grouping-lost-on-sqlite",
                          "SQLite rejects %r: %s" % (outcome["text"], got))]
        if 'near "(": syntax error' in got and base["cls"] == "SQLLiteQuery" and base.get("wrap") is None \
                and outcome["text"].startswith("("):
            return [_viol("any", "SQLLiteQuery-default-wrapping", "sqlite-rejects-parenthesised-operands",
                          "SQLite rejects %r: %s" % (outcome["text"], got))]
        return [_viol("any", base["cls"], "sqlite-error", "SQLite rejects %r: %s" % (outcome["text"], got))]
    if any(isinstance(r, str) for r in sq["ops"]):
        return []          # an operand alone does not run: nothing to compare with
    ref = _py_fold(meths, sq["ops"])
    if ref is None:
        return []
    got = [tuple(r) for r in got]
    obs, lim, off = [], None, None
    for st in case["steps"]:
        if st[0] == "orderby":
            obs += [(fs, st[2]) for fs in st[1]]
        elif st[0] == "limit":
            lim = st[1]
        elif st[0] == "offset":
            off = st[1]
    names = [al or c for c, al in base["sel"]]
    keys = []
    for fs, d in obs:
        if fs[0] == "pos":
            keys.append((fs[1] - 1, d == "desc"))
            continue
        nm = fs[2] if fs[0] == "afield" and fs[2] in names else fs[1]
        if nm not in names:
            return []
        keys.append((names.index(nm), d == "desc"))
    ref_sorted = sorted(ref)
    for idx, desc in reversed(keys):
        ref_sorted.sort(key=lambda r: r[idx], reverse=desc)
    full = len({k for k, _ in keys}) == len(names)
    lo = off or 0
    hi = None if lim is None else lo + lim
    msg = "chain %r returns %r; operands %r folded left to right give %r" % (outcome["text"], got, sq["ops"], ref_sorted)
    if nested_bare:     # every row difference of such a chain is the one known defect: the nested chain is flattened
        v = lambda what: [_viol("any", "_SetOperation-operand-without-wrapping", "grouping-lost-on-sqlite", msg)]  # noqa
    else:
        v = lambda what: [_viol("any", base["cls"], "sqlite-rows:" + what, msg)]  # noqa
    if lim is None and not off:
        if sorted(got) != sorted(ref):
            return v("set-expression")
    else:
        want_n = len(ref_sorted[lo:hi])
        if len(got) != want_n:
            return v("window-size")
        if full and got != ref_sorted[lo:hi]:
            return v("window")
        pool = list(ref)
        for r in got:
            if r not in pool:
                return v("window-rows")
            pool.remove(r)
    for idx, desc in keys[:1]:
        col = [r[idx] for r in got]
        if col != sorted(col, reverse=desc):
            return v("order")
    if full and keys and lim is None and not off and got != ref_sorted:
        return v("order")
    return []


def oracle(case, outcome):
    if "harness_exc" in outcome:
        return [_viol("any", "harness", "harness-exception", outcome["harness_exc"])]
    specs, meths = all_operand_specs(case), all_meths(case)
    if any(malformed(sp) for sp in specs) or outcome.get("opaque_fail"):
        return []          # not queries / an operand that does not render alone: the property makes no promise
    out = []
    tag = outcome["tag"]
    base_ar = spec_arity(specs[0])
    mism = [i for i, sp in enumerate(specs) if spec_arity(sp) != base_ar]
    nested = [i for i, sp in enumerate(specs) if sp["k"] == "chain"]
    # (a) exception exactly when some operand has another arity
    if mism:
        if tag != "SetOperationException":
            if tag == "TypeError" and nested:
                return [_viol("any", "_SetOperation-operand", "TypeError-instead-of-render-or-SetOperationException",
                              "operand #%d is a chain: %s raised although operand #%d has another arity" % (nested[0], tag, mism[0]))]
            return [_viol(meths[mism[0] - 1], spec_kind(specs[mism[0]]), "exception-missing",
                          "operand #%d has %s selected terms, the base %s, but rendering gave %s %r"
                          % (mism[0], spec_arity(specs[mism[0]]), base_ar, tag, outcome.get("text", "")))]
        return []
    if tag != "ok":
        if tag == "TypeError" and nested:
            return [_viol("any", "_SetOperation-operand", "TypeError-instead-of-render-or-SetOperationException",
                          "operand #%d is itself a chain with the base's arity; rendering raises %s" % (nested[0], tag))]
        return [_viol("any", spec_kind(specs[0]), "unexpected-exception:" + tag,
                      "all operands have %s selected terms but rendering raises %s" % (base_ar, tag))]
    # (b) the text
    text, rec = outcome["text"], outcome["rec"]
    Kcall = {k: v for k, v in rec.get("kw", {}).items()}
    use = case["use"]
    if not rec.get("wa") and not rec.get("sub"):
        if use not in ("str", "get_sql"):
            out.append(_viol("any", use, "container-parentheses", "chain not parenthesised inside %r" % text))
        out += _check_chain_text(case, text, Kcall)
    elif rec.get("sub"):
        # container use: the whole chain in ONE pair of parentheses (an alias may follow; not C11's subject)
        ret = rec.get("ret")
        if ret is None or text.count(ret) != 1:
            out.append(_viol("any", use, "container", "the chain's text is not found exactly once in %r" % text))
        else:
            k = _close_of(ret)
            if k is None or (not rec.get("wa") and k != len(ret) - 1):
                return out + [_viol("any", use, "container-parentheses", "chain rendered as %r inside %r" % (ret, text))]
            out += _check_chain_text(case, ret[1:k], Kcall)
    # (c) earlier chains are not changed by later calls
    for i, (then, now) in enumerate(outcome["inter"]):
        if then != now:
            out.append(_viol("any", spec_kind(specs[0]), "earlier-chain-changed",
                             "the chain after step %d rendered %r then, %r after the later steps" % (i, then, now)))
            break
    # (d) SQLite
    out += _check_sqlite(case, outcome)
    return out


def _close_of(s):
    """index of the parenthesis closing s[0] == '(' (quotes respected), else None"""
    if not s.startswith("("):
        return None
    depth, quote = 0, None
    for i, c in enumerate(s):
        if quote:
            if c == quote:
                quote = None
        elif c in "\"'`":
            quote = c
        elif c == "(":
            depth += 1
        elif c == ")":
            depth -= 1
            if depth == 0:
                return i
    return None


# ================================================================================================
# generator
# ================================================================================================
def gen_q(rng, cls, arity, sqlite_safe=False, tbl=None, aliases=False):
    # base of an executed chain: distinct columns, so that ORDER BY names resolve unambiguously on SQLite
    cols = rng.sample(COLS, arity) if (sqlite_safe and aliases) else [rng.choice(COLS) for _ in range(arity)]
    sel = []
    for c in cols:
        al = rng.choice(["x", "y", "z"]) if (aliases and rng.random() < 0.4) else None
        sel.append([c, al])
    if not sqlite_safe and arity == 1 and rng.random() < 0.1:
        sel = [["*", None]]
    if not sqlite_safe and rng.random() < 0.08:
        sel[rng.randrange(arity)] = ["#%d" % rng.randrange(5), rng.choice([None, "k"])]
    if not sqlite_safe and rng.random() < 0.10:
        sel[rng.randrange(len(sel))] = ["@iv", rng.choice([None, "iv"])]
    seen = set()
    for s in sel:            # distinct aliases only (ORDER BY resolution on SQLite)
        if s[1] in seen:
            s[1] = None
        seen.add(s[1])
    sp = {"k": "q", "cls": cls, "tbl": tbl or rng.choice(TABLES), "sel": sel}
    if rng.random() < 0.35:
        sp["where"] = rng.randrange(N_WHERE)
    if rng.random() < 0.12:
        sp["distinct"] = True
    if rng.random() < 0.08 and all(c in COLS for c, _ in sel):
        sp["group"] = True
    if not sqlite_safe:
        r = rng.random()
        if r < 0.08:
            sp["join"] = True
        elif r < 0.14 and all(c in COLS for c, _ in sel):
            sp["subq"] = True
        if rng.random() < 0.15:
            sp["ob"] = [rng.choice(COLS), rng.choice(["asc", "desc"])]
        if rng.random() < 0.15:
            sp["lim"] = rng.choice([0, 1, 5])
        if cls == "VerticaQuery" and rng.random() < 0.12:
            sp["hint"] = rng.choice(["h1", "lbl"])
        if cls != "ClickHouseQuery" and rng.random() < 0.08:
            sp["wrap"] = rng.random() < 0.5
        if cls == "ClickHouseQuery":
            if rng.random() < 0.35:
                sp["limit_by"] = [rng.choice([1, 2, 5]), rng.choice([None, None, 0, 3]), rng.choice(COLS)]
            if rng.random() < 0.10:
                sp["distinct_on"] = rng.choice(COLS)
        elif cls == "MSSQLQuery":
            if rng.random() < 0.20 and sp.get("lim") is None:
                sp["top"] = rng.choice([0, 1, 10])
        elif cls == "PostgreSQLQuery":
            if rng.random() < 0.15:
                sp["distinct_on"] = rng.choice(COLS)
        if cls in ("Query", "MySQLQuery", "PostgreSQLQuery", "RedshiftQuery") and rng.random() < 0.08:
            sp["for_update"] = True
    return sp


def gen_operand(rng, base_cls, arity, sqlite_safe=False, special=None):
    if sqlite_safe:
        if special == "chain":      # all flags off, so that SQLite accepts the text at all
            a, b = gen_q(rng, "SQLLiteQuery", arity, True), gen_q(rng, "SQLLiteQuery", arity, True)
            if rng.random() < 0.5:
                a["wrap"] = False
            return {"k": "chain", "base": a, "m": rng.choice(["union", "union_all", "intersect", "except_of"]), "o": b}
        return gen_q(rng, rng.choice(["SQLLiteQuery", "SQLLiteQuery", "Query"]), arity, True)
    cls = base_cls if rng.random() < 0.8 else rng.choice(CLASSES)
    if special == "chain":
        m = rng.choice(list(METHS))
        return {"k": "chain", "base": gen_q(rng, cls, arity), "m": m, "o": gen_q(rng, cls, arity)}
    if special == "table":
        return {"k": "table", "tbl": rng.choice(TABLES)}
    if special in ("empty", "insert"):
        return {"k": special, "cls": cls, "tbl": rng.choice(TABLES)}
    return gen_q(rng, cls, arity)


def gen_case(rng, maxlen, sqlite_stream=False):
    arity = rng.choice([1, 1, 2, 2, 3])
    n = rng.choice([1, 2, 2, 3, 3, 4, 5, 6] if maxlen <= 6 else [1, 2, 3, 4, 5, 6, 7, 8, 10, 12])
    if sqlite_stream:
        base = gen_q(rng, "SQLLiteQuery", arity, True, aliases=True)
        if rng.random() < 0.75:
            base["wrap"] = False
        meth_pool = ["union", "union_all", "intersect", "except_of", "+", "*"]
    else:
        cls = rng.choice(CLASSES)
        base = gen_q(rng, cls, arity, aliases=True)
        if cls != "ClickHouseQuery" and rng.random() < 0.12:
            base["wrap"] = rng.random() < 0.6
        base.pop("hint", None) if rng.random() < 0.5 else None
        meth_pool = list(METHS)
    ar = [arity] * n
    if not sqlite_stream and rng.random() < 0.22:
        pos = rng.choice([0, n // 2, n - 1])
        ar[pos] = rng.choice([a for a in (1, 2, 3, 4) if a != arity])
        if rng.random() < 0.3:
            ar[rng.randrange(n)] = rng.choice([1, 2, 3])
    special = [None] * n        # per case (not per operand), so that long chains stay mostly well-formed
    r = rng.random()
    if sqlite_stream:
        if r < 0.15:
            special[rng.randrange(n)] = "chain"
    elif r < 0.12:
        special[rng.choice([0, n // 2, n - 1])] = "chain"
        if rng.random() < 0.2:
            special[rng.randrange(n)] = "chain"
    elif r < 0.18:
        special[rng.randrange(n)] = rng.choice(["table", "empty", "insert"])
    operands = [gen_operand(rng, base["cls"], a, sqlite_stream, sp_) for a, sp_ in zip(ar, special)]
    meths = [rng.choice(meth_pool) for _ in range(n)]
    steps = [["op", m, o] for m, o in zip(meths[1:], operands[1:])]
    names = [al or c for c, al in base["sel"] if c in COLS]
    tails = []
    if names and base.get("tbl") and not base.get("subq") and rng.random() < 0.4:
        for _ in range(rng.choice([1, 1, 2])):
            nf = rng.choice([1, 1, 2])
            fs = []
            for _ in range(nf):
                c, al = rng.choice([s for s in base["sel"] if s[0] in COLS])
                r = rng.random()
                if rng.random() < 0.2:
                    fs.append(["pos", rng.randrange(1, arity + 1)])
                elif sqlite_stream:
                    fs.append(["afield", c, al] if al else rng.choice([["str", c], ["field", c]]))
                elif r < 0.12:
                    fs.append(["expr", c, rng.choice([al or "e", "e"])])
                elif r < 0.35:
                    fs.append(["str", al or c])
                elif r < 0.6:
                    fs.append(["field", c])
                elif r < 0.85:
                    fs.append(["afield", c, al or rng.choice(["x", "q"])])
                else:
                    fs.append(["ofield", rng.choice(TABLES), rng.choice(COLS)])
            tails.append(["orderby", fs, rng.choice([None, None, "asc", "desc"])])
    has_lim = rng.random() < 0.4
    if has_lim:
        tails.append(["limit", rng.choice([0, 0, 1, 2, 3, 10])])
    if rng.random() < 0.35 and (has_lim or not sqlite_stream):
        tails.append(["offset", rng.choice([0, 1, 2])])
    if rng.random() < 0.15:
        tails.append(["as", rng.choice(["al", "x", ""])])
    for t in tails:         # interleave: trailing-clause steps may come before later operands are added
        steps.insert(rng.randrange(len(steps) + 1), t)
    case = {"base": base, "first": [meths[0], operands[0]], "steps": steps, "use": "str"}
    if sqlite_stream:
        case["sqlite"] = rng.randrange(1000)
        return case
    r = rng.random()
    if r < 0.10:
        case["use"] = "get_sql"
        case["kw"] = rng.choice([{"quote_char": "`"}, {"quote_char": None}, {"dialect": None}, {"dialect": "MYSQL"},
                                 {"subquery": True}, {"with_alias": True, "subquery": True}, {"with_alias": True},
                                 {"quote_char": "'", "alias_quote_char": "`", "with_alias": True, "as_keyword": True},
                                 {"secondary_quote_char": '"'}])
    elif r < 0.45:
        case["use"] = rng.choice(["from", "isin", "join"])
        case["outer"] = base["cls"] if rng.random() < 0.6 else rng.choice(CLASSES)
    return case


def gen_cases(rng, tier):
    n, maxlen = (1000, 6) if tier == "quick" else (6000, 12)
    out = []
    for i in range(n):
        out.append(gen_case(rng, maxlen, sqlite_stream=(i % 5 == 4)))
    return out


def corpus():
    cases = []
    for p in sorted(glob.glob(os.path.join(VERIF, "corpus", "C11", "*.json"))):
        cases += json.load(open(p))
    return cases


def nontrivial_key(case):
    meths = all_meths(case)
    specs = all_operand_specs(case)
    ar = {spec_arity(s) for s in specs}
    if (len(meths) >= 2 and len({METHS[m][1] for m in meths}) >= 2) or len(ar) > 1 or case["use"] not in ("str",) \
            or any(st[0] in ("orderby", "limit", "offset") for st in case["steps"]):
        return json.dumps(case, sort_keys=True)
    return None


def histogram(cases):
    h = {}

    def inc(k):
        h[k] = h.get(k, 0) + 1
    for c in cases:
        specs, meths = all_operand_specs(c), all_meths(c)
        inc("operands=%d" % len(meths))
        inc("use=" + c["use"])
        inc("base=" + c["base"].get("cls", "?"))
        for m in meths:
            inc("meth=" + m)
        for sp in specs:
            for cl in ("limit_by", "distinct_on", "top", "for_update", "hint"):
                if sp.get(cl) is not None and sp.get(cl) is not False:
                    inc(("base" if sp is specs[0] else "operand") + "-clause=" + cl)
        for sp in specs[1:]:
            inc("operand=" + ("q" if sp["k"] == "q" else sp["k"]))
            if sp["k"] == "q" and sp["cls"] != c["base"].get("cls"):
                inc("operand-of-other-class")
        ar0 = spec_arity(specs[0])
        bad = [i for i, sp in enumerate(specs[1:]) if spec_arity(sp) != ar0]
        if bad:
            inc("mismatch@" + ("first" if bad[0] == 0 else ("last" if bad[0] == len(meths) - 1 else "middle")))
        for st in c["steps"]:
            if st[0] != "op":
                inc("step=" + st[0] + ("=0" if st[0] in ("limit", "offset") and st[1] == 0 else ""))
        if c.get("sqlite") is not None:
            inc("sqlite-stream" + ("(class default)" if c["base"].get("wrap") is None else "(wrap=False)"))
        if not bad and all(sp["k"] == "q" and not sp.get("hint") for sp in specs):
            inc("inside-the-proved-fragment")
    return h


def targeted_search(rng, broken, mism_cases):
    out = []
    for c in mism_cases:        # shrink: every prefix of the disagreeing programs, used plainly
        for k in range(len(c["steps"]) + 1):
            out.append({"base": c["base"], "first": c["first"], "steps": c["steps"][:k], "use": "str"})
    for i in range(1500):
        out.append(gen_case(rng, 6, sqlite_stream=(i % 4 == 3)))
    return out
