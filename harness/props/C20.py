"""C20 — INTERVAL, JSON and array/tuple literals denote the value they were built from
(models: coq/Interval.v, coq/Json.v; interpreter: coq/C20Corr.v)."""
import json as _json
import re as _re

from harness.lib import S, L, P, B, Zc, O
from harness.lib import OS as OS_

ID = "C20"
COQ_PROP = "props/C20.v"
CORR_REQUIRE = ["Interval", "Json", "C20Corr"]
CORR_CHECK = "check_case"
CORR_SHOW = "show_case"
GEN_FILES = ["gen/C20Table.v"]
SHARD = 300
RULE = ("terms may first go through copying builder methods (replace_table / as_ on the term, replace_table on the "
        "enclosing statement or comparison); Python lists/tuples wrapped by wrap_constant; explicit-keyword contexts omit every subset of quote_char/secondary_quote_char/dialect and may sit in a bare "
        "comparison; a third of the interval/json/seq cases render ONE term object 2-4 times in a row under different contexts; leaf "
        "elements of Tuple/Array count their renderings and are also rendered with a parameter collector; "
        "interval/json/seq terms are rendered under a context: own keyword arguments, or one of the ten query classes x "
        "{direct get_sql with the class constants, select list, WHERE operand, function argument, INSERT value}; "
        "five families in one Gallina sum type: intervals (every subset of non-zero fields x digit lengths 1-7 incl. "
        "values ending in 0 / powers of ten x sign x dialect given at construction and/or at render, plus quarters, "
        "weeks, all-zero and a malformed stream of mixed signs / combined quarter-week-field arguments); trim (random "
        "strings over 0-9 - : . space against Python re); read (the harness' independent expression reader against "
        "read_interval); json (nested dict/list/str with hostile characters, int, float, bool, None, non-string keys); "
        "seq (Tuple/Array/Bracket element lists x dialect, nested, empty). Non-trivial: interval with >= 2 non-zero "
        "fields or a multi-digit value, nested json, nested or empty seq; distinct by canonical JSON of the case")
TRUSTED = [
    "harness/props/C20.py builds the same value on pypika objects and as a Gallina value (correspondence harness)",
    "leaf elements of Tuple/Array are opaque terms whose text is taken from the implementation at run time",
    "coq/gen/C20Table.v is regenerated from the imported pypika.terms.Interval class attributes on every run",
    "json_spec (RFC 8259 serialiser) is a specification, compared with json.dumps on every json case; "
    "read_interval / sql_decode / elements are compared with independent Python twins on every run",
]
ASSUMPTIONS = [
    "interval expressions are read field-wise with the delimiters of Y-M-D H:M:S.U (the property's reading "
    "convention); MySQL's left-justification of a short microsecond field is not modelled (engine unavailable)",
    "element texts of Tuple/Array are balanced in brackets and quotes, non-empty, without top-level comma",
    "Python floats are represented by their repr text; alias rendering of JSON/Tuple/Array is not part of C20",
]
ALLOWED_AXIOMS = []

DIALECTS = ["VERTICA", "CLICKHOUSE", "ORACLE", "MSSQL", "MYSQL", "POSTGRESQL", "REDSHIFT", "SQLLITE", "SNOWFLAKE"]
DCOQ = {"VERTICA": "DVertica", "CLICKHOUSE": "DClickhouse", "ORACLE": "DOracle", "MSSQL": "DMssql", "MYSQL": "DMysql",
        "POSTGRESQL": "DPostgresql", "REDSHIFT": "DRedshift", "SQLLITE": "DSqlite", "SNOWFLAKE": "DSnowflake"}
LABELS = ["YEAR", "MONTH", "DAY", "HOUR", "MINUTE", "SECOND", "MICROSECOND"]
FIELD_DELIMS = ["-", "-", " ", ":", ":", "."]
EXPR_ONLY_QUOTED = ("ORACLE", "MYSQL")          # INTERVAL '<expr>' <unit>; everything else INTERVAL '<expr> <unit>'


def _dialect(name):
    from pypika.enums import Dialects
    return None if name is None else Dialects[name]


def _dcoq(name):
    return "None" if name is None else "(Some %s)" % DCOQ[name]


# ------------------------------------------------------------------------------------------------
# keyword contexts: the ten query classes, directly and inside real statements
# ------------------------------------------------------------------------------------------------
CLASS_NAMES = ["Query", "MySQLQuery", "VerticaQuery", "OracleQuery", "PostgreSQLQuery", "RedshiftQuery", "MSSQLQuery",
               "ClickHouseQuery", "SQLLiteQuery", "SnowflakeQuery"]
POSITIONS = ["direct", "select", "where", "fnarg", "insert"]
HOLE = "@@C20HOLE@@"


def query_classes():
    import pypika
    import pypika.dialects as d
    return [pypika.Query if n == "Query" else getattr(d, n) for n in CLASS_NAMES]


def class_kwargs(cls):
    """The keyword context the class's builder hands to every term (its constants)."""
    b = cls._builder()
    return dict(quote_char=b.QUOTE_CHAR, secondary_quote_char=b.SECONDARY_QUOTE_CHAR,
                alias_quote_char=b.ALIAS_QUOTE_CHAR, dialect=b.dialect)


def case_kwargs(case, raw=False):
    """(keyword arguments the term is rendered with, dialect name) of a case.  In a bare comparison (pos "cmp") the
    caller's keyword arguments go to BasicCriterion.get_sql(quote_char='"', ...), whose documented default for an
    omitted quote_char is what the operands receive; raw=True gives the arguments of the outer call itself."""
    kw, dname = _case_kwargs(case)
    if not raw and case.get("cls") is None and case.get("pos") == "cmp":
        kw = dict(kw)
        kw.setdefault("quote_char", '"')
    return kw, dname


def _case_kwargs(case):
    if case.get("cls") is not None:
        kw = class_kwargs(query_classes()[case["cls"]])
        return kw, (None if kw["dialect"] is None else kw["dialect"].name)
    k = case["kind"]
    if k in ("interval", "seq"):
        dname = case["dr"] if k == "interval" else case["d"]
        if "omit" not in case:
            if k == "interval":       # the call a user writes: Interval(...).get_sql(dialect=...)
                return ({} if dname is None else {"dialect": _dialect(dname)}), dname
            return skw(dname), dname
        # explicit keyword arguments with some conventions OMITTED: the callee's documented default applies
        # (dialect -> None, quote_char -> None, secondary_quote_char -> the single quote)
        kw = {n: v for n, v in skw(dname).items() if n not in case["omit"]}
        return kw, (None if "dialect" in case["omit"] else dname)
    kw = dict(case.get("kw") or {})
    return kw, None


CONVENTIONS = ["quote_char", "secondary_quote_char", "dialect"]
SUBSETS = [[n for j, n in enumerate(CONVENTIONS) if m >> j & 1] for m in range(8)]


def _statement(cls, pos, term):
    from pypika import Table, functions as fn
    t = Table("t")
    if pos == "select":
        return cls.from_(t).select(term)
    if pos == "where":
        return cls.from_(t).select(t.a).where(t.c == term)
    if pos == "fnarg":
        return cls.from_(t).select(fn.Coalesce(t.x, term))
    if pos == "insert":
        return cls.into(t).insert(term)
    raise ValueError(pos)


def render_in_context(term, case):
    """Text of the term under the case's context: direct get_sql with the keyword arguments, or the
    term's part of a real statement of the query class (frame taken from the same statement
    rendered with a placeholder term)."""
    pos = case.get("pos") or "direct"
    kw, _ = case_kwargs(case, raw=True)
    rtq = "rtq" in (case.get("via") or [])
    from pypika.terms import PseudoColumn
    if pos == "cmp":        # the term as the right operand of a comparison that is rendered on its own
        from pypika import Field
        if rtq:
            from pypika import Table
            t, u = Table("t"), Table("u")
            pre, _, post = (Field("tags", table=t) == PseudoColumn(HOLE)).replace_table(t, u).get_sql(**kw).partition(HOLE)
            text = (Field("tags", table=t) == term).replace_table(t, u).get_sql(**kw)
        else:
            pre, _, post = (Field("tags") == PseudoColumn(HOLE)).get_sql(**kw).partition(HOLE)
            text = (Field("tags") == term).get_sql(**kw)
        if not (text.startswith(pre) and text.endswith(post) and len(text) >= len(pre) + len(post)):
            raise FrameError("criterion %r does not have the frame %r ... %r" % (text, pre, post))
        return text[len(pre):len(text) - len(post)]
    if case.get("cls") is None or pos == "direct":
        if rtq and hasattr(term, "replace_table"):
            from pypika import Table
            term = term.replace_table(Table("t"), Table("u"))
        return term.get_sql(**kw)
    cls = query_classes()[case["cls"]]
    def stmt(x):
        q = _statement(cls, pos, x)
        if rtq:
            from pypika import Table
            q = q.replace_table(Table("t"), Table("u"))
        return q.get_sql()
    frame = stmt(PseudoColumn(HOLE))
    pre, _, post = frame.partition(HOLE)
    text = stmt(term)
    if not (text.startswith(pre) and text.endswith(post) and len(text) >= len(pre) + len(post)):
        raise FrameError("statement %r does not have the frame %r ... %r" % (text, pre, post))
    return text[len(pre):len(text) - len(post)]


class FrameError(Exception):
    pass


# ------------------------------------------------------------------------------------------------
# extraction: class-level tables of Interval -> coq/gen/C20Table.v
# ------------------------------------------------------------------------------------------------
def extract():
    from pypika.terms import Interval
    from pypika.enums import Dialects
    pat = Interval.trim_pattern
    if not isinstance(pat, _re.Pattern):
        raise ValueError("Interval.trim_pattern is not a compiled regular expression")
    tpl = []
    for k, v in Interval.templates.items():
        if not isinstance(k, Dialects) or not isinstance(v, str):
            raise ValueError("Interval.templates: unexpected entry %r" % ((k, v),))
        tpl.append(P(S(k.name), S(v)))
    lines = [
        "(* GENERATED by harness/props/C20.py:extract() from pypika.terms.Interval -- do not edit. *)",
        "From PV Require Import Base.",
        "Definition trim_pattern_src : string := %s." % S(pat.pattern),
        "Definition trim_pattern_flags : Z := %s." % Zc(pat.flags),
        "Definition interval_units : list string := %s." % L([S(u) for u in Interval.units]),
        "Definition interval_labels : list string := %s." % L([S(u) for u in Interval.labels]),
        "Definition interval_templates : list (string * string) := %s." % L(tpl),
        "Definition dialect_members : list string := %s." % L([S(d.name) for d in Dialects]),
        "Definition query_class_ctx : list (string * (option string * option string * option string * option string)) := %s."
        % L([P(S(c.__name__), P(OS_(k["quote_char"]), OS_(k["secondary_quote_char"]), OS_(k["alias_quote_char"]),
                                 OS_(None if k["dialect"] is None else k["dialect"].name)))
             for c, k in ((c, class_kwargs(c)) for c in query_classes())]),
        "",
    ]
    return {"gen/C20Table.v": "\n".join(lines)}


# ------------------------------------------------------------------------------------------------
# independent readers (the property's observables)
# ------------------------------------------------------------------------------------------------
def py_read(unit, expr):
    """Sign and fields of an interval expression, read with the unit it names. None = unreadable."""
    neg = expr[:1] == "-"
    body = expr[1:] if neg else expr
    if unit in ("QUARTER", "WEEK"):
        delims = []
    else:
        parts = unit.split("_", 1)
        if parts[0] not in LABELS:
            return None
        a = LABELS.index(parts[0])
        if len(parts) == 1:
            b = a
        else:
            if parts[1] not in LABELS:
                return None
            b = LABELS.index(parts[1])
            if not a < b:
                return None
        delims = FIELD_DELIMS[a:b]
    vals, pos = [], 0
    for k in range(len(delims) + 1):
        start = pos
        while pos < len(body) and body[pos] in "0123456789":
            pos += 1
        if pos == start:
            return None
        vals.append(int(body[start:pos]))
        if k < len(delims):
            if body[pos:pos + 1] != delims[k]:
                return None
            pos += 1
    if pos != len(body):
        return None
    return [neg, vals]


def py_sql_decode(s):
    """Content of a text that is exactly one standard SQL string literal, else None."""
    if len(s) < 2 or s[0] != "'":
        return None
    i, out = 1, []
    while i < len(s):
        c = s[i]
        if c == "'":
            if i == len(s) - 1:
                return "".join(out)
            if s[i + 1] == "'":
                out.append("'")
                i += 2
                continue
            return None
        out.append(c)
        i += 1
    return None


def py_elements(s):
    """Element texts of a bracketed list: ( .. ), [ .. ], ARRAY[ .. ] or '{}' ; None = not such a list."""
    if s == "'{}'":
        return []
    if s.startswith("ARRAY["):
        body = s[6:]
    elif s[:1] in ("(", "["):
        body = s[1:]
    else:
        return None
    items, cur, depth, quote = [], [], 0, None
    for i, c in enumerate(body):
        if quote is not None:
            cur.append(c)
            if c == quote:
                quote = None
            continue
        if c in "'\"":
            quote = c
            cur.append(c)
        elif c in "([":
            depth += 1
            cur.append(c)
        elif c in ")]":
            if depth == 0:
                if i != len(body) - 1:
                    return None
                items.append("".join(cur))
                return [] if items == [""] else items
            depth -= 1
            cur.append(c)
        elif c == "," and depth == 0:
            items.append("".join(cur))
            cur = []
        else:
            cur.append(c)
    return None


# ------------------------------------------------------------------------------------------------
# JSON values: description <-> Python value <-> Gallina
# ------------------------------------------------------------------------------------------------
def jbuild(d):
    k = d[0]
    if k == "s":
        return d[1]
    if k == "i":
        return int(d[1])
    if k == "f":
        return float(d[1])
    if k == "b":
        return bool(d[1])
    if k == "n":
        return None
    if k == "l":
        return [jbuild(x) for x in d[1]]
    if k == "d":
        return {jbuild(a): jbuild(b) for a, b in d[1]}
    raise ValueError(k)


def jcoq(v):
    if isinstance(v, str):
        return "(JStr %s)" % S(v)
    if isinstance(v, bool):
        return "(JBool %s)" % B(v)
    if isinstance(v, int):
        return "(JInt %s)" % Zc(v)
    if isinstance(v, float):
        return "(JFloat %s)" % S(repr(v))
    if v is None:
        return "JNull"
    if isinstance(v, list):
        return "(JList %s)" % L([jcoq(x) for x in v])
    if isinstance(v, dict):
        return "(JDict %s)" % L([P(jcoq(a), jcoq(b)) for a, b in v.items()])
    raise ValueError(type(v))


def _jwalk(v):
    yield v
    if isinstance(v, list):
        for x in v:
            yield from _jwalk(x)
    elif isinstance(v, dict):
        for a, b in v.items():
            yield from _jwalk(a)
            yield from _jwalk(b)


def j_in_quantifier(v):
    """JSON-serialisable in the strict sense: string keys, finite floats."""
    for x in _jwalk(v):
        if isinstance(x, float) and (x != x or x in (float("inf"), float("-inf"))):
            return False
        if isinstance(x, dict) and any(not isinstance(k, str) for k in x):
            return False
    return True


def j_same(a, b):
    if type(a) is not type(b):
        return False
    if isinstance(a, list):
        return len(a) == len(b) and all(j_same(x, y) for x, y in zip(a, b))
    if isinstance(a, dict):
        return list(a.keys()) == list(b.keys()) and all(j_same(a[k], b[k]) for k in a)
    return a == b


def j_cause(v):
    strs = [x for x in _jwalk(v) if isinstance(x, str)]
    if any("'" in s for s in strs):
        return "single-quote-in-string"
    if any(('"' in s) or ("\\" in s) or any(ord(c) < 32 for c in s) for s in strs):
        return "string-not-escaped"
    if any(isinstance(x, bool) or x is None for x in _jwalk(v)):
        return "python-bool-none-spelling"
    return "other"


# ------------------------------------------------------------------------------------------------
# Tuple / Array terms: description -> pypika term / Gallina
# ------------------------------------------------------------------------------------------------
def sbuild(d):
    from pypika import Field, Table, functions as fn
    from pypika.terms import Array, Tuple, Bracket, ValueWrapper, NullValue, Interval, JSON
    k = d[0]
    if k in ("pylist", "pytuple"):
        from pypika.terms import Term
        return Term.wrap_constant(pyval(d))
    if k == "int":
        return ValueWrapper(int(d[1]))
    if k == "str":
        return ValueWrapper(d[1])
    if k == "field":
        return Field(d[1])
    if k == "tfield":
        return Field(d[1], table=Table("t"))
    if k == "fn":
        return fn.Coalesce(Field(d[1]), ValueWrapper(d[2]), 0)
    if k == "arith":
        return (Field(d[1]) + 1) * 2
    if k == "null":
        return NullValue()
    if k == "interval":
        return Interval(days=int(d[1]), hours=2)
    if k == "json":
        return JSON({"a": [1, 2]})
    if k == "tuple":
        return Tuple(*[sbuild(x) for x in d[1]])
    if k == "array":
        return Array(*[sbuild(x) for x in d[1]])
    if k == "bracket":
        return Bracket(sbuild(d[1]))
    raise ValueError(k)


def skw(dname):
    return dict(dialect=_dialect(dname), quote_char='"', secondary_quote_char="'")


def scoq(d, kw):
    k = d[0]
    if k in ("tuple", "array", "pylist", "pytuple"):
        return "(SSeq %s %s)" % ("KTuple" if skind(d) == "tuple" else "KArray", L([scoq(x, kw) for x in d[1]]))
    if k == "bracket":
        return "(SSeq KTuple %s)" % L([scoq(d[1], kw)])
    return "(SAtom %s)" % S(sbuild(d).get_sql(**kw))


def skind(d):
    """"array" / "tuple" for a sequence description (pylist / pytuple: a Python list / tuple wrapped by
    Term.wrap_constant), None for a leaf"""
    if d[0] in ("array", "pylist"):
        return "array"
    if d[0] in ("tuple", "pytuple", "bracket"):
        return "tuple"
    return None


def pyval(d):
    return [pyval(x) for x in d[1]] if d[0] == "pylist" else tuple(pyval(x) for x in d[1]) if d[0] == "pytuple" else d[1]


def s_children(d):
    if d[0] in ("tuple", "array", "pylist", "pytuple"):
        return d[1]
    if d[0] == "bracket":
        return [d[1]]
    return None


# ------------------------------------------------------------------------------------------------
# generators
# ------------------------------------------------------------------------------------------------
def _value(rng):
    n = rng.choice([1, 1, 1, 2, 2, 3, 4, 5, 6, 7])
    r = rng.random()
    if r < 0.20:
        return 10 ** (n - 1)                                   # 1, 10, 100 ...
    if r < 0.40:
        return max(1, rng.randrange(10 ** (n - 1), 10 ** n) // 10 * 10) if n > 1 else rng.randrange(1, 10)   # ends in 0
    if r < 0.50:
        return int("1" + "0" * max(0, n - 2) + "1") if n > 1 else 1   # 101, 1001: zeros inside
    return rng.randrange(10 ** (n - 1), 10 ** n)


def _dialect_pair(rng):
    """(dialect at construction, dialect at render): the six template classes, each side."""
    classes = ["POSTGRESQL", "REDSHIFT", "VERTICA", "ORACLE", "MYSQL", None, "MSSQL", "SQLLITE", "CLICKHOUSE", "SNOWFLAKE"]
    w = [3, 2, 2, 3, 3, 3, 1, 1, 1, 1]
    r = rng.random()
    a = rng.choices(classes, w)[0]
    b = rng.choices(classes, w)[0]
    if r < 0.45:
        return None, a
    if r < 0.70:
        return a, None
    return a, b


def _pick_ctx(rng, p_cls):
    """class index + position, or (None, None) for a direct call with the case's own keyword arguments"""
    if rng.random() < p_cls:
        return rng.randrange(len(CLASS_NAMES)), rng.choice(POSITIONS)
    return None, None


JSON_KW = [{}, {}, {"quote_char": "`"}, {"quote_char": None}, {"quote_char": "["}, {"quote_char": "'"},
           {"quote_char": "`", "alias_quote_char": '"'}, {"secondary_quote_char": '"'},
           {"quote_char": None, "secondary_quote_char": "'", "alias_quote_char": None}]


DIALECT_SEQ = ["MYSQL", None, "POSTGRESQL", "ORACLE", "VERTICA", "REDSHIFT", "MSSQL", None, "MYSQL", "ORACLE"]


def _again(rng, kind, p):
    """further contexts under which the same term object is rendered afterwards"""
    if rng.random() >= p:
        return None
    out = []
    for _ in range(rng.choice([1, 1, 2, 3])):
        if rng.random() < 0.5:
            out.append({"cls": rng.randrange(len(CLASS_NAMES)), "pos": rng.choice(POSITIONS)})
        elif kind == "interval":
            out.append({"dr": rng.choice(DIALECT_SEQ)})
            _own_ctx(rng, out[-1])
        elif kind == "seq":
            out.append({"d": rng.choice(DIALECT_SEQ)})
            _own_ctx(rng, out[-1])
        else:
            out.append({"kw": rng.choice(JSON_KW)})
    return out


_JSON_FULL = [("quote_char", "`"), ("secondary_quote_char", "'"), ("alias_quote_char", '"')]
JSON_KW = JSON_KW + [dict(kv for j, kv in enumerate(_JSON_FULL) if m >> j & 1) for m in range(8)]


def _own_ctx(rng, c):
    """own-keyword-argument contexts: omit a subset of the conventions, and/or sit in a bare comparison"""
    if rng.random() < 0.6:
        c["omit"] = rng.choice(SUBSETS)
    if rng.random() < 0.3:
        c["pos"] = "cmp"


def gen_intervals(rng, n):
    out = []
    masks = list(range(1, 128))
    rng.shuffle(masks)
    i = 0
    while len(out) < n:
        r = rng.random()
        dc, dr = _dialect_pair(rng)
        if r < 0.78:
            mask = masks[i % 127]
            i += 1
            sg = -1 if rng.random() < 0.35 else 1
            vals = [sg * _value(rng) if mask >> k & 1 else 0 for k in range(7)]
            out.append({"kind": "interval", "vals": vals, "q": 0, "w": 0, "dc": dc, "dr": dr})
        elif r < 0.86:
            v = _value(rng) * rng.choice([1, 1, -1])
            which = rng.random() < 0.5
            out.append({"kind": "interval", "vals": [0] * 7, "q": v if which else 0, "w": 0 if which else v, "dc": dc, "dr": dr})
        elif r < 0.88:
            out.append({"kind": "interval", "vals": [0] * 7, "q": 0, "w": 0, "dc": dc, "dr": dr})
        else:
            # malformed stream (outside the quantifier; model must still agree): mixed signs, combined arguments
            vals = [rng.choice([0, 0, 1, -1]) * _value(rng) for _ in range(7)]
            out.append({"kind": "interval", "vals": vals, "q": rng.choice([0, 0, 0, 3, -2]), "w": rng.choice([0, 0, 5, -1]),
                        "dc": dc, "dr": dr})
    for c in out:
        cls, pos = _pick_ctx(rng, 0.4)
        if cls is not None:
            c.update({"dr": None, "cls": cls, "pos": pos})
        else:
            _own_ctx(rng, c)
        ag = _again(rng, "interval", 0.4)
        if ag:
            c["again"] = ag
        v = _via(rng, 0.2)
        if v:
            c["via"] = v
    return out


def gen_trims(rng, n):
    out = []
    for _ in range(n):
        ln = rng.choice([0, 1, 2, 3, 4, 5, 6, 8, 10, 13, 16, 24])
        alpha = rng.choice(["0-.: ", "0123-.: ", "00000-.: 15", "0.", "0-:. 9", "0123456789-.: ", "0:. "])
        out.append({"kind": "trim", "s": "".join(rng.choice(alpha) for _ in range(ln))})
    return out


def gen_reads(rng, n):
    out = []
    units = LABELS + ["QUARTER", "WEEK", "DAY_SECOND", "YEAR_MICROSECOND", "HOUR_MINUTE", "SECOND_MICROSECOND",
                      "YEAR_MONTH", "MONTH_YEAR", "DAY_DAY", "DAYS", "", "DAY_", "_DAY", "DAY_HOUR_MINUTE"]
    for _ in range(n):
        u = rng.choice(units)
        if rng.random() < 0.6 and py_read(u, "1") is not None or "_" in u:
            # a well-formed expression for that unit, sometimes damaged
            parts = u.split("_", 1)
            try:
                a, b = LABELS.index(parts[0]), LABELS.index(parts[-1])
            except ValueError:
                a = b = 0
            e = ""
            for k in range(a, max(a, b) + 1):
                e += str(rng.choice([0, 1, 10, 7, 100, 1234567, 5]))
                if k < b:
                    e += FIELD_DELIMS[k]
            if rng.random() < 0.3:
                e = "-" + e
            if rng.random() < 0.25 and e:
                p = rng.randrange(len(e))
                e = e[:p] + rng.choice(["", ":", " ", "x", "-", "00"]) + e[p + 1:]
        else:
            e = "".join(rng.choice("0123456789-: .") for _ in range(rng.choice([0, 1, 2, 3, 5, 8])))
        out.append({"kind": "read", "u": u, "e": e})
    return out


HOSTILE = ["", "a", "x y", "it's", 'a"b', "back\\slash", "new\nline", "tab\there", "été", "{}[],:", "null", "true",
           "'", '"', "\\", "\x01", "a\\nb", "emoji \U0001F600", "a''b", "</script>", "0", "-1", "key", "k2", "long " * 5]


def gen_jdesc(rng, depth, clean):
    r = rng.random()
    if depth <= 0 or r < 0.45:
        s = rng.random()
        if s < 0.40:
            pool = [x for x in HOSTILE if not any(c in x for c in "'\"\\") and all(ord(c) >= 32 for c in x)] if clean else HOSTILE
            return ["s", rng.choice(pool)]
        if s < 0.62:
            return ["i", rng.choice([0, 1, -1, 7, 10, 100, -250, 12345678901234567890, 2 ** 63])]
        if s < 0.80:
            return ["f", repr(rng.choice([0.0, 1.5, -2.25, 1e16, 1e-7, 3.14159, 1e22, -0.0, 100.0, 2.5e-300]))]
        if clean:
            return ["i", rng.randrange(1000)]
        if s < 0.92:
            return ["b", rng.random() < 0.5]
        return ["n"]
    if r < 0.72:
        return ["l", [gen_jdesc(rng, depth - 1, clean) for _ in range(rng.choice([0, 1, 2, 3, 4]))]]
    n = rng.choice([0, 1, 2, 3])
    pairs = []
    for j in range(n):
        if clean or rng.random() < 0.85:
            pool = [x for x in HOSTILE if not any(c in x for c in "'\"\\") and all(ord(c) >= 32 for c in x)] if clean else HOSTILE
            k = ["s", rng.choice(pool) + (str(j) if rng.random() < 0.5 else "")]
        else:
            k = rng.choice([["i", 3], ["b", True], ["n"], ["f", "1.5"], ["i", -7]])
        pairs.append([k, gen_jdesc(rng, depth - 1, clean)])
    return ["d", pairs]


def gen_jsons(rng, n):
    out = []
    for _ in range(n):
        c = {"kind": "json", "v": gen_jdesc(rng, rng.choice([0, 1, 2, 2, 3, 4]), rng.random() < 0.55)}
        cls, pos = _pick_ctx(rng, 0.75)
        if cls is not None:
            c.update({"cls": cls, "pos": pos})
        else:
            c["kw"] = rng.choice(JSON_KW)
            if rng.random() < 0.3:
                c["pos"] = "cmp"
        ag = _again(rng, "json", 0.25)
        if ag:
            c["again"] = ag
        v = _via(rng, 0.2)
        if v:
            c["via"] = v
        out.append(c)
    return out


def gen_pydesc(rng, depth):
    """a Python list / tuple of constants, as pypika wraps it itself (Term.wrap_constant: field == [1, 2])"""
    items = []
    for _ in range(rng.choice([0, 1, 2, 3])):
        r = rng.random()
        if depth > 0 and r < 0.25:
            items.append(gen_pydesc(rng, depth - 1))
        elif r < 0.6:
            items.append(["int", rng.choice([0, 1, -5, 42])])
        else:
            items.append(["str", rng.choice(["a", "a,b", "x'y", "("])])
    return [rng.choice(["pylist", "pylist", "pytuple"]), items]


def _via(rng, p):
    """builder methods that copy the term (or the statement / criterion around it) before it is rendered"""
    if rng.random() >= p:
        return None
    return rng.choice([["rt"], ["as"], ["rtq"], ["rt", "as"], ["as", "rtq"], ["rt", "rtq"], ["rt", "as", "rtq"], ["rt", "rt"]])


def gen_sdesc(rng, depth):
    r = rng.random()
    if depth <= 0 or r < 0.55:
        s = rng.random()
        if s < 0.25:
            return ["int", rng.choice([0, 1, -5, 42, 1000000])]
        if s < 0.50:
            return ["str", rng.choice(["a", "a,b", "x'y", "(", "]", 'q"r', "", "f(1,2)", "[1,2]", "ARRAY[", "'{}'", "a, b"])]
        if s < 0.62:
            return ["field", rng.choice(["a", "b", "col"])]
        if s < 0.70:
            return ["tfield", rng.choice(["a", "c"])]
        if s < 0.80:
            return ["fn", rng.choice(["a", "b"]), rng.choice(["x", "y,z", "it's"])]
        if s < 0.87:
            return ["arith", rng.choice(["a", "b"])]
        if s < 0.92:
            return ["null"]
        if s < 0.96:
            return ["interval", rng.choice([1, 10, -3])]
        return ["json"]
    n = rng.choice([0, 0, 1, 2, 3, 4])
    if rng.random() < 0.15:
        return gen_pydesc(rng, depth)
    if r < 0.75:
        return ["array", [gen_sdesc(rng, depth - 1) for _ in range(n)]]
    if r < 0.95:
        return ["tuple", [gen_sdesc(rng, depth - 1) for _ in range(n)]]
    return ["bracket", gen_sdesc(rng, depth - 1)]


def gen_seqs(rng, n):
    out = []
    dch = ["POSTGRESQL", "REDSHIFT", None, "MYSQL", "ORACLE", "VERTICA", "MSSQL", "CLICKHOUSE", "SQLLITE", "SNOWFLAKE"]
    w = [4, 3, 3, 2, 1, 1, 1, 1, 1, 1]
    for _ in range(n):
        kind = rng.choices(["array", "tuple", "bracket", "py"], [6, 3, 1, 1])[0]
        depth = rng.choice([0, 1, 1, 2, 3])
        if kind == "py":
            t = gen_pydesc(rng, min(depth, 2))
        elif kind == "bracket":
            t = ["bracket", gen_sdesc(rng, depth)]
        else:
            t = [kind, [gen_sdesc(rng, depth) for _ in range(rng.choice([0, 1, 2, 3, 3, 5]))]]
        c = {"kind": "seq", "d": rng.choices(dch, w)[0], "t": t}
        cls, pos = _pick_ctx(rng, 0.6)
        if cls is not None:
            c.update({"d": None, "cls": cls, "pos": pos})
        else:
            _own_ctx(rng, c)
        ag = _again(rng, "seq", 0.35)
        if ag:
            c["again"] = ag
        v = _via(rng, 0.4)
        if v:
            c["via"] = v
        out.append(c)
    return out


def gen_cases(rng, tier):
    if tier == "quick":
        ni, nt, nr, nj, ns = 640, 400, 100, 330, 330
    else:
        ni, nt, nr, nj, ns = 6000, 3000, 600, 2200, 2200
    return gen_intervals(rng, ni) + gen_trims(rng, nt) + gen_reads(rng, nr) + gen_jsons(rng, nj) + gen_seqs(rng, ns)


def _corpus_files():
    import glob
    import os
    from harness import lib
    out = []
    for path in sorted(glob.glob(os.path.join(lib.VERIF, "corpus", "C20", "*.json"))):
        with open(path) as f:
            out += _json.load(f)
    return out


def corpus():
    def iv(vals, q=0, w=0, dc=None, dr=None):
        return {"kind": "interval", "vals": vals, "q": q, "w": w, "dc": dc, "dr": dr}
    z = [0] * 7
    out = _corpus_files() + [      # corpus/C20/*.json: witnesses of the known findings and minimised failures
        iv([0, 0, 0, 0, 0, 1, 5]), iv([0, 0, 0, 0, 0, 10, 0]), iv([0, 0, 0, 10, 0, 0, 0]), iv([0, 0, 0, 100, 0, 100, 0]),
        iv([0, 0, 0, 0, 0, 0, 10]), iv([10, 0, 0, 0, 0, 0, 10]), iv(z), iv([1, 0, 1, 0, 0, 0, 0], dr="MYSQL"),
        iv([0, 0, -1, -2, 0, 0, 0], dc="ORACLE", dr="POSTGRESQL"), iv([0, 0, 1, 0, 0, 0, 0], dc="VERTICA"),
        iv([0, 0, 1, 0, 0, 0, 0], dr="REDSHIFT"), iv([0, 0, 1, 0, 0, 0, 0], dr="MSSQL"),
        iv(z, q=-3), iv(z, w=12, dr="ORACLE"), iv([0, 0, 1, 0, 0, 0, 0], q=2, w=3), iv([0, 0, 1, -2, 0, 0, 0]),
        {"kind": "trim", "s": "0-0-0 0:0:0.0"}, {"kind": "trim", "s": "0.5"}, {"kind": "trim", "s": "1-0-0 10:0:0.0"},
        {"kind": "read", "u": "SECOND_MICROSECOND", "e": "1.5"}, {"kind": "read", "u": "DAY_SECOND", "e": "-10 0:0:100"},
        {"kind": "json", "v": ["d", [[["s", "a"], ["l", [["i", 1], ["f", "1.5"], ["s", "x y"], ["d", []]]]]]]},
        {"kind": "json", "v": ["n"]}, {"kind": "json", "v": ["d", [[["i", 3], ["l", [["i", 1]]]]]]},
        {"kind": "seq", "d": "POSTGRESQL", "t": ["array", []]}, {"kind": "seq", "d": "REDSHIFT", "t": ["array", [["array", []], ["int", 1]]]},
        {"kind": "seq", "d": None, "t": ["array", []]}, {"kind": "seq", "d": "MYSQL", "t": ["tuple", []]},
        {"kind": "seq", "d": "POSTGRESQL", "t": ["array", [["str", "a,b"], ["tuple", [["int", 1], ["str", "x'y"]]], ["fn", "a", "y,z"]]]},
        {"kind": "seq", "d": "POSTGRESQL", "t": ["array", [["str", ""]]]},
        {"kind": "seq", "d": None, "t": ["bracket", ["arith", "a"]]},
    ]
    for cls in range(len(CLASS_NAMES)):
        for pos in POSITIONS:
            out.append({"kind": "json", "v": ["d", [[["s", "a"], ["l", [["s", "foo"], ["i", 1]]]]]], "cls": cls, "pos": pos})
        pos = POSITIONS[cls % len(POSITIONS)]
        out.append(dict(iv([0, 0, -1, -20, 0, 0, 0]), cls=cls, pos=pos))
        out.append({"kind": "seq", "d": None, "t": ["array", [["str", "a,b"], ["array", []], ["field", "x"]]], "cls": cls, "pos": pos})
        out.append({"kind": "seq", "d": None, "t": ["array", []], "cls": cls, "pos": POSITIONS[(cls + 1) % len(POSITIONS)]})
    for kw in JSON_KW:
        out.append({"kind": "json", "v": ["d", [[["s", "k"], ["s", "v"]]]], "kw": kw})
    # explicit keyword arguments that omit conventions: every subset x PostgreSQL-like / other dialects x empty arrays
    # (top level, nested) x rendered on its own / inside a bare comparison
    for d in ("POSTGRESQL", "REDSHIFT", "MYSQL", None):
        for omit in SUBSETS:
            for t in (["array", []], ["array", [["int", 1], ["array", []]]], ["tuple", [["array", []], ["str", "a"]]]):
                for pos in ("direct", "cmp"):
                    out.append({"kind": "seq", "d": d, "t": t, "omit": omit, "pos": pos})
    for omit in SUBSETS:
        out.append(dict(iv([0, 0, 1, 2, 0, 0, 0], dr="ORACLE"), omit=omit, pos="cmp"))
        out.append(dict(iv([0, 0, 0, 0, 0, 3, 40], dr="POSTGRESQL"), omit=omit))
    for kw in JSON_KW:
        out.append({"kind": "json", "v": ["d", [[["s", "k"], ["l", [["s", "it's"], ["n"]]]]]], "kw": kw, "pos": "cmp"})
    # the bracket form survives every builder method that copies the term or what encloses it
    terms = [["array", [["tfield", "a"], ["int", 7]]], ["tuple", [["tfield", "a"], ["int", 1], ["int", 2]]],
             ["bracket", ["arith", "a"]], ["pylist", [["int", 1], ["str", "x"], ["pylist", [["int", 2]]]]],
             ["pytuple", [["int", 1], ["pylist", []]]], ["array", [["array", []], ["tuple", [["str", "x"], ["str", "y"]]]]]]
    ctxs = [{"d": "POSTGRESQL"}, {"d": None, "pos": "cmp"}, {"d": "REDSHIFT", "pos": "cmp"}, {"d": None, "cls": 4, "pos": "select"},
            {"d": None, "cls": 5, "pos": "where"}, {"d": None, "cls": 0, "pos": "insert"}, {"d": None, "cls": 1, "pos": "fnarg"}]
    for t in terms:
        for via in (["rt"], ["as"], ["rtq"], ["rt", "as", "rtq"]):
            for ctx in ctxs:
                out.append(dict({"kind": "seq", "t": t, "via": via}, **ctx))
    out.append(dict(iv([0, 0, 1, 2, 0, 0, 0], dr="MYSQL"), via=["rt", "rtq"], pos="cmp"))
    out.append({"kind": "json", "v": ["d", [[["s", "k"], ["s", "v"]]]], "cls": 4, "pos": "where", "via": ["rt", "as", "rtq"]})
    # one object, several renderings (a module-level Interval constant used by statements of several dialects)
    out.append(dict(iv([0, 0, 1, 2, 0, 0, 0], dr="MYSQL"), again=[{"dr": None}, {"dr": "POSTGRESQL"}, {"dr": "ORACLE"}]))
    out.append(dict(iv([0] * 7, w=3, dr="POSTGRESQL"), again=[{"dr": "ORACLE"}, {"dr": None}]))
    out.append(dict(iv([0, 0, 1, 2, 0, 0, 0]), cls=1, pos="select", again=[{"cls": 4, "pos": "select"}, {"cls": 0, "pos": "direct"}, {"cls": 3, "pos": "where"}]))
    out.append(dict(iv([0, 0, 1, 0, 0, 0, 0], dc="MYSQL", dr="POSTGRESQL"), again=[{"dr": None}, {"cls": 4, "pos": "fnarg"}]))
    out.append({"kind": "seq", "d": None, "t": ["array", [["int", 10], ["str", "a"], ["array", [["int", 20], ["int", 30]]], ["interval", 1]]],
                "again": [{"d": "POSTGRESQL"}, {"d": "MYSQL"}, {"cls": 5, "pos": "select"}]})
    out.append({"kind": "seq", "d": "POSTGRESQL", "t": ["tuple", [["int", 7], ["array", [["int", 8], ["array", [["str", "x"]]]]]]],
                "again": [{"d": None}]})
    out.append({"kind": "json", "v": ["d", [[["s", "a"], ["s", "foo"]]]], "cls": 1, "pos": "select",
                "again": [{"cls": 3, "pos": "direct"}, {"kw": {"quote_char": "`"}}]})
    return out


# ------------------------------------------------------------------------------------------------
# implementation
# ------------------------------------------------------------------------------------------------
def subcases(case):
    """The renderings of a case: its own context, then (key "again") the SAME term object under further contexts."""
    base = {k: v for k, v in case.items() if k != "again"}
    subs = [base]
    for ctx in case.get("again") or []:
        sub = {k: v for k, v in base.items() if k not in ("cls", "pos", "kw", "omit")}
        sub.update(ctx)
        subs.append(sub)
    return subs


def sbuild_counted(d, counters):
    """Like sbuild, but every leaf element counts the calls of its get_sql (one slot per leaf, in order)."""
    from pypika.terms import Array, Tuple, Bracket
    ch = s_children(d)
    if d[0] in ("pylist", "pytuple"):
        return sbuild(d)            # constants wrapped by pypika itself: no counting leaves
    if ch is None:
        t = sbuild(d)
        slot = [0]
        counters.append(slot)
        orig = t.get_sql

        def counted(*a, **k):
            # Term.__hash__ calls get_sql(with_alias=True, with_namespace=True) without a context (sets of fields when a
            # statement validates its tables): every other call is a rendering (elements of a Tuple/Array never receive with_alias)
            if not (k.get("with_alias") is True and set(k) <= {"with_alias", "with_namespace"}):
                slot[0] += 1
            return orig(*a, **k)
        t.get_sql = counted
        return t
    kids = [sbuild_counted(c, counters) for c in ch]
    if d[0] == "tuple":
        return Tuple(*kids)
    if d[0] == "array":
        return Array(*kids)
    return Bracket(kids[0])


def _placeholders(desc, kw):
    """(placeholders in the text, values collected) when the term is rendered with a parameter collector."""
    from pypika.terms import QmarkParameter
    p = QmarkParameter()
    sql = sbuild(desc).get_sql(parameter=p, **kw)
    return [sql.count("?"), len(p.get_parameters())]


VIA_OPS = ["rt", "as", "rtq"]


def apply_via(term, via):
    """the term reached through builder methods that copy it: "rt" = term.replace_table(t, t'), "as" =
    term.as_("al").as_(None); ("rtq" = replace_table on the enclosing statement / criterion: render_in_context)"""
    from pypika import Table
    for op in via:
        if op == "rt" and hasattr(term, "replace_table"):
            # t -> an equal Table("t"): every copying step of replace_table runs, and the term can still be put
            # into a statement over t without a second table (which would switch namespaces on everywhere)
            term = term.replace_table(Table("t"), Table("t"))
        elif op == "as" and hasattr(term, "as_"):
            term = term.as_("al").as_(None)
        elif op not in VIA_OPS:
            raise ValueError("unknown via operation %r" % (op,))
    return term


def run_impl(case):
    k = case["kind"]
    try:
        if k == "trim":
            from pypika.terms import Interval
            return {"out": Interval.trim_pattern.sub("", case["s"])}
        if k == "read":
            return {"rd": py_read(case["u"], case["e"])}
        counters = []
        if k == "interval":
            from pypika.terms import Interval
            v = case["vals"]
            term = Interval(years=v[0], months=v[1], days=v[2], hours=v[3], minutes=v[4], seconds=v[5], microseconds=v[6],
                            quarters=case["q"], weeks=case["w"], dialect=_dialect(case["dc"]))
        elif k == "json":
            from pypika.terms import JSON
            term = JSON(jbuild(case["v"]))
        elif k == "seq":
            term = sbuild_counted(case["t"], counters)
        else:
            raise ValueError(k)
        term = apply_via(term, case.get("via") or [])
        outs, calls, pq = [], [], []
        for sub in subcases(case):          # the same object, one rendering after the other
            for slot in counters:
                slot[0] = 0
            outs.append(render_in_context(term, sub))
            # under the driver's history perturbation (case key "_pre": every statement is rendered three times)
            # the number of renderings per element is not an observation of the term
            calls.append(None if case.get("_pre") else [slot[0] for slot in counters])
            if k == "seq":
                pq.append(_placeholders(case["t"], case_kwargs(sub)[0]))
        res = {"out": outs[0], "outs": outs}
        if k == "seq":
            res.update({"calls": calls, "pq": pq})
        return res
    except Exception as ex:  # noqa
        return {"exc": type(ex).__name__, "msg": str(ex)[:300]}


# ------------------------------------------------------------------------------------------------
# model side
# ------------------------------------------------------------------------------------------------
def to_coq(case, outcome):
    if "harness_exc" in outcome:
        raise RuntimeError("run_impl failed outside pypika: " + str(outcome["harness_exc"]))
    if "exc" in outcome:
        return None
    if "outs" not in outcome:
        return _to_coq_one(case, outcome)
    subs = subcases(case)
    texts = [_to_coq_one(sub, {"out": out}) for sub, out in zip(subs, outcome["outs"])]
    return texts[0] if len(texts) == 1 else "(CMany %s)" % L(texts)


def _to_coq_one(case, outcome):
    k = case["kind"]
    if k == "interval":
        _, dname = case_kwargs(case)
        return "(CInterval %s %s %s %s %s %s)" % (L([Zc(v) for v in case["vals"]]), Zc(case["q"]), Zc(case["w"]),
                                                   _dcoq(case["dc"]), _dcoq(dname), S(outcome["out"]))
    if k == "trim":
        return "(CTrim %s %s)" % (S(case["s"]), S(outcome["out"]))
    if k == "read":
        rd = outcome["rd"]
        return "(CRead %s %s %s)" % (S(case["u"]), S(case["e"]),
                                     "None" if rd is None else "(Some %s)" % P(B(rd[0]), L([Zc(v) for v in rd[1]])))
    if k == "json":
        v = jbuild(case["v"])
        finite = all(not (isinstance(x, float) and (x != x or abs(x) == float("inf"))) for x in _jwalk(v))
        dumps = _json.dumps(v, separators=(",", ":"), ensure_ascii=False) if finite else None
        dec = py_sql_decode(outcome["out"])
        kw, dname = case_kwargs(case)
        ctx = "(mkCtx %s %s %s %s)" % (OS_(kw.get("quote_char")), OS_(kw.get("secondary_quote_char", "'")),
                                       OS_(kw.get("alias_quote_char")), _dcoq(dname))
        return "(CJson %s %s %s %s %s)" % (ctx, jcoq(v), S(outcome["out"]), O(None if dumps is None else S(dumps)),
                                           O(None if dec is None else S(dec)))
    if k == "seq":
        toks = py_elements(outcome["out"])
        kw, dname = case_kwargs(case)
        return "(CSeq %s %s %s %s)" % (_dcoq(dname), scoq(case["t"], kw), S(outcome["out"]),
                                       O(None if toks is None else L([S(x) for x in toks])))
    raise ValueError(k)


# ------------------------------------------------------------------------------------------------
# oracle: exactly the observables of the property
# ------------------------------------------------------------------------------------------------
def _interval_expectation(case):
    """What the property promises: ("fields", vals) for year..microsecond counts, ("single", unit, value) for
    quarters / weeks, or None when the input is outside the quantifier."""
    v, q, w = case["vals"], case["q"], case["w"]
    nz = [i for i, x in enumerate(v) if x]
    if q and not w and not nz:
        return ["single", "QUARTER", q]
    if w and not q and not nz:
        return ["single", "WEEK", w]
    if q or w:
        return None
    if not (all(x >= 0 for x in v) or all(x <= 0 for x in v)):
        return None
    return ["fields", v]


def oracle_interval(case, outcome):
    exp = _interval_expectation(case)
    if exp is None:
        return []
    if "exc" in outcome:
        return [{"signature": ["C20", "interval", "exception:" + outcome["exc"]], "what": "Interval raised %s on %r" % (outcome["exc"], case)}]
    out = outcome["out"]
    eff = case["dc"] or case_kwargs(case)[1]
    if eff in EXPR_ONLY_QUOTED:
        m = _re.fullmatch(r"INTERVAL '([^']*)' ([A-Z_]+)", out)
    else:
        m = _re.fullmatch(r"INTERVAL '([^']*) ([A-Z_]+)'", out)
    if not m:
        return [{"signature": ["C20", "interval", "template:" + str(eff)],
                 "what": "%r is not in the interval template of dialect %s (inputs %r)" % (out, eff, case)}]
    expr, unit = m.group(1), m.group(2)
    rd = py_read(unit, expr)
    if rd is None:
        return [{"signature": ["C20", "interval", "unreadable:" + unit],
                 "what": "expression %r cannot be read with unit %s (inputs %r)" % (expr, unit, case)}]
    if exp[0] == "single":
        if unit != exp[1]:
            return [{"signature": ["C20", "interval", "unit:" + exp[1]],
                     "what": "%r names unit %s, built from %s (inputs %r)" % (out, unit, exp[1].lower() + "s", case)}]
        given, negative = {0: abs(exp[2])}, exp[2] < 0
        a = b = 0
    else:
        parts = unit.split("_", 1)
        if parts[0] not in LABELS or parts[-1] not in LABELS:
            return [{"signature": ["C20", "interval", "unit:" + unit],
                     "what": "%r names unit %s, built from year..microsecond counts (inputs %r)" % (out, unit, case)}]
        a, b = LABELS.index(parts[0]), LABELS.index(parts[-1])
        given = {k: abs(x) for k, x in enumerate(exp[1])}
        negative = any(x < 0 for x in exp[1])
    got = {k: 0 for k in given}
    for k, x in zip(range(a, b + 1), rd[1]):
        got[k] = x
    if got != given:
        return [{"signature": ["C20", "interval", "fields:" + unit],
                 "what": "%r reads back as fields %r of %s, built from %r (inputs %r)" % (out, rd[1], unit, given, case)}]
    if any(given.values()) and rd[0] != negative:
        return [{"signature": ["C20", "interval", "sign-lost:" + unit],
                 "what": "%r reads back with negative=%r, built with negative=%r (inputs %r)" % (out, rd[0], negative, case)}]
    return []


def _ctx_text(case):
    return _ctx_text0(case) + (" after %s" % "+".join(case["via"]) if case.get("via") else "")


def _ctx_text0(case):
    if case.get("cls") is not None:
        return "%s / %s" % (CLASS_NAMES[case["cls"]], case.get("pos") or "direct")
    kw = case_kwargs(case)[0]
    return "%sget_sql(%s)" % ("comparison." if case.get("pos") == "cmp" else "",
                              ", ".join("%s=%s" % (a, getattr(b, "name", repr(b))) for a, b in sorted(kw.items())))


def oracle_json(case, outcome):
    v = jbuild(case["v"])
    if not j_in_quantifier(v):
        return []
    ctx = _ctx_text(case)
    if "exc" in outcome:
        return [{"signature": ["C20", "json", "exception:" + outcome["exc"]],
                 "what": "JSON(%r) under %s raised %s: %s" % (v, ctx, outcome["exc"], outcome.get("msg"))}]
    out = outcome["out"]
    if case_kwargs(case)[0].get("secondary_quote_char", "'") != "'":
        return []        # not a standard SQL string literal by request of the caller
    cause = j_cause(v)
    content = py_sql_decode(out)
    if content is None:
        return [{"signature": ["C20", "json", cause],
                 "what": "JSON(%r) under %s renders %r which is not one SQL string literal" % (v, ctx, out)}]
    try:
        back = _json.loads(content)
    except ValueError:
        return [{"signature": ["C20", "json", cause],
                 "what": "JSON(%r) under %s renders the literal content %r which is not valid JSON" % (v, ctx, content)}]
    if not j_same(back, v):
        return [{"signature": ["C20", "json", cause],
                 "what": "JSON(%r) under %s: content %r decodes to %r" % (v, ctx, content, back)}]
    return []


def oracle_seq_desc(d, kw, dname, viols, out=None):
    ch = s_children(d)
    if ch is None:
        return
    kind = skind(d)
    if out is None:
        out = sbuild(d).get_sql(**kw)
    exp_elems = [sbuild(c).get_sql(**kw) for c in ch]
    pg = getattr(kw.get("dialect"), "name", None) in ("POSTGRESQL", "REDSHIFT")
    if kind == "tuple":
        form_ok = out.startswith("(") and out.endswith(")")
        form = "round"
    elif pg:
        form_ok = (out == "'{}'") if not ch else (out.startswith("ARRAY[") and out.endswith("]"))
        form = "postgresql-empty" if not ch else "postgresql-ARRAY"
    else:
        form_ok = out.startswith("[") and out.endswith("]")
        form = "square"
    if not form_ok:
        viols.append({"signature": ["C20", kind, "bracket-form:" + form],
                      "what": "%s of %d elements renders %r under dialect %s" % (kind, len(ch), out, dname)})
    elif all(x != "" for x in exp_elems):      # an element with empty text cannot be told from no element
        toks = py_elements(out)
        if toks != exp_elems:
            viols.append({"signature": ["C20", kind, "elements"],
                          "what": "%r has elements %r, built from %r (dialect %s)" % (out, toks, exp_elems, dname)})
    for c in ch:
        oracle_seq_desc(c, kw, dname, viols)


def oracle(case, outcome):
    if "outs" not in outcome:
        return _oracle_one(case, outcome)
    subs = subcases(case)
    seen, res = set(), []
    for i, (sub, out) in enumerate(zip(subs, outcome["outs"])):
        o = {"out": out}
        if "calls" in outcome:
            o.update({"calls": outcome["calls"][i], "pq": outcome["pq"][i]})
        for v in _oracle_one(sub, o):
            key = _json.dumps(v["signature"])
            if key in seen:
                continue
            seen.add(key)
            if i > 0:
                v = dict(v, what="rendering #%d of ONE term object (earlier contexts: %s): %s" % (
                    i + 1, "; ".join(_ctx_full(x) for x in subs[:i]), v["what"]))
            res.append(v)
    return res


def _ctx_full(case):
    if case.get("cls") is not None:
        return _ctx_text(case)
    return _ctx_text(case)


def _oracle_one(case, outcome):
    k = case["kind"]
    if k == "interval":
        return oracle_interval(case, outcome)
    if k == "json":
        return oracle_json(case, outcome)
    if k == "seq":
        if "exc" in outcome:
            return [{"signature": ["C20", "seq", "exception:" + outcome["exc"]], "what": "rendering raised %s on %r" % (outcome["exc"], case)}]
        viols = []
        kw, dname = case_kwargs(case)
        dname = "%s [%s]" % (dname, _ctx_text(case)) if case.get("cls") is not None else dname
        oracle_seq_desc(case["t"], kw, dname, viols, out=outcome["out"])
        kind = skind(case["t"])
        calls = outcome.get("calls") or []
        if any(c != 1 for c in calls):      # calls is None under the history perturbation
            viols.append({"signature": ["C20", kind, "element-not-rendered-once"],
                          "what": "%r: the leaf elements were rendered %r times (each must be rendered once) under %s"
                                  % (outcome["out"], calls, dname)})
        pq = outcome.get("pq")
        if pq and pq[0] != pq[1]:
            viols.append({"signature": ["C20", kind, "parameters-collected-vs-placeholders"],
                          "what": "rendered with a parameter collector under %s: %d placeholders but %d collected values (term %r)"
                                  % (dname, pq[0], pq[1], case["t"])})
        seen, out = set(), []
        for v in viols:
            key = _json.dumps(v["signature"])
            if key not in seen:
                seen.add(key)
                out.append(v)
        return out
    return []


# ------------------------------------------------------------------------------------------------
# evidence helpers
# ------------------------------------------------------------------------------------------------
def nontrivial_key(case):
    k = case["kind"]
    if k == "interval":
        nz = [x for x in case["vals"] if x]
        if len(nz) >= 2 or any(abs(x) >= 10 for x in nz) or case["q"] or case["w"]:
            return _json.dumps(case, sort_keys=True)
        return None
    if k == "trim":
        return "trim:" + case["s"] if len(case["s"]) >= 3 else None
    if k == "read":
        return "read:%s:%s" % (case["u"], case["e"]) if "_" in case["u"] else None
    if k == "json":
        return _json.dumps(case, sort_keys=True) if case["v"][0] in ("l", "d") and case["v"][1] else None
    if k == "seq":
        ch = s_children(case["t"]) or []
        if not ch or any(s_children(c) is not None for c in ch) or len(ch) >= 2:
            return _json.dumps(case, sort_keys=True)
    return None


def histogram(cases):
    h = {}

    def inc(key):
        h[key] = h.get(key, 0) + 1
    for c in cases:
        k = c["kind"]
        inc("kind=" + k)
        if c.get("again"):
            inc("%s.rendered_%d_times" % (k, 1 + len(c["again"])))
        if c.get("via"):
            inc("%s.via=%s" % (k, "+".join(c["via"])))
        if k in ("interval", "json", "seq"):
            inc("%s.ctx=%s/%s" % (k, "own-kwargs" if c.get("cls") is None else CLASS_NAMES[c["cls"]], c.get("pos") or "direct"))
            if c.get("cls") is None and "omit" in c:
                inc("%s.omitted=%s" % (k, "+".join(c["omit"]) or "nothing"))
        if k == "interval":
            nz = [i for i, x in enumerate(c["vals"]) if x]
            inc("interval.nonzero_fields=%d" % len(nz))
            if nz and any(not c["vals"][i] for i in range(nz[0], nz[-1])):
                inc("interval.interior_zero")
            if any(x and x % 10 == 0 for x in c["vals"]):
                inc("interval.value_ends_in_0")
            if any(x < 0 for x in c["vals"]):
                inc("interval.negative")
            inc("interval.dialect=%s/%s" % (c["dc"], case_kwargs(c)[1]))
            if c["q"] or c["w"]:
                inc("interval.quarter_or_week")
            if _interval_expectation(c) is None:
                inc("interval.outside_quantifier")
        elif k == "json":
            v = jbuild(c["v"])
            inc("json.in_quantifier=%s" % j_in_quantifier(v))
            inc("json.cause=" + j_cause(v))
        elif k == "seq":
            inc("seq.%s.%s.n=%d" % (c["t"][0], case_kwargs(c)[1], len(s_children(c["t"]) or [])))
    return h


def targeted_search(rng, broken, mism_cases):
    out = []
    out += gen_intervals(rng, 3000)
    out += gen_jsons(rng, 600)
    out += gen_seqs(rng, 600)
    # dense small grid: every pair of fields with values whose text ends in zeros
    for a in range(7):
        for b in range(a, 7):
            for va in (1, 10, 100, 1000000, 205):
                for vb in (1, 10, 100, 50):
                    for sg in (1, -1):
                        vals = [0] * 7
                        vals[a] = sg * va
                        vals[b] = sg * vb
                        out.append({"kind": "interval", "vals": vals, "q": 0, "w": 0, "dc": None, "dr": rng.choice([None, "MYSQL", "POSTGRESQL"])})
    return out
