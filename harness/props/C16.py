"""C16 — table, schema and named-query identity is a coherent equality (model: coq/Ident.v).

Cases are pairs/triples of construction programs for Table / Schema / Database / AliasedQuery objects.
run_impl builds them on pypika and records ==, !=, hash(), `in [..]`, `in {..}`, `{..}.get()`;
to_coq prints programs + observations; the model (coq/IdentCorr.v) recomputes every observation on the
attribute lists that extract() regenerates from the code under test by probing the real classes.
The oracle evaluates the laws of the property on the recorded observations of the real objects."""
import json

from harness.lib import S, OS, B, N, L, O, P

ID = "C16"
COQ_PROP = "props/C16.v"
CORR_REQUIRE = ["Ident", "gen.C16Table", "IdentCorr"]
CORR_CHECK = "check_case"
CORR_SHOW = "show_case"
GEN_FILES = ["gen/C16Table.v"]
SHARD = 250
RULE = ("pairs/triples of Table/Schema/Database/AliasedQuery construction programs: a random object, then near copies "
        "(same identity through another construction route: str / tuple / list / Schema object / attribute access; or "
        "exactly one of name, a schema level, a schema class, alias, for_ / for_portion criterion, the Query class the "
        "table is bound to (all ten dialect classes, query_cls= or X.Table), query body changed); "
        "intermediate objects are observed (hash, ==, str, set membership) at random construction steps before "
        "as_/for_/for_portion/attribute access, and every object is compared with a twin built without that history; "
        "plus independent and cross-class objects, sometimes a sub-query or set operation (not a subject: only its "
        "comparisons with the subjects and the subjects' membership in containers holding it are observed) and a malformed stream (empty schema tuple/list, second temporal "
        "clause); a case is non-trivial when two distinct objects of it compare equal or differ in exactly one "
        "attribute; distinct by the JSON of the programs")
TRUSTED = [
    "harness/props/C16.py builds the same construction program on pypika objects and as a Gallina value, and records "
    "==, !=, hash equality, list/set/dict membership of the real objects",
    "extract() (behavioural probing of the real classes: which attribute changes flip ==, != and hash) produces the "
    "attribute lists gen/C16Table.v:x_cfg on which the theorems are instantiated; the correspondence check then "
    "validates that these lists describe the code on every generated pair/triple",
    "temporal criteria and WITH-query bodies are opaque texts taken from the implementation at run time",
    "Python's hash is not computed in the model: only 'equal keys hash equal' is checked against it, and the recorded "
    "hash equalities drive the model's set/dict lookup",
]
ASSUMPTIONS = [
    "CPython container semantics: list membership is `item is x or item == x`; set/dict lookup compares only entries "
    "with an equal hash, by `is` then ==; building/looking up hashes the objects (TypeError if unhashable)",
    "names, aliases are str, alias may be None; AliasedQuery.alias (as_) is not varied",
]
ALLOWED_AXIOMS = []

KIND_NAMES = ("Table", "Schema", "Database", "AliasedQuery")


# =================================================================================================
# pools of opaque sub-objects (criteria, query bodies)
# =================================================================================================
def _for_pool():
    from pypika import SYSTEM_TIME, Field
    return [SYSTEM_TIME.as_of("2020-01-01"), SYSTEM_TIME.as_of("2021-06-30"),
            SYSTEM_TIME.between("2020-01-01", "2020-02-01"), SYSTEM_TIME.from_to("2020-01-01", "2020-02-01"),
            SYSTEM_TIME.all_(), Field("valid_period").between("2020-01-01", "2020-02-01")]


def _portion_pool():
    from pypika import SYSTEM_TIME, Field
    return [SYSTEM_TIME.from_to("2020-01-01", "2020-02-01"), SYSTEM_TIME.from_to("2021-01-01", "2021-02-01"),
            Field("valid_period").from_to("2020-01-01", "2020-02-01")]


def _body_pool():
    from pypika import Query, Field
    tagged = Query.from_("t").select("c")
    Query.from_(tagged)                       # from_() names an un-aliased sub-query in place: tagged.alias == "sq0"
    return [Query.from_("t").select("*"), Query.from_("u").select("a", "b"),
            Query.from_("t").select("a").where(Field("a") == 1),
            # wrapped queries that carry an alias of their own (QueryBuilder.__eq__ compares the alias only)
            Query.from_("t").select("a").as_("x"), Query.from_("t").select("b").as_("y"),
            Query.from_("u").select("a").as_("x"), tagged]


def _other_pool():
    """selectables that are NOT subjects of the property (sub-queries, set operations) but share the FROM / JOIN
    lists with tables: only their relation to the subjects is observed (see design.d/C16.md)"""
    from pypika import Query
    q = Query.from_("a").select("*")
    u = Query.from_("t").select("x").union(Query.from_("u").select("x"))
    return [q, q.as_("t"), u, u.as_("t"), Query.from_("t").select("x").as_("u")]


N_FOR, N_PORTION, N_BODY, N_OTHER = 6, 3, 7, 5

# the Query classes a table can be bound to (Table(.., query_cls=X) or X.Table(..)); None = the default (Query)
QCLS = ["Query", "MySQLQuery", "OracleQuery", "PostgreSQLQuery", "MSSQLQuery", "VerticaQuery", "RedshiftQuery",
        "SQLLiteQuery", "ClickHouseQuery", "SnowflakeQuery"]


def _qcls(name):
    import pypika
    import pypika.dialects
    return getattr(pypika, name, None) or getattr(pypika.dialects, name)


def for_text(i):
    return _for_pool()[i].get_sql(quote_char='"')


def portion_text(i):
    return _portion_pool()[i].get_sql(quote_char='"')


def body_text(i):
    q = _body_pool()[i]
    return str(q) + ("" if q.alias is None else " AS " + q.alias)


# =================================================================================================
# building the objects of a case on pypika
# =================================================================================================
def _observe(x):
    """use the object the way statements do (hash, ==, rendering, set membership) and go on deriving from it"""
    try:
        hash(x)
        x in {x}                                    # noqa
    except TypeError:
        pass
    x == x                                          # noqa
    x != x                                          # noqa
    str(x)
    return x


def strip_obs(p):
    """the same construction program without the intermediate observations"""
    if isinstance(p, dict):
        q = {k: strip_obs(v) for k, v in p.items()}
        if "ops" in q:
            q["ops"] = [o for o in q["ops"] if o[0] != "obs"]
        return q
    if isinstance(p, list):
        if len(p) == 2 and p[0] == "obs" and isinstance(p[1], list):
            return strip_obs(p[1])
        return [strip_obs(x) for x in p]
    return p


def build_sprog(p):
    from pypika import Schema, Database
    k = p[0]
    if k == "obs":
        return _observe(build_sprog(p[1]))
    if k == "new":
        return (Database if p[1] else Schema)(p[2])
    if k == "sub":
        return (Database if p[1] else Schema)(p[2], parent=build_sprog(p[3]))
    if k == "attr":
        return getattr(build_sprog(p[1]), p[2])
    raise ValueError(k)


def build_obj(p):
    from pypika import Table, AliasedQuery
    k = p["k"]
    if k == "S":
        return build_sprog(p["prog"])
    if k == "O":
        return _other_pool()[p["idx"]]
    if k == "A":
        if p["body"] is None:
            return AliasedQuery(p["name"])
        if p.get("via") == "with":
            # the object a statement stores for  Query.with_(body, name)
            from pypika import Query
            return Query.with_(_body_pool()[p["body"]], p["name"]).from_(AliasedQuery(p["name"])).select("*")._with[0]
        return AliasedQuery(p["name"], _body_pool()[p["body"]])
    r = p["route"]
    kw = {} if p["alias"] is None else {"alias": p["alias"]}
    q = p.get("qcls")
    if q is not None and q[0] == "cm":
        def Table(name, **k):                     # noqa: the classmethod route X.Table(name, ...)
            return _qcls(q[1]).Table(name, **k)
    elif q is not None:
        kw["query_cls"] = _qcls(q[1])
    if r[0] == "none":
        t = Table(p["name"], **kw)
    elif r[0] == "str":
        t = Table(p["name"], schema=r[1], **kw)
    elif r[0] == "tuple":
        t = Table(p["name"], schema=tuple(r[1]), **kw)
    elif r[0] == "list":
        t = Table(p["name"], schema=list(r[1]), **kw)
    elif r[0] == "obj":
        t = Table(p["name"], schema=build_sprog(r[1]), **kw)
    elif r[0] == "attr":
        t = getattr(build_sprog(r[1]), p["name"])
    else:
        raise ValueError(r[0])
    for op in p["ops"]:
        if op[0] == "obs":
            t = _observe(t)
        elif op[0] == "as":
            t = t.as_(op[1])
        elif op[0] == "for":
            t = t.for_(_for_pool()[op[1]])
        elif op[0] == "portion":
            t = t.for_portion(_portion_pool()[op[1]])
        else:
            raise ValueError(op[0])
    return t


def _rb(f):
    """result of a comparison / membership test: True, False or '!ExceptionName'"""
    try:
        r = f()
    except Exception as e:  # noqa
        return "!" + type(e).__name__
    if r is True or r is False:
        return r
    return "!nonbool_" + type(r).__name__


def _subsets(n):
    out = [[j] for j in range(n)]
    out += [[j, k] for j in range(n) for k in range(n) if j < k]
    return out


def run_impl(case):
    progs = case["objs"]
    objs, build = [], []
    for p in progs:
        try:
            objs.append(build_obj(p))
            build.append(None)
        except Exception as e:  # noqa
            objs.append(None)
            build.append(type(e).__name__)
    ok = [i for i in range(len(objs)) if build[i] is None]
    n = len(objs)
    out = {"build": build, "cls": [type(o).__name__ if o is not None else None for o in objs]}
    out["eq"] = [[_rb(lambda: objs[i] == objs[j]) if i in ok and j in ok else None for j in range(n)] for i in range(n)]
    out["ne"] = [[_rb(lambda: objs[i] != objs[j]) if i in ok and j in ok else None for j in range(n)] for i in range(n)]
    hs, hashable = {}, []
    for i in range(n):
        if i not in ok:
            hashable.append(None)
            continue
        try:
            hs[i] = hash(objs[i])
            hashable.append(True)
        except TypeError:
            hashable.append(False)
        except Exception as e:  # noqa
            hashable.append("!" + type(e).__name__)
    out["hashable"] = hashable
    out["heq"] = [[(hs[i] == hs[j]) if (i in hs and j in hs) else None for j in range(n)] for i in range(n)]
    # the same expression evaluated a second time, WITHOUT the intermediate observations: a distinct object with
    # the same identity and no history
    tw = {}
    for i in ok:
        try:
            tw[i] = build_obj(strip_obs(progs[i]))
        except Exception:  # noqa
            pass
    out["twin_eq"] = [_rb(lambda: objs[i] == tw[i]) if i in tw else None for i in range(n)]
    out["twin_ne"] = [_rb(lambda: objs[i] != tw[i]) if i in tw else None for i in range(n)]
    out["twin_heq"] = [_rb(lambda: hash(objs[i]) == hash(tw[i])) if (i in tw and i in hs) else None for i in range(n)]
    # a second hash() of the same object must give the same value
    out["hash_stable"] = [(hash(objs[i]) == hs[i]) if i in hs else None for i in range(n)]
    inl, ins, dct = [], [], []
    for i in ok:
        for js in _subsets(n):
            if any(j not in ok for j in js):
                continue
            inl.append([i, js, _rb(lambda: objs[i] in [objs[j] for j in js])])
            ins.append([i, js, _rb(lambda: objs[i] in {objs[j] for j in js})])
            dct.append([i, js, _rb(lambda: {objs[j]: j for j in js}.get(objs[i]) is not None)])
    out["inl"], out["ins"], out["dct"] = inl, ins, dct
    return out


# =================================================================================================
# model side
# =================================================================================================
def sprog_coq(p):
    if p[0] == "obs":
        return "(PObs %s)" % sprog_coq(p[1])
    if p[0] == "new":
        return "(PNew %s %s)" % (B(p[1]), S(p[2]))
    if p[0] == "sub":
        return "(PSub %s %s %s)" % (B(p[1]), S(p[2]), sprog_coq(p[3]))
    return "(PAttr %s %s)" % (sprog_coq(p[1]), S(p[2]))


def route_coq(r):
    if r[0] == "none":
        return "RNone"
    if r[0] == "str":
        return "(RStr %s)" % S(r[1])
    if r[0] in ("tuple", "list"):
        return "(RSeq %s)" % L([S(x) for x in r[1]])
    if r[0] == "obj":
        return "(RObj %s)" % sprog_coq(r[1])
    return "(RAttr %s)" % sprog_coq(r[1])


def op_coq(op):
    if op[0] == "obs":
        return "OpObs"
    if op[0] == "as":
        return "(OpAs %s)" % S(op[1])
    if op[0] == "for":
        return "(OpFor %s)" % S(for_text(op[1]))
    return "(OpPortion %s)" % S(portion_text(op[1]))


def prog_coq(p):
    if p["k"] == "S":
        return "(ProgS %s)" % sprog_coq(p["prog"])
    if p["k"] == "A":
        return "(ProgA %s %s)" % (S(p["name"]), "None" if p["body"] is None else "(Some %s)" % S(body_text(p["body"])))
    return "(ProgT {| p_name := %s; p_route := %s; p_alias := %s; p_qcls := %s; p_ops := %s |})" % (
        S(p["name"]), route_coq(p["route"]), OS(p["alias"]), S(p["qcls"][1] if p.get("qcls") else "Query"),
        L([op_coq(o) for o in p["ops"]]))


def _rb_coq(r):
    if r is True or r is False:
        return "(Ok %s)" % B(r)
    return "(Err %s)" % S(str(r)[1:])


def to_coq(case, outcome):
    if "harness_exc" in outcome:
        raise RuntimeError(outcome["harness_exc"])
    obs = []
    n = len([p for p in case["objs"] if p["k"] != "O"])
    if any(p["k"] == "O" for p in case["objs"][:n]):
        raise RuntimeError("foreign selectables must come last in a case")
    for i, e in enumerate(outcome["build"][:n]):
        obs.append("OBuild %s %s" % (N(i), OS(e)))
    for i in range(n):
        for j in range(n):
            if outcome["eq"][i][j] is not None:
                obs.append("OEq %s %s %s" % (N(i), N(j), _rb_coq(outcome["eq"][i][j])))
                obs.append("ONe %s %s %s" % (N(i), N(j), _rb_coq(outcome["ne"][i][j])))
    for i in range(n):
        if outcome["twin_eq"][i] is not None:
            obs.append("OEq %s %s %s" % (N(i), N(i), _rb_coq(outcome["twin_eq"][i])))
            obs.append("ONe %s %s %s" % (N(i), N(i), _rb_coq(outcome["twin_ne"][i])))
        if outcome["twin_heq"][i] is True or outcome["twin_heq"][i] is False:
            obs.append("OHashEq %s %s %s" % (N(i), N(i), B(outcome["twin_heq"][i])))
    for i in range(n):
        h = outcome["hashable"][i]
        if h is None:
            continue
        if h is not True and h is not False:
            raise RuntimeError("hash() raised %s (neither a value nor TypeError)" % h)
        obs.append("OHashable %s %s" % (N(i), B(h)))
    for i in range(n):
        for j in range(i, n):
            if outcome["heq"][i][j] is not None:
                obs.append("OHashEq %s %s %s" % (N(i), N(j), B(outcome["heq"][i][j])))
    for tag, key in (("OInList", "inl"), ("OInSet", "ins"), ("ODict", "dct")):
        for i, js, r in outcome[key]:
            if i >= n or any(j >= n for j in js):
                continue
            obs.append("%s %s %s %s" % (tag, N(i), L([N(j) for j in js]), _rb_coq(r)))
    return P(L([prog_coq(p) for p in case["objs"][:n]]), L(obs))


# =================================================================================================
# extraction: the attribute lists of the code under test, by probing the real classes
# =================================================================================================
class ExtractionError(Exception):
    pass


def _neg(r):
    return (not r) if (r is True or r is False) else r


def _flag(name, pairs, f, what):
    """True iff f distinguishes every probe pair, False iff none; anything else: fail closed."""
    res = []
    for a, b in pairs:
        for x, y in ((a, b), (b, a)):
            r = f(x, y)
            if r is not True and r is not False:
                raise ExtractionError("%s on a %s probe returned %r" % (what, name, r))
            res.append(r)
    if all(res):
        return True
    if not any(res):
        return False
    raise ExtractionError("%s does not treat attribute %s uniformly: %r" % (what, name, res))


def probe_cfg():
    from pypika import Table, Schema, Database, AliasedQuery
    fp, pp, bp = _for_pool(), _portion_pool(), _body_pool()

    def T(name="t", **kw):
        return Table(name, **kw)

    s_probes = {
        "SName": [(lambda: Schema("s"), lambda: Schema("r")),
                  (lambda: Schema("s", parent=Schema("p")), lambda: Schema("r", parent=Schema("p"))),
                  (lambda: Database("s"), lambda: Database("r"))],
        "SParent": [(lambda: Schema("s"), lambda: Schema("s", parent=Schema("p"))),
                    (lambda: Schema("s", parent=Schema("p")), lambda: Schema("s", parent=Schema("p", parent=Schema("g")))),
                    (lambda: Database("s"), lambda: Database("s", parent=Database("p")))],
        "SKind": [(lambda: Schema("s"), lambda: Database("s")),
                  (lambda: Schema("s", parent=Schema("p")), lambda: Database("s", parent=Schema("p")))],
    }
    t_probes = {
        "TName": [(lambda: T("t"), lambda: T("u")),
                  (lambda: T("t", schema="s", alias="a"), lambda: T("u", schema="s", alias="a"))],
        "TSchema": [(lambda: T("t"), lambda: T("t", schema="s")),
                    (lambda: T("t", alias="a"), lambda: T("t", schema=("d", "s"), alias="a"))],
        "TAlias": [(lambda: T("t"), lambda: T("t", alias="a")),
                   (lambda: T("t", schema="s", alias="a"), lambda: T("t", schema="s", alias="b")),
                   (lambda: T("t"), lambda: T("t").as_("a"))],
        "TFor": [(lambda: T("t"), lambda: T("t").for_(fp[0])),
                 (lambda: T("t", schema="s", alias="a").for_(fp[0]), lambda: T("t", schema="s", alias="a").for_(fp[2]))],
        "TPortion": [(lambda: T("t"), lambda: T("t").for_portion(pp[0])),
                     (lambda: T("t", schema="s", alias="a").for_portion(pp[0]),
                      lambda: T("t", schema="s", alias="a").for_portion(pp[1]))],
    }
    M, O_, Q = _qcls("MySQLQuery"), _qcls("OracleQuery"), _qcls("Query")
    t_probes["TQcls"] = [(lambda: T("t"), lambda: T("t", query_cls=M)),
                         (lambda: T("t", schema="s", alias="a", query_cls=O_), lambda: T("t", schema="s", alias="a", query_cls=Q)),
                         (lambda: M.Table("t", alias="a"), lambda: O_.Table("t", alias="a")),
                         (lambda: T("t", query_cls=_qcls("ClickHouseQuery")).for_(fp[0]), lambda: T("t", query_cls=_qcls("SnowflakeQuery")).for_(fp[0]))]
    ts_probes = {k: [((lambda f=f: T("t", schema=f())), (lambda g=g: T("t", schema=g()))) for f, g in v]
                 for k, v in s_probes.items()}
    a_probes = {
        "QName": [(lambda: AliasedQuery("n"), lambda: AliasedQuery("m")),
                  (lambda: AliasedQuery("n", bp[0]), lambda: AliasedQuery("m", bp[0]))],
        "QBody": [(lambda: AliasedQuery("n"), lambda: AliasedQuery("n", bp[0])),
                  (lambda: AliasedQuery("n", bp[0]), lambda: AliasedQuery("n", bp[1])),
                  (lambda: AliasedQuery("n"), lambda: AliasedQuery("n", bp[3])),
                  (lambda: AliasedQuery("n", bp[3]), lambda: AliasedQuery("n", bp[4])),
                  (lambda: AliasedQuery("n", bp[3]), lambda: AliasedQuery("n", bp[5])),
                  (lambda: AliasedQuery("n", bp[6]), lambda: AliasedQuery("n", bp[2]))],
    }

    def hashable(mk, cls):
        try:
            hash(mk())
            return True
        except TypeError:
            return False

    hk = []
    for kind, mk in (("KTable", lambda: T("t")), ("KSchema", lambda: Schema("s")), ("KDatabase", lambda: Database("d")),
                     ("KAliased", lambda: AliasedQuery("n"))):
        if hashable(mk, kind):
            hk.append(kind)
    if ("KSchema" in hk) != ("KDatabase" in hk):
        # the model keeps one key function for the Schema/Database family
        pass

    def twins(probes, what, can_hash):
        # separately built objects with the same attributes: ==, not !=, equal hashes
        for name, pairs in probes.items():
            for pr in pairs:
                for mk in pr:
                    x, y = mk(), mk()
                    if (x == y) is not True or (x != y) is not False or (x == x) is not True or (x != x) is not False:
                        raise ExtractionError("%s: ==/!= is not a function of the attributes (twin %s probe)" % (what, name))
                    if can_hash and hash(x) != hash(y):
                        raise ExtractionError("%s: hash is not a function of the attributes (twin %s probe)" % (what, name))

    def lists(probes, what, can_hash):
        twins(probes, what, can_hash)
        mat = {n: [(f(), g()) for f, g in prs] for n, prs in probes.items()}
        eq = [n for n, prs in mat.items() if _flag(n, prs, lambda x, y: _neg(x == y), what + ".__eq__")]
        ne = [n for n, prs in mat.items() if _flag(n, prs, lambda x, y: x != y, what + ".__ne__")]
        key = [n for n, prs in mat.items() if _flag(n, prs, lambda x, y: hash(x) != hash(y), what + ".__hash__")] if can_hash else []
        return eq, ne, key

    s_hash = "KSchema" in hk and "KDatabase" in hk
    c_seq, c_sne, c_skey = lists(s_probes, "Schema", s_hash)
    c_teq, c_tne, c_tkey = lists(t_probes, "Table", "KTable" in hk)
    c_aeq, c_ane, c_akey = lists(a_probes, "AliasedQuery", "KAliased" in hk)
    # which attributes of the schema reach the table's hash; and the table's == must see the schema's attributes
    # exactly as Schema.__ne__ does (Table.__eq__ : self._schema != other._schema)
    twins(ts_probes, "Table(schema=..)", "KTable" in hk)
    mat = {n: [(f(), g()) for f, g in prs] for n, prs in ts_probes.items()}
    c_tkey_s = [n for n, prs in mat.items() if _flag(n, prs, lambda x, y: hash(x) != hash(y), "Table.__hash__ (schema)")] \
        if "KTable" in hk else []
    t_s_eq = [n for n, prs in mat.items() if _flag(n, prs, lambda x, y: _neg(x == y), "Table.__eq__ (schema)")]
    if "TSchema" in c_teq and sorted(t_s_eq) != sorted(c_sne):
        raise ExtractionError("Table.__eq__ compares its schemas on %r, Schema.__ne__ compares %r" % (t_s_eq, c_sne))
    return {"c_seq": c_seq, "c_sne": c_sne, "c_skey": c_skey, "c_teq": c_teq, "c_tne": c_tne, "c_tkey": c_tkey,
            "c_tkey_s": c_tkey_s, "c_aeq": c_aeq, "c_ane": c_ane, "c_akey": c_akey, "c_hashable": hk}


def extract():
    cfg = probe_cfg()
    # the texts of the opaque pools must be pairwise distinct (the model identifies a criterion with its text)
    for pool in ([for_text(i) for i in range(N_FOR)], [portion_text(i) for i in range(N_PORTION)],
                 [body_text(i) for i in range(N_BODY)]):
        if len(set(pool)) != len(pool):
            raise ExtractionError("pool texts are not distinct: %r" % (pool,))
    body = ";\n  ".join("%s := %s" % (k, L(v)) for k, v in cfg.items())
    text = ("(* GENERATED by harness/props/C16.py:extract() on every run by probing the real classes of the pypika tree\n"
            "   under test (which single-attribute changes flip ==, != and hash; which kinds hash() accepts). Do not edit. *)\n"
            "From PV Require Import Base Ident.\n\n"
            "Definition x_cfg : cfg := {|\n  %s |}.\n" % body)
    return {"gen/C16Table.v": text}


# =================================================================================================
# oracle: the laws themselves, on the recorded behaviour of the real objects
# =================================================================================================
def _schain(p):
    """[(name, is_database)] leaf first, or raise"""
    if p[0] == "obs":
        return _schain(p[1])
    if p[0] == "new":
        return [(p[2], bool(p[1]))]
    if p[0] == "sub":
        return [(p[2], bool(p[1]))] + _schain(p[3])
    return [(p[2], False)] + _schain(p[1])


def spec_of(p):
    """identity attributes the program asks for (independent of pypika and of the Coq model)"""
    if p["k"] == "S":
        ch = _schain(p["prog"])
        return {"fam": "S", "kind": "Database" if ch[0][1] else "Schema", "schema": [n for n, _ in ch],
                "dbs": [d for _, d in ch]}
    if p["k"] == "A":
        return {"fam": "A", "kind": "AliasedQuery", "name": p["name"], "body": p["body"]}
    if p["k"] == "O":
        return {"fam": "O", "kind": "SetOperation" if p["idx"] in (2, 3) else "QueryBuilder", "idx": p["idx"]}
    r = p["route"]
    dbs = None
    if r[0] == "none":
        ch = None
    elif r[0] == "str":
        ch = [r[1]]
    elif r[0] in ("tuple", "list"):
        ch = list(reversed(r[1]))
    else:
        ch = [n for n, _ in _schain(r[1])]
        dbs = [d for _, d in _schain(r[1])]
    if ch is not None and dbs is None:
        dbs = [False] * len(ch)
    alias, f, po = p["alias"], None, None
    for op in p["ops"]:
        if op[0] == "as":
            alias = op[1]
        elif op[0] == "for":
            f = op[1]
        elif op[0] == "portion":
            po = op[1]
    return {"fam": "T", "kind": "Table", "name": p["name"], "schema": ch, "alias": alias, "for_": f, "for_portion": po,
            "dbs": dbs, "qcls": p["qcls"][1] if p.get("qcls") else "Query"}


IDENTITY_ATTRS = {"T": ["name", "schema", "alias", "for_", "for_portion"], "S": ["schema"], "A": ["name"], "O": ["idx"]}


def diff_attrs(sa, sb):
    if sa["fam"] != sb["fam"]:
        return None
    return [a for a in IDENTITY_ATTRS[sa["fam"]] if sa[a] != sb[a]]


def oracle(case, outcome):
    if "harness_exc" in outcome:
        return [{"signature": ["C16", "harness", "-", "harness-exception"], "what": outcome["harness_exc"]}]
    n = len(case["objs"])
    ok = [i for i in range(n) if outcome["build"][i] is None]
    specs = {i: spec_of(case["objs"][i]) for i in ok}
    eq, ne, heq, hashable = outcome["eq"], outcome["ne"], outcome["heq"], outcome["hashable"]
    v = []

    def add(i, attr, law, what):
        v.append({"signature": ["C16", specs[i]["kind"], attr, law], "what": what})

    def desc(i):
        return json.dumps(case["objs"][i], sort_keys=True)

    def foreign(i):
        return specs[i]["fam"] == "O"

    for i in ok:
        if foreign(i):
            continue        # sub-queries / set operations are not subjects of the property: only pairs with a subject count
        if hashable[i] is not True:
            add(i, "-", "hashable", "hash(%s) raises %s" % (desc(i), "TypeError" if hashable[i] is False else hashable[i]))
        elif outcome["hash_stable"][i] is not True:
            add(i, "-", "hash-stable", "hash(x) called twice on %s gives two values" % desc(i))
        if eq[i][i] is not True:
            add(i, "-", "reflexive", "x == x is %r for %s" % (eq[i][i], desc(i)))
        elif outcome["twin_eq"][i] is not True:
            add(i, "-", "reflexive", "%s == the same expression evaluated again without the intermediate observations is %r" % (desc(i), outcome["twin_eq"][i]))
        elif outcome["twin_ne"][i] is not False:
            add(i, "-", "ne-is-not-eq", "the expression %s evaluated twice: == is True but != is %r" % (desc(i), outcome["twin_ne"][i]))
        elif hashable[i] is True and outcome["twin_heq"][i] is not True:
            add(i, "-", "equal-implies-equal-hash", "%s and the same expression evaluated again without the intermediate observations: equal objects, different hashes" % desc(i))
    for i in ok:
        for j in ok:
            if foreign(i) and foreign(j):
                continue
            e, d = eq[i][j], ne[i][j]
            if foreign(i) or foreign(j):
                # a subject against a sub-query / set operation that shares the FROM and JOIN lists with it:
                # comparisons must be booleans, != the negation, both orders the same; never equal
                su, fo = (j, i) if foreign(i) else (i, j)
                fk = specs[fo]["kind"]
                if not isinstance(e, bool) or not isinstance(d, bool):
                    add(su, fk, "raises", "%s ==/!= %s gives %r / %r" % (desc(i), desc(j), e, d))
                elif d != (not e):
                    add(su, fk, "ne-is-not-eq", "%s vs %s: == is %r but != is %r" % (desc(i), desc(j), e, d))
                elif isinstance(eq[j][i], bool) and e != eq[j][i]:
                    add(su, fk, "symmetric", "%s == %s is %r, the converse %r" % (desc(i), desc(j), e, eq[j][i]))
                elif e is True:
                    add(su, fk, "distinguishes", "%s == %s: a %s equals a %s" % (desc(i), desc(j), specs[su]["kind"], fk))
                continue
            if not isinstance(e, bool) or not isinstance(d, bool):
                add(i, "-", "raises", "%s ==/!= %s gives %r / %r" % (desc(i), desc(j), e, d))
                continue
            if d != (not e):
                add(i, "-", "ne-is-not-eq", "%s vs %s: == is %r but != is %r" % (desc(i), desc(j), e, d))
            if isinstance(eq[j][i], bool) and e != eq[j][i]:
                add(i, "-", "symmetric", "%s == %s is %r, the converse %r" % (desc(i), desc(j), e, eq[j][i]))
            if i < j:
                da = diff_attrs(specs[i], specs[j])
                qdiff = da is not None and specs[i].get("qcls") != specs[j].get("qcls")
                first = (da[0] if da else ("query_cls" if qdiff else "-")) if da is not None else "class"
                same = da == [] and not qdiff and (specs[i]["fam"] != "A" or specs[i]["body"] == specs[j]["body"])
                if same and e is not True:
                    why = "class" if specs[i]["kind"] != specs[j]["kind"] or specs[i].get("dbs") != specs[j].get("dbs") else "route"
                    add(i, why, "same-identity-equal", "%s != %s although name, schema chain, alias and temporal clause "
                        "are the same (construction %s differs)" % (desc(i), desc(j), why))
                if da and e is True:
                    add(i, first, "distinguishes", "%s == %s although they differ in %s" % (desc(i), desc(j), ", ".join(da)))
                if e is True and hashable[i] is True and hashable[j] is True and heq[i][j] is not True:
                    add(i, first, "equal-implies-equal-hash", "%s == %s but their hashes differ" % (desc(i), desc(j)))
    for i in ok:
        for j in ok:
            for k in ok:
                if foreign(i) or foreign(j) or foreign(k):
                    continue
                if len({i, j, k}) == 3 and eq[i][j] is True and eq[j][k] is True and eq[i][k] is False:
                    add(i, "-", "transitive", "%s == %s == %s but the first != the last" % (desc(i), desc(j), desc(k)))
    for (i, js, rl), (_, _, rs), (_, _, rd) in zip(outcome["inl"], outcome["ins"], outcome["dct"]):
        if foreign(i):
            continue        # membership of a subject in lists / sets that may hold sub-queries and set operations
        if any(hashable[x] is not True for x in [i] + js):
            continue        # reported once as "hashable"
        if rl == rs == rd and isinstance(rl, bool):
            continue
        # which attribute separates x from the element the list found
        attr = "-"
        for j in js:
            if foreign(j) and eq[j][i] is not False:
                attr = specs[j]["kind"]
                break
            if eq[j][i] is True and heq[i][j] is not True:
                da = diff_attrs(specs[i], specs[j])
                qdiff = da is not None and specs[i].get("qcls") != specs[j].get("qcls")
                attr = (da[0] if da else ("query_cls" if qdiff else "-")) if da is not None else "class"
                break
        add(i, attr, "membership-agrees", "%s in [..]/{..}/dict of %s: list says %r, set %r, dict %r" % (
            desc(i), [desc(j) for j in js], rl, rs, rd))
    # one violation per signature and case is enough
    seen, out = set(), []
    for x in v:
        k = json.dumps(x["signature"])
        if k not in seen:
            seen.add(k)
            out.append(x)
    return out


# =================================================================================================
# generator
# =================================================================================================
NAMES = ["t", "u", "T", "tab le", "a.b", 'a"b', "", "tü"]
SNAMES = ["s", "r", "d", "S", "x.y", 'q"', ""]
ALIASES = ["a", "b", "t", ""]


def gen_spec(rng, fam):
    if fam == "A":
        return {"fam": "A", "name": rng.choice(NAMES), "body": rng.choice([None, None] + list(range(N_BODY)))}
    depth = rng.choice([0, 1, 1, 2, 2, 3]) if fam == "T" else rng.choice([1, 1, 2, 3])
    chain = []          # root first: [name, is_database]
    for lv in range(depth):
        chain.append([rng.choice(SNAMES), (rng.random() < (0.35 if lv == 0 else 0.08))])
    if fam == "S":
        return {"fam": "S", "chain": chain}
    temp = None
    r = rng.random()
    if r < 0.22:
        temp = ["for", rng.randrange(N_FOR)]
    elif r < 0.34:
        temp = ["portion", rng.randrange(N_PORTION)]
    return {"fam": "T", "name": rng.choice(NAMES), "chain": chain or None,
            "alias": rng.choice([None, None] + ALIASES), "temp": temp,
            "qcls": rng.choice(QCLS) if rng.random() < 0.3 else "Query"}


def mutate(rng, sp):
    """change exactly one identity-relevant attribute (or the class of one schema level)"""
    sp = json.loads(json.dumps(sp))
    if sp["fam"] == "A":
        if rng.random() < 0.5:
            sp["name"] = rng.choice([x for x in NAMES if x != sp["name"]])
        else:
            sp["body"] = rng.choice([x for x in [None, None, None] + list(range(N_BODY)) if x != sp["body"]])
        return sp

    def mut_chain(ch, allow_empty):
        ch = list(ch or [])
        ops = ["add_root", "add_leaf"] if len(ch) < 3 else []
        if ch:
            ops += ["rename", "rename", "kind"]
            if len(ch) > 1 or allow_empty:
                ops += ["drop_root", "drop_leaf"]
        op = rng.choice(ops)
        if op == "add_root":
            ch.insert(0, [rng.choice(SNAMES), rng.random() < 0.4])
        elif op == "add_leaf":
            ch.append([rng.choice(SNAMES), False])
        elif op == "rename":
            k = rng.randrange(len(ch))
            ch[k] = [rng.choice([x for x in SNAMES if x != ch[k][0]]), ch[k][1]]
        elif op == "kind":
            k = rng.randrange(len(ch))
            ch[k] = [ch[k][0], not ch[k][1]]
        elif op == "drop_root":
            ch.pop(0)
        else:
            ch.pop()
        return ch

    def join_levels(ch):
        # two adjacent levels spelled as one dotted name: the unquoted / quoted texts coincide, the chains differ
        k = rng.randrange(len(ch) - 1)
        j = rng.choice([".", '"."'])
        return ch[:k] + [[ch[k][0] + j + ch[k + 1][0], ch[k + 1][1]]] + ch[k + 2:]

    if sp["fam"] == "S":
        if len(sp["chain"]) > 1 and rng.random() < 0.12:
            sp["chain"] = join_levels(sp["chain"])
        else:
            sp["chain"] = mut_chain(sp["chain"], False)
        return sp
    if rng.random() < 0.10 and (sp["chain"] or sp["alias"] is not None):
        # a different identity with the same (or nearly the same) rendered text
        opts = []
        if sp["chain"]:
            opts.append("leaf_into_name")
            if len(sp["chain"]) > 1:
                opts.append("join_levels")
        if sp["alias"] is not None:
            opts.append("alias_into_name")
        op = rng.choice(opts)
        if op == "join_levels":
            sp["chain"] = join_levels(sp["chain"])
        elif op == "leaf_into_name":
            sp["name"] = sp["chain"][-1][0] + rng.choice([".", '"."']) + sp["name"]
            sp["chain"] = sp["chain"][:-1] or None
        else:
            sp["name"] = sp["name"] + rng.choice([" ", '" "']) + sp["alias"]
            sp["alias"] = None
        return sp
    what = rng.choice(["name", "schema", "schema", "alias", "alias", "temp", "temp", "temp", "qcls", "qcls"])
    if what == "qcls":
        # the Query class the table is bound to: not part of its identity (neither == nor hash may tell)
        sp["qcls"] = rng.choice([x for x in QCLS if x != sp.get("qcls", "Query")])
    elif what == "name":
        sp["name"] = rng.choice([x for x in NAMES if x != sp["name"]])
    elif what == "schema":
        sp["chain"] = mut_chain(sp["chain"], True) or None
    elif what == "alias":
        sp["alias"] = rng.choice([x for x in [None] + ALIASES if x != sp["alias"]])
    else:
        opts = [None] + [["for", i] for i in range(N_FOR)] + [["portion", i] for i in range(N_PORTION)]
        sp["temp"] = rng.choice([x for x in opts if x != sp["temp"]])
    return sp


P_OBS = 0.25      # probability of an observation step after each construction step


def _sprog(rng, chain):
    """a Schema-object expression for a root-first chain (intermediate objects are sometimes observed first)"""
    p = ["new", chain[0][1], chain[0][0]]
    prev_db = chain[0][1]
    for nme, db in chain[1:]:
        if rng.random() < P_OBS:
            p = ["obs", p]
        if prev_db and not db and rng.random() < 0.6:
            p = ["attr", p, nme]                   # Database(...).name
        else:
            p = ["sub", db, nme, p]
        prev_db = db
    if rng.random() < P_OBS:
        p = ["obs", p]
    return p


def realize(rng, sp, bad=None):
    """pick a construction route for a spec"""
    if sp["fam"] == "A":
        p = {"k": "A", "name": sp["name"], "body": sp["body"]}
        if sp["body"] is not None and rng.random() < 0.3:
            p["via"] = "with"
        return p
    if sp["fam"] == "S":
        return {"k": "S", "prog": _sprog(rng, sp["chain"])}
    if sp["fam"] == "O":
        return {"k": "O", "idx": sp["idx"]}
    ch = sp["chain"]
    qn = sp.get("qcls", "Query")
    qcls = None if (qn == "Query" and rng.random() < 0.8) else [rng.choice(["kw", "cm"]), qn]
    alias_ctor = sp["alias"] is not None and rng.random() < 0.5
    if bad in ("empty_tuple", "empty_list"):
        route = ["tuple" if bad == "empty_tuple" else "list", []]
    elif not ch:
        route = ["none"]
    else:
        plain = not any(db for _, db in ch)
        opts = ["obj", "obj"]
        if plain:
            opts += ["tuple", "tuple", "list"]
            if len(ch) == 1:
                opts += ["str", "str"]
        if not ch[-1][1] and qcls is None:
            opts += ["attr", "attr"]
        kind = rng.choice(opts)
        if kind == "str":
            route = ["str", ch[0][0]]
        elif kind in ("tuple", "list"):
            route = [kind, [n for n, _ in ch]]
        elif kind == "obj":
            route = ["obj", _sprog(rng, ch)]
        else:
            route = ["attr", _sprog(rng, ch)]
            alias_ctor = False
    ops = []
    if sp["alias"] is not None and not alias_ctor:
        ops.append(["as", sp["alias"]])
    if sp["temp"] is not None:
        ops.append(list(sp["temp"]))
    rng.shuffle(ops)
    if bad == "double":
        ops.append(rng.choice([["for", rng.randrange(N_FOR)], ["portion", rng.randrange(N_PORTION)]]))
        if not any(o[0] in ("for", "portion") for o in ops[:-1]):
            ops.append(rng.choice([["for", rng.randrange(N_FOR)], ["portion", rng.randrange(N_PORTION)]]))
    elif sp["alias"] is not None and not alias_ctor and rng.random() < 0.15:
        ops.insert(0, ["as", rng.choice(ALIASES)])       # an earlier as_() is overwritten
    # observations of the intermediate objects: before the first builder call, between calls, after the last
    with_obs = []
    for o in ops:
        if rng.random() < P_OBS:
            with_obs.append(["obs"])
        with_obs.append(o)
    if ops and rng.random() < P_OBS:
        with_obs.append(["obs"])
    return {"k": "T", "name": sp["name"], "route": route, "alias": sp["alias"] if alias_ctor else None, "ops": with_obs,
            "qcls": qcls}


def gen_case(rng):
    fam = rng.choice(["T"] * 13 + ["S"] * 4 + ["A"] * 3)
    a = gen_spec(rng, fam)
    specs = [a]
    for _ in range(rng.choice([1, 2, 2, 2])):
        base = rng.choice(specs)
        r = rng.random()
        if r < 0.34:
            specs.append(base)                                   # same identity, other route
        elif r < 0.80:
            specs.append(mutate(rng, base))                      # one attribute away
        elif r < 0.90:
            specs.append(mutate(rng, mutate(rng, base)))
        elif r < 0.95:
            specs.append(gen_spec(rng, fam))
        else:
            specs.append(gen_spec(rng, rng.choice(["T", "S", "A"])))   # another class
    objs = []
    for sp in specs:
        bad = None
        if sp["fam"] == "T" and rng.random() < 0.04:
            bad = rng.choice(["empty_tuple", "empty_list", "double", "double"])
        objs.append(realize(rng, sp, bad))
    objs.sort(key=lambda p: p["k"] == "O")
    if rng.random() < 0.15:
        objs.append({"k": "O", "idx": rng.randrange(N_OTHER)})      # a sub-query / set operation in the same lists
    return {"objs": objs}


def gen_cases(rng, tier):
    n = 520 if tier == "quick" else 9000
    return [gen_case(rng) for _ in range(n)]


def _t(name, route=None, alias=None, ops=None, qcls=None):
    return {"k": "T", "name": name, "route": route or ["none"], "alias": alias, "ops": ops or [], "qcls": qcls}


def _corpus_files():
    """minimised failures kept as JSON lists of cases under corpus/C16/"""
    import glob
    import os
    from harness.lib import VERIF
    out = []
    for f in sorted(glob.glob(os.path.join(VERIF, "corpus", "C16", "*.json"))):
        out += json.load(open(f))
    return out


def corpus():
    return _builtin_corpus() + _corpus_files()


def _builtin_corpus():
    d_s = ["attr", ["new", True, "d"], "s"]
    return [
        # witnesses of the repaired findings (45f675c: temporal clause ignored by == but hashed; 72f33c4: unhashable
        # Schema/Database) - a regression is a VIOLATION
        {"objs": [_t("a"), _t("a", ops=[["for", 0]]), _t("a", ops=[["for", 1]])]},
        {"objs": [_t("a"), _t("a", ops=[["portion", 0]]), _t("a", ops=[["portion", 1]])]},
        {"objs": [_t("a", ops=[["for", 3]]), _t("a", ops=[["portion", 0]])]},
        {"objs": [{"k": "S", "prog": ["new", False, "d"]}, {"k": "S", "prog": ["new", True, "d"]},
                  {"k": "S", "prog": ["sub", False, "d", ["new", True, "p"]]}]},
        # route independence: Database('d').s.t == Table('t', schema=('d','s')) == Table('t', schema=Schema('s', parent=Schema('d')))
        {"objs": [_t("t", ["attr", d_s]), _t("t", ["tuple", ["d", "s"]]), _t("t", ["obj", ["sub", False, "s", ["new", False, "d"]]])]},
        {"objs": [_t("t", ["str", "s"]), _t("t", ["list", ["s"]]), _t("t", ["attr", ["new", False, "s"]])]},
        {"objs": [_t("t", alias="x"), _t("t", ops=[["as", "x"]]), _t("t", alias=""), ]},
        {"objs": [{"k": "A", "name": "n", "body": None}, {"k": "A", "name": "n", "body": 0}, {"k": "A", "name": "m", "body": 0}]},
        # other classes never compare equal
        {"objs": [_t("a"), {"k": "A", "name": "a", "body": None}, {"k": "S", "prog": ["new", False, "a"]}]},
        {"objs": [_t("a"), {"k": "A", "name": '"a"', "body": None}]},
        # malformed: empty schema tuple / list -> IndexError ; second temporal clause -> AttributeError
        {"objs": [_t("t", ["tuple", []]), _t("t", ["list", []]), _t("t")]},
        {"objs": [_t("t", ops=[["for", 0], ["for", 1]]), _t("t", ops=[["portion", 0], ["for", 1]]), _t("t", ops=[["for", 0], ["portion", 1]])]},
        {"objs": [_t("t", ["tuple", ["a", "b", "c"]]), _t("t", ["tuple", ["a", "x", "c"]]), _t("t", ["tuple", ["b", "c"]])]},
        # objects with a history: observed (hashed, compared, rendered) before as_ / for_ / attribute access
        {"objs": [_t("a", ops=[["obs"], ["as", "x"]]), _t("a", alias="x"), _t("a", ops=[["obs"], ["for", 0], ["obs"], ["as", "x"]])]},
        {"objs": [_t("abc", ["str", "s"], ops=[["obs"], ["as", "x"]]), _t("abc", ["str", "s"], alias="x"), _t("abc", ["str", "s"])]},
        {"objs": [_t("t", ["attr", ["obs", ["attr", ["obs", ["new", True, "d"]], "s"]]], ops=[["obs"], ["portion", 0]]),
                  _t("t", ["tuple", ["d", "s"]], ops=[["portion", 0]]),
                  {"k": "S", "prog": ["obs", ["sub", False, "s", ["obs", ["new", False, "d"]]]]}]},
        # named queries: definitions of one name whose wrapped queries differ (alias x / y / same alias / auto-tagged sq0 /
        # none) next to the bare reference - == must stay transitive, list/set/dict must agree
        {"objs": [{"k": "A", "name": "n", "body": 3}, {"k": "A", "name": "n", "body": None}, {"k": "A", "name": "n", "body": 4}]},
        {"objs": [{"k": "A", "name": "n", "body": 4, "via": "with"}, {"k": "A", "name": "n", "body": 6}, {"k": "A", "name": "n", "body": None}]},
        {"objs": [{"k": "A", "name": "n", "body": 3}, {"k": "A", "name": "n", "body": 5}, {"k": "A", "name": "n", "body": 0}]},
        {"objs": [{"k": "A", "name": "n", "body": 3}, {"k": "A", "name": "m", "body": 3}, {"k": "A", "name": "n", "body": 3, "via": "with"}]},
        # the same table bound to different Query classes (query_cls=, X.Table): one identity, one hash
        {"objs": [_t("t"), _t("t", qcls=["kw", "MySQLQuery"]), _t("t", qcls=["cm", "OracleQuery"])]},
        {"objs": [_t("abc", ["tuple", ["d", "s"]], alias="x", qcls=["cm", "SnowflakeQuery"]),
                  _t("abc", ["tuple", ["d", "s"]], alias="x", qcls=["kw", "ClickHouseQuery"]),
                  _t("abc", ["obj", ["attr", ["new", True, "d"], "s"]], ops=[["as", "x"]], qcls=["kw", "Query"])]},
        {"objs": [_t("t", ops=[["obs"], ["for", 0]], qcls=["kw", "MSSQLQuery"]), _t("t", ops=[["for", 0]]),
                  _t("t", ops=[["for", 0]], qcls=["cm", "VerticaQuery"])]},
        # subjects next to sub-queries / set operations (187adc3: `table in [set_operation]` was truthy for every table)
        {"objs": [_t("t"), {"k": "A", "name": "t", "body": None}, {"k": "S", "prog": ["new", False, "t"]}, {"k": "O", "idx": 3}]},
        {"objs": [_t("t"), _t("u", alias="t"), {"k": "O", "idx": 2}]},
        {"objs": [_t("t"), _t("a"), {"k": "O", "idx": 1}]},
        {"objs": [_t("u"), {"k": "A", "name": "u", "body": 0}, {"k": "O", "idx": 4}]},
        {"objs": [_t("a"), {"k": "O", "idx": 0}]},
        # different identities, same rendered text (legitimate hash collisions, must stay unequal)
        {"objs": [_t("t", ["str", "a.b"]), _t("t", ["tuple", ["a", "b"]]), _t("b.t", ["str", "a"])]},
        {"objs": [_t("t", ["tuple", ["a", "b"]]), _t("t", ["str", 'a"."b']), _t('b"."t', ["str", "a"])]},
        {"objs": [_t("t", alias="x"), _t('t" "x'), _t("t x")]},
    ]


# =================================================================================================
# evidence helpers
# =================================================================================================
def nontrivial_key(case):
    try:
        specs = [spec_of(p) for p in case["objs"]]
    except Exception:  # noqa
        return None
    for i in range(len(specs)):
        for j in range(i + 1, len(specs)):
            if case["objs"][i] == case["objs"][j]:
                continue
            da = diff_attrs(specs[i], specs[j])
            if da is not None and len(da) <= 1:
                return json.dumps(case, sort_keys=True)
    return None


def histogram(cases):
    h = {}

    def inc(k):
        h[k] = h.get(k, 0) + 1
    for c in cases:
        inc("objects=%d" % len(c["objs"]))
        for p in c["objs"]:
            inc("kind=" + p["k"])
            if p["k"] == "O":
                continue
            if p["k"] == "T":
                inc("route=" + p["route"][0])
                inc("query_cls=" + (p["qcls"][1] if p.get("qcls") else "default"))
                for op in p["ops"]:
                    inc("op=" + op[0])
                if p != strip_obs(p):
                    inc("table-with-history")
        try:
            specs = [spec_of(p) for p in c["objs"]]
            for i in range(len(specs)):
                for j in range(i + 1, len(specs)):
                    da = diff_attrs(specs[i], specs[j])
                    inc("pair:other-class" if da is None else ("pair:same-identity" if not da else "pair:differs-in-%d" % len(da)))
        except Exception:  # noqa
            inc("spec-error")
    return h


def targeted_search(rng, broken, mism_cases):
    out = []
    # every pair of a disagreeing case on its own, then a dense batch of near pairs of every family
    for c in mism_cases:
        o = c["objs"]
        for i in range(len(o)):
            for j in range(i + 1, len(o)):
                out.append({"objs": [o[i], o[j]]})
    for fam in ("T", "T", "T", "S", "A"):
        for _ in range(400):
            a = gen_spec(rng, fam)
            out.append({"objs": [realize(rng, a), realize(rng, a), realize(rng, mutate(rng, a))]})
    # the same chain with Schema / Database classes at every level, as schemas and as the schema of a table
    # two definitions of one WITH name around the bare reference, for every pair of wrapped queries
    for b1 in range(N_BODY):
        for b2 in range(b1 + 1, N_BODY):
            out.append({"objs": [{"k": "A", "name": "n", "body": b1}, {"k": "A", "name": "n", "body": None},
                                 {"k": "A", "name": "n", "body": b2, "via": "with"}]})
    for idx in range(N_OTHER):
        for fam in ("T", "S", "A"):
            a = gen_spec(rng, fam)
            out.append({"objs": [realize(rng, a), realize(rng, mutate(rng, a)), {"k": "O", "idx": idx}]})
    for names in (["d"], ["d", "s"], ["d", "s", "r"]):
        for flags in range(2 ** len(names)):
            ch = [[n, bool(flags >> k & 1)] for k, n in enumerate(names)]
            plain = [[n, False] for n in names]
            out.append({"objs": [realize(rng, {"fam": "S", "chain": ch}), realize(rng, {"fam": "S", "chain": plain})]})
            if not ch[-1][1]:
                ta = {"fam": "T", "name": "t", "chain": ch, "alias": None, "temp": None}
                tb = {"fam": "T", "name": "t", "chain": plain, "alias": None, "temp": None}
                out.append({"objs": [realize(rng, ta), realize(rng, tb), realize(rng, ta)]})
    return out
