"""C18 — function, aggregate and window wrappers render every part, once, in order (model: coq/Func.v).

extract():  discovers every Function subclass of pypika.terms / pypika.functions / pypika.analytics (plus CustomFunction) by
            `inspect`, instantiates each with distinguishable sentinel arguments and writes the wrapper catalogue
            coq/gen/C18Table.v (class, SQL name, supported clauses, argument slots per probed arity).
cases:      every discovered wrapper x every probed arity x all presence combinations of the optional clauses it supports,
            a complete frame-shape/bound block, random generic Function/CustomFunction calls, and a malformed stream.
oracle:     token structure of get_sql(quote_char='"') against the sentinels handed in (independent of the model).
"""
import inspect
import itertools
import json
import re
import types

from harness.lib import S, OS, L, P, B, O, OZ, Zc

ID = "C18"
COQ_PROP = "props/C18.v"
CORR_REQUIRE = ["Func", "FuncCorr"]    # FuncCorr imports gen.C18Table (fallback entry for wrappers added later)
CORR_CHECK = "check_case"
CORR_SHOW = "show_case"
GEN_FILES = ["gen/C18Table.v"]
SHARD = 250
RULE = ("every wrapper class discovered by inspect in pypika.terms/functions/analytics (+CustomFunction) x every probed "
        "arity/argument-kind assignment x ALL presence combinations of the optional clauses the class supports "
        "(distinct, filter, over, orderby, frame, ignore_nulls, alias, schema) [exhaustive over presence flags: true]; "
        "sub-shapes (0/1/2 criteria, 0/1/2 partitions, order directions, ROWS/RANGE x single/BETWEEN x bound kinds, "
        "bounds from {None,0,1,2,10,10^9} and non-integral offsets 0.5/Decimal 2.25/'1.5'/1e-05) drawn by the seeded rng in the quick tier and enumerated completely for the "
        "window classes in the thorough tier; one complete frame block (2 kinds x (19 single + 361 BETWEEN) bounds) "
        "[exhaustive over frame shapes x bound set: true]; a block over every ordered pair of filter-criterion shapes "
        "(simple/OR/AND/XOR/AND-over-OR, one call or two) and a block of DISTINCT with arguments/criteria containing the "
        "wrapper's own NAME( ; a scalar sub-query in every position (argument, CAST/EXTRACT, FILTER operand, PARTITION BY / "
        "ORDER BY term); branching construction histories (a base wrapper specialised 2-3 times, each member of the "
        "family incl. the base compared with the model on its own call history, derivation and rendering order varied) "
        "[exhaustive over frame shapes x bound set: true]; random Function/CustomFunction calls with 0-6 arguments; "
        "malformed stream: unsupported clause methods, second frame, filter() without criteria or with only EmptyCriterion "
        "arguments, frames without over(), CustomFunction arity "
        "mismatch, schema= on classes that do not take it. A case is non-trivial when it has at least one argument "
        "and at least one optional clause; distinct by structural hash.")
TRUSTED = [
    "harness/props/C18.py builds the same call on pypika objects and as a Gallina value (correspondence harness)",
    "arguments, filter criteria, partition/order terms are opaque texts taken from the implementation (each rendered "
    "alone under the same keyword arguments)",
    "variadic constructors are probed for 0..6 trailing arguments; beyond that Python's *args semantics is trusted",
]
ASSUMPTIONS = [
    "argument texts are balanced, have no level-0 comma and no level-0 AS/FROM/USING/IGNORE keyword (arg_ok); "
    "texts with parentheses or commas inside string literals are outside the reader's theorem",
    "filter criteria are non-complex criteria (their conjunction renders as 'a AND b')",
]
ALLOWED_AXIOMS = []

BOUND_SET = [None, 0, 1, 2, 10, 10 ** 9]
FRACTION_SET = [["f", 0.5], ["dec", "2.25"], ["s", "1.5"], ["f", 1e-05], ["s", "5"],      # non-int offsets: str(value) is rendered
                ["f", 0.125], ["dec", "0.001"], ["f", 0.999], ["dec", "123456789.987654321"], ["f", 1e+16], ["s", "0.0005"]]
BIG_BOUNDS = [10 ** 18, 2 ** 63, 999999999999]
# values of numeric special-clause parameters (percentile ...): 3+ decimals, values that rounding to 1-2 decimals changes,
# very small and very large ones; str(float(v)) must arrive in the clause
NUM_POOL = [0.999, 0.005, 0.975, 1e-05, 0.123456789, 123456.789, 1e+20, 0.30000000000000004, 0.995, 3e-07, 0.015, 0.0049]
LEN_POOL = [1, 255, 256, 65535, 10 ** 9, 2 ** 31, 7, 4000]
Q = '"'
KW = dict(with_namespace=False, quote_char=Q, dialect=None)

BASES = ["Function", "AggregateFunction", "DistinctOptionFunction", "AnalyticFunction", "WindowFrameAnalyticFunction",
         "IgnoreNullsAnalyticFunction"]
KINDS = ["PTerm", "PWord", "PNum", "PEnum"]


# ==============================================================================================
# discovery and probing (shared by extract, the generator and the oracle)
# ==============================================================================================
def _mods():
    import pypika.terms as T
    import pypika.functions as F
    import pypika.analytics as A
    return [T, F, A]


# Function.get_sql forwards these keyword arguments of the enclosing call to get_function_sql, i.e. to the arguments,
# criteria and window terms; "rendered alone under the same keyword arguments" therefore includes them
_FORWARDED = ("secondary_quote_char", "alias_quote_char", "query_alias_quote_char", "as_keyword", "groupby_alias")
_KWX = {}


def _kw():
    return dict(KW, **_KWX)


def _set_case_kw(case):
    """component texts of a case are rendered under the forwarded part of the case's own get_sql keyword arguments"""
    global _KWX
    _KWX = {} if case is None else {k: v for k, v in render_kwargs(case).items() if k in _FORWARDED}


def discover():
    """[(module name, class name, class)] for every Function subclass defined in the three modules."""
    from pypika.terms import Function
    out = []
    for mod in _mods():
        for name, cls in sorted(vars(mod).items()):
            if inspect.isclass(cls) and issubclass(cls, Function) and cls.__module__ == mod.__name__:
                out.append((mod.__name__, name, cls))
    return out


def find_class(mod, cls):
    if cls == "CustomFunction":
        return None
    import importlib
    return getattr(importlib.import_module(mod), cls)


def signature_info(cls):
    """(named, required positional names, optional positional names, variadic, takes_alias, takes_kwargs)."""
    sig = inspect.signature(cls.__init__)
    req, opt, variadic, takes_alias, takes_kwargs = [], [], False, False, False
    for p in list(sig.parameters.values())[1:]:
        if p.kind == p.VAR_POSITIONAL:
            variadic = True
        elif p.kind == p.VAR_KEYWORD:
            takes_kwargs = True
        elif p.name == "alias":
            takes_alias = True
        elif p.kind in (p.POSITIONAL_ONLY, p.POSITIONAL_OR_KEYWORD):
            (req if p.default is p.empty else opt).append(p.name)
    named = bool(req) and req[0] == "name"
    if named:
        req = req[1:]
    return named, req, opt, variadic, takes_alias or takes_kwargs, takes_kwargs


def probe_value(kind, k):
    from pypika import Field
    if kind == "PTerm":
        return Field("s%d" % k)
    if kind == "PWord":
        return "SENT%d" % k
    if kind == "PNum":
        return k + 0.625          # three decimals: a parameter that is rounded or truncated on the way is not "clean"
    return types.SimpleNamespace(value="ENC%d" % k)


def probe_text(kind, k):
    return {"PTerm": '"s%d"' % k, "PWord": "SENT%d" % k, "PNum": "%d.625" % k, "PEnum": "ENC%d" % k}[kind]


def probe_marker(kind, k):
    return {"PTerm": "s%d" % k, "PWord": "SENT%d" % k, "PNum": "%d.625" % k, "PEnum": "ENC%d" % k}[kind]


def term_text(t):
    """An argument's own text, rendered alone exactly as Function.get_function_sql renders it."""
    if hasattr(t, "get_sql"):
        return t.get_sql(with_alias=False, subquery=True, **_kw())
    return str(t)


def construct(mod, cls, name, values, alias=None, schema=None):
    """Instantiate a wrapper; CustomFunction goes through its call protocol (name=[sql name, params])."""
    kwargs = {}
    if alias is not None:
        kwargs["alias"] = alias
    if schema is not None:
        kwargs["schema"] = schema
    if cls == "CustomFunction":
        from pypika import CustomFunction
        sql, params = name
        return CustomFunction(sql, params)(*values, **kwargs)
    c = find_class(mod, cls)
    if name is not None:
        return c(name, *values, **kwargs)
    return c(*values, **kwargs)


def probe_once(mod, cls, named, kinds):
    """Instantiate with sentinels of the given kinds and describe Function.args / the special clause.
    Returns (slots, special, clean) or None when construction or rendering raises."""
    n = len(kinds)
    values = [probe_value(kd, k) for k, kd in enumerate(kinds)]
    texts = [probe_text(kd, k) for k, kd in enumerate(kinds)]
    marks = [probe_marker(kd, k) for k, kd in enumerate(kinds)]
    _set_case_kw(None)
    try:
        if cls == "CustomFunction":
            w = construct(mod, cls, ["GENFN", ["p%d" % i for i in range(n)]], values)
        else:
            w = construct(mod, cls, "GENFN" if named else None, values)
        w.get_sql(quote_char=Q)
        arg_texts = [term_text(a) for a in w.args]
        sp = w.get_special_params_sql(**KW)
    except Exception:
        return None
    clean = True
    slots = []
    for t in arg_texts:
        hit = [k for k in range(n) if t == texts[k]]
        if hit:
            slots.append(["SParam", hit[0]])
        elif any(m in t for m in marks):
            slots.append(["SMangled", t])
            clean = False
        else:
            slots.append(["SConst", t])
    special = None
    if sp:
        hit = [k for k in range(n) if sp.endswith(texts[k]) and not any(m in sp[:len(sp) - len(texts[k])] for m in marks)]
        if hit:
            special = [sp[:len(sp) - len(texts[hit[0]])], hit[0]]
        else:
            special = [sp, None]
            if any(m in sp for m in marks):
                clean = False
    seen = [s[1] for s in slots if s[0] == "SParam"] + ([special[1]] if special and special[1] is not None else [])
    if sorted(seen) != list(range(n)):
        clean = False      # an argument is missing or duplicated: recorded (and rejected by probe_ok in Coq)
    return slots, special, clean


def probes_for(mod, cls, c):
    """All probed (kinds, slots, special) of a class: every clean kind assignment per arity (PNum dropped where
    PTerm works), or the first unclean one when no assignment is clean."""
    if cls == "CustomFunction":
        named, req, opt, variadic = True, [], [], True
    else:
        named, req, opt, variadic, _, _ = signature_info(c)
    fixed = len(req) + len(opt)
    arities = list(range(len(req), fixed + 1))
    if variadic:
        arities += list(range(fixed + 1, fixed + 7))
    out = []
    for n in arities:
        nfix = min(n, fixed)
        good, first_bad = [], None
        for head in itertools.product(KINDS, repeat=nfix):
            kinds = list(head) + ["PTerm"] * (n - nfix)
            r = probe_once(mod, cls, named, kinds)
            if r is None:
                continue
            if r[2]:
                good.append((kinds, r[0], r[1]))
            elif first_bad is None:
                first_bad = (kinds, r[0], r[1])
        keep = []
        for kinds, slots, special in good:
            dominated = False
            for i, kd in enumerate(kinds):
                if kd == "PNum" and any(g[0] == kinds[:i] + ["PTerm"] + kinds[i + 1:] for g in good):
                    dominated = True
            if not dominated:
                keep.append((kinds, slots, special))
        if not keep and first_bad is not None:
            keep = [first_bad]
        out += keep
    return out


_KNOWN_RENDERERS = None


def overrides_rendering(c):
    """True when a class outside the six bases redefines get_function_sql / get_sql / get_special_params_sql-free
    rendering (today: CurTimestamp only)."""
    from pypika.terms import Function
    for k in c.__mro__:
        if k.__name__ in BASES and k.__module__ in ("pypika.terms", "pypika.functions"):
            return False
        if "get_function_sql" in vars(k) or "get_sql" in vars(k):
            return True
        if k is Function:
            return False
    return False


def describe(mod, cls, c):
    """One catalogue entry (a dict mirroring the Coq record `wrapper`)."""
    if cls == "CustomFunction":
        return dict(module=mod, cls=cls, sql="", named=True, agg=False, distinct=False, analytic=False, frame=False,
                    ignore_nulls=False, schema=False, alias=True, bare=False, probes=probes_for(mod, cls, None))
    named, req, opt, variadic, takes_alias, takes_kwargs = signature_info(c)
    probes = probes_for(mod, cls, c)
    w = None
    if probes:
        kinds = probes[0][0]
        w = construct(mod, cls, "GENFN" if named else None, [probe_value(kd, k) for k, kd in enumerate(kinds)])
    takes_schema = False
    if w is not None and takes_kwargs:
        try:
            from pypika import Schema
            kinds = probes[0][0]
            w2 = construct(mod, cls, "GENFN" if named else None, [probe_value(kd, k) for k, kd in enumerate(kinds)],
                           schema=Schema("sc"))
            takes_schema = getattr(w2, "schema", None) is not None
        except Exception:
            takes_schema = False
    bare = overrides_rendering(c)
    if bare and w is not None and w.get_sql(quote_char=Q) != w.name:
        raise RuntimeError("%s.%s overrides the rendering in a way the catalogue cannot describe" % (mod, cls))
    return dict(module=mod, cls=cls, sql="" if named else (w.name if w is not None else ""), named=named,
                agg=hasattr(w, "filter") and hasattr(w, "get_filter_sql"), distinct=hasattr(w, "distinct") and hasattr(w, "_distinct"),
                analytic=hasattr(w, "over") and hasattr(w, "orderby"), frame=hasattr(w, "rows") and hasattr(w, "range"),
                ignore_nulls=hasattr(w, "ignore_nulls"), schema=takes_schema, alias=takes_alias, bare=bare, probes=probes)


_CATALOGUE = None


def catalogue():
    global _CATALOGUE
    if _CATALOGUE is None:
        ents = [describe(m, n, c) for m, n, c in discover()]
        ents.append(describe("pypika.terms", "CustomFunction", None))
        _CATALOGUE = ents
    return _CATALOGUE


# ==============================================================================================
# extraction -> coq/gen/C18Table.v
# ==============================================================================================
def slot_coq(s):
    if s[0] == "SParam":
        return "(SParam %d)" % s[1]
    return "(%s %s)" % (s[0], S(s[1]))


def probe_coq(p):
    kinds, slots, special = p
    sp = "None" if special is None else "(Some (%s, %s))" % (S(special[0]), "None" if special[1] is None else "(Some %d)" % special[1])
    return "{| p_kinds := %s; p_slots := %s; p_special := %s |}" % (L(kinds), L([slot_coq(s) for s in slots]), sp)


def wrapper_coq(e):
    return ("{| w_module := %s; w_class := %s; w_sql := %s; w_named := %s; w_agg := %s; w_distinct := %s;\n"
            "     w_analytic := %s; w_frame := %s; w_ignore_nulls := %s; w_schema := %s; w_alias := %s; w_bare := %s;\n"
            "     w_probes := [%s] |}") % (
        S(e["module"]), S(e["cls"]), S(e["sql"]), B(e["named"]), B(e["agg"]), B(e["distinct"]), B(e["analytic"]),
        B(e["frame"]), B(e["ignore_nulls"]), B(e["schema"]), B(e["alias"]), B(e["bare"]),
        ";\n       ".join(probe_coq(p) for p in e["probes"]))


def catalogue_coq(name, ents):
    return "Definition %s : list wrapper := [\n  %s\n].\n" % (name, ";\n  ".join(wrapper_coq(e) for e in ents))


def extract():
    global _CATALOGUE
    _CATALOGUE = None
    ents = catalogue()
    txt = ("(* GENERATED by harness/props/C18.py:extract() from the current source tree - do not edit.\n"
           "   One entry per Function subclass found by inspect in pypika.terms, pypika.functions, pypika.analytics\n"
           "   (plus CustomFunction), probed with distinguishable sentinel arguments. *)\n"
           "From PV Require Import Base Func.\nOpen Scope string_scope.\n\n" + catalogue_coq("catalogue", ents))
    return {"gen/C18Table.v": txt}


# ==============================================================================================
# sentinel arguments of the cases
# ==============================================================================================
# spec -> (python value, kind).  Every text is distinguishable by its index k.
def arg_value(spec):
    from pypika import Field, Case, functions as fn
    from pypika.enums import SqlTypes, DatePart
    t, k = spec[0], spec[1]
    if t == "field":
        return Field("s%d" % k), "PTerm"
    if t == "selfcall":                 # a call whose text contains the wrapper's own NAME( : NAME("z<k>") or CHECKNAME("z<k>")
        from pypika.terms import Function
        return Function(("CHECK" if k % 2 == 0 else "") + spec[2], Field("z%d" % k)), "PTerm"
    if t == "subq":                     # a scalar sub-query as an argument
        return subq("a", k), "PTerm"
    if t == "int":
        return 8100 + k, "PTerm"
    if t == "str":
        return "lit%d" % k, "PTerm"
    if t == "fn":                       # nested call: comma and parentheses inside
        return fn.Coalesce(Field("n%d" % k), 2000 + k), "PTerm"
    if t == "arith":
        return Field("s%d" % k) + (3000 + k), "PTerm"
    if t == "case":                     # spaces at level 0
        return Case().when(Field("c%d" % k) == 1, 4000 + k).else_(5000 + k), "PTerm"
    if t == "crit":
        return Field("b%d" % k).isnull(), "PTerm"
    if t == "none":
        return None, "PTerm"
    if t == "star":
        return "*", "PTerm"
    if t == "sqltype":                  # an object with get_sql: behaves like a term; the length is a numeric parameter
        if len(spec) > 2:
            return [SqlTypes.VARCHAR, SqlTypes.CHAR, SqlTypes.BINARY, SqlTypes.VARBINARY][spec[2] % 4](LEN_POOL[spec[2] % len(LEN_POOL)]), "PTerm"
        return (SqlTypes.VARCHAR(10 + k) if k % 2 else SqlTypes.LONG_VARCHAR), "PTerm"
    if t == "word":
        return ["YEAR", "MONTH", "DAY", "VARCHAR", "DECIMAL(10,2)", "HOUR"][k % 6], "PWord"
    if t == "lword":                    # lower-case word: Cast upper-cases a str type (oracle only)
        return ["year", "varchar"][k % 2], "PWordLower"
    if t == "num":                      # a numeric parameter of a special clause: the clause must carry the value given
        return (NUM_POOL[spec[2] % len(NUM_POOL)] if len(spec) > 2 else k + 0.25), "PNum"
    if t == "enum":
        return [DatePart.year, DatePart.quarter, DatePart.week, types.SimpleNamespace(value="utf8")][k % 4], "PEnum"
    raise ValueError(spec)


def arg_alone_text(spec):
    """The text this argument is expected to contribute, computed on the argument alone."""
    from pypika.terms import Term, Star
    v, kind = arg_value(spec)
    if spec[0] == "star":
        return Star().get_sql(with_alias=False, subquery=True, **_kw())
    if spec[0] == "sqltype" and len(spec) > 2:      # stated a priori: TYPE(length) with the length given
        return "%s(%d)" % (["VARCHAR", "CHAR", "BINARY", "VARBINARY"][spec[2] % 4], LEN_POOL[spec[2] % len(LEN_POOL)])
    if spec[0] == "sqltype":
        return v.get_sql(**_kw())
    if kind == "PTerm":
        return term_text(Term.wrap_constant(v))
    if kind == "PWord":
        return v
    if kind == "PWordLower":
        return v.upper()
    if kind == "PNum":
        return str(float(v))
    return str(v.value)


N_CRIT = 10


def subq(tag, k):
    """a scalar sub-query sentinel; its statement text is subq_inner(tag, k)"""
    from pypika import Query, Table, functions as fn
    u = Table("q%s%d" % (tag, k))
    return Query.from_(u).select(fn.Max(u.qx))


def subq_inner(tag, k):
    return 'SELECT MAX("qx") FROM "q%s%d"' % (tag, k)


def crit_atoms():
    """filter criteria: six simple ones, then OR-, AND-, XOR-complex ones and an AND whose left member is an OR"""
    from pypika import Field
    f = Field
    return [f("fa") == 1, f("fb") > 2, f("fc").isnull(), f("fd").between(1, 5), f("fe").like("x%"), f("ff") != "q",
            (f("ga") == 1) | (f("gb") == 1), (f("ha") == 1) & (f("hb") == 2), (f("ia") == 1) ^ (f("ib") > 2),
            ((f("ja") == 1) | (f("jb") == 1)) & (f("jc") == 3)]


def crit_obj(i):
    """index -1 is an EmptyCriterion (e.g. a dynamic Criterion.all([])); ["fncrit", NAME, k] is NAME("fq<k>")>1,
    a criterion whose text contains a function call of the given name"""
    from pypika import EmptyCriterion, Field
    from pypika.terms import Function
    if isinstance(i, list) and i[0] == "subcrit":     # a criterion with a scalar sub-query operand / an IN (sub-query)
        f = Field("fs%d" % i[1])
        return [f > subq("c", i[1]), f.isin(subq("c", i[1])), subq("c", i[1]) <= f][i[2] % 3]
    if isinstance(i, list):
        return Function(i[1], Field("fq%d" % i[2])) > 1
    return EmptyCriterion() if i < 0 else crit_atoms()[i]


def crit_is_empty(i):
    return not isinstance(i, list) and i < 0


def crit_text(i):
    """the criterion rendered alone (not as a sub-criterion)"""
    # like a statement's WHERE: sub-queries inside the criterion are parenthesised units (subquery=True)
    return None if crit_is_empty(i) else crit_obj(i).get_sql(subquery=True, **_kw())


def crit_needs_brackets(i):
    """an OR / XOR ComplexCriterion must keep its parentheses inside a conjunction"""
    from pypika.terms import ComplexCriterion
    from pypika.enums import Boolean
    c = crit_obj(i)
    return isinstance(c, ComplexCriterion) and c.comparator != Boolean.and_


def conj_text(specs):
    """what FILTER(WHERE ...) must contain for these (non-empty) criteria: the conjunction, written with the
    parentheses an OR/XOR member needs; one criterion alone stands as it is"""
    if len(specs) == 1:
        return crit_text(specs[0])
    return " AND ".join("(" + crit_text(i) + ")" if crit_needs_brackets(i) else crit_text(i) for i in specs)


def win_term(spec):
    """partition / order-by terms"""
    from pypika import Field, functions as fn
    t, k = spec
    if t == "field":
        return Field("w%d" % k)
    if t == "fn":
        return fn.Coalesce(Field("v%d" % k), 6000 + k)
    if t == "arith":
        return Field("w%d" % k) * (7000 + k)
    if t == "subq":
        return subq("w", k)
    raise ValueError(spec)


def win_text(spec):
    return win_term(spec).get_sql(subquery=True, **_kw())      # a sub-query term is one parenthesised unit


def bound_value(b):
    from pypika import analytics as an
    if b[0] == "cur":
        return an.CURRENT_ROW
    return (an.Preceding if b[0] == "prec" else an.Following)(*([] if b[1] is None else [offset_value(b[1])]))


def offset_value(n):
    """int, or ["f", 0.5] float, ["dec", "2.25"] Decimal, ["s", "1.5"] numeric str"""
    from decimal import Decimal
    if isinstance(n, list):
        return {"f": float, "dec": Decimal, "s": str}[n[0]](n[1])
    return n


# ==============================================================================================
# implementation
# ==============================================================================================
def build(case):
    """Build the pypika object of a case; raises what pypika raises."""
    from pypika import Schema
    from pypika.enums import Order
    values = [arg_value(s)[0] for s in case["args"]]
    schema = Schema(case["schema"]) if case.get("schema") else None
    if case["cls"] == "CustomFunction":
        params = case["params"]
        w = construct(case["mod"], "CustomFunction", [case["name"], None if params is None else ["p%d" % i for i in range(params)]],
                      values, alias=case.get("alias") if case.get("alias_ctor", True) else None, schema=schema)
    else:
        w = construct(case["mod"], case["cls"], case.get("name"), values,
                      alias=case.get("alias") if case.get("alias_ctor", True) else None, schema=schema)
    if case.get("alias") and not case.get("alias_ctor", True):
        w = w.as_(case["alias"])
    br = case.get("branch")
    if not br:
        return apply_ops_impl(w, case["ops"])
    # branching construction history: a base object (constructor + the first `prefix` calls) is kept in a variable and
    # specialised several times; every derived object and the base must render its OWN call history
    n = br["prefix"]
    base = apply_ops_impl(w, case["ops"][:n])
    sibs = [None] * len(br["others"])

    def derive(j):
        try:
            sibs[j] = apply_ops_impl(base, br["others"][j])
        except Exception as ex:  # noqa - a sibling that pypika refuses is recorded, not fatal
            sibs[j] = "!" + type(ex).__name__
    before = br.get("before", len(sibs))
    for j in range(min(before, len(sibs))):
        derive(j)
    own = apply_ops_impl(base, case["ops"][n:])
    for j in range(min(before, len(sibs)), len(sibs)):
        derive(j)
    case["_family"] = (base, sibs)
    return own


def apply_ops_impl(w, ops):
    from pypika.enums import Order
    for op in ops:
        k = op[0]
        if k == "distinct":
            w = w.distinct()
        elif k == "filter":
            w = w.filter(*[crit_obj(i) for i in op[1]])
        elif k == "over":
            w = w.over(*[win_term(t) for t in op[1]])
        elif k == "orderby":
            kw = {} if op[2] is None else {"order": Order.asc if op[2] == "asc" else Order.desc}
            w = w.orderby(*[win_term(t) for t in op[1]], **kw)
        elif k in ("rows", "range"):
            args = [bound_value(op[1])] + ([bound_value(op[2])] if op[2] is not None else [])
            w = getattr(w, k)(*args)
        elif k == "ignore_nulls":
            w = w.ignore_nulls()
        else:
            raise ValueError(k)
    return w


def render_kwargs(case):
    ro = case.get("ro", {})
    kw = {"quote_char": Q}
    if ro.get("with_alias"):
        kw["with_alias"] = True
    if ro.get("as_keyword"):
        kw["as_keyword"] = True
    if ro.get("alias_quote"):
        kw["alias_quote_char"] = ro["alias_quote"]
    if ro.get("secondary_quote"):
        kw["secondary_quote_char"] = ro["secondary_quote"]
    return kw


def run_impl(case):
    case = dict(case)
    try:
        w = build(case)
        kw = render_kwargs(case)
        fam = case.pop("_family", None)
        if fam is None:
            return {"text": w.get_sql(**kw), "name": w.name}

        def txt(o):
            if isinstance(o, str):
                return o
            try:
                return o.get_sql(**kw)
            except Exception as ex:  # noqa
                return "!" + type(ex).__name__
        base, sibs = fam
        order = case["branch"].get("render", "own-first")
        out = {"name": w.name}
        if order == "own-first":
            out["text"] = txt(w)
            out["siblings"] = [txt(x) for x in sibs]
            out["base"] = txt(base)
        elif order == "own-last":
            out["base"] = txt(base)
            out["siblings"] = [txt(x) for x in sibs]
            out["text"] = txt(w)
        else:   # siblings in reverse, own in the middle, base twice (rendering must not change anything either)
            first = txt(base)
            out["siblings"] = [txt(x) for x in reversed(sibs)][::-1]
            out["text"] = txt(w)
            out["base"] = txt(base)
            if out["base"] != first:
                out["base"] = "!unstable: %s | %s" % (first, out["base"])
        return out
    except Exception as ex:  # noqa
        return {"text": "!" + type(ex).__name__, "msg": str(ex)[:200]}


def family_cases(case, outcome):
    """the single-history cases a branching case implies: the base and every sibling with its own call history"""
    br = case.get("branch")
    if not br or "siblings" not in outcome:
        return []
    plain = {k: v for k, v in case.items() if k != "branch"}
    n = br["prefix"]
    out = [(dict(plain, ops=case["ops"][:n]), {"text": outcome["base"], "name": outcome.get("name")}, "base")]
    for j, (ops, t) in enumerate(zip(br["others"], outcome["siblings"])):
        out.append((dict(plain, ops=case["ops"][:n] + ops), {"text": t, "name": outcome.get("name")}, "sibling%d" % j))
    return out


# ==============================================================================================
# model side
# ==============================================================================================
def bound_coq(b):
    if b[0] == "cur":
        return "BCurrentRow"
    n = b[1]
    off = "None" if n is None else ("(Some (ORaw %s))" % S(str(offset_value(n))) if isinstance(n, list) else "(Some (OInt %s))" % Zc(n))
    return "(BEdge %s %s)" % ("Preceding" if b[0] == "prec" else "Following", off)


def op_coq(op):
    k = op[0]
    if k == "distinct":
        return "ODistinct"
    if k == "filter":
        return "(OFilter %s)" % L(["None" if crit_is_empty(i) else "(Some (%s, %s))" % (B(crit_needs_brackets(i)), S(crit_text(i)))
                                   for i in op[1]])
    if k == "over":
        return "(OOver %s)" % L([S(win_text(t)) for t in op[1]])
    if k == "orderby":
        return "(OOrderby %s %s)" % (L([S(win_text(t)) for t in op[1]]),
                                      "None" if op[2] is None else "(Some %s)" % ("Asc" if op[2] == "asc" else "Desc"))
    if k in ("rows", "range"):
        return "(OFrame %s %s %s)" % ("Rows" if k == "rows" else "Range", bound_coq(op[1]),
                                      "None" if op[2] is None else "(Some %s)" % bound_coq(op[2]))
    if k == "ignore_nulls":
        return "OIgnoreNulls"
    raise ValueError(k)


def to_coq(case, outcome):
    if "harness_exc" in outcome:
        return None
    catalogue()
    _set_case_kw(case)
    kinds = [arg_value(s)[1] for s in case["args"]]
    if any(kd not in KINDS for kd in kinds):
        return None                       # lower-case type words: outside the catalogue's sentinel kinds
    try:
        ts = [arg_alone_text(s) for s in case["args"]]
    except Exception:
        return None
    ro = case.get("ro", {})
    from pypika import Schema
    schema_text = Schema(case["schema"]).get_sql(quote_char=Q) if case.get("schema") else None
    ropts = "{| ro_with_alias := %s; ro_quote := %s; ro_alias_quote := %s; ro_as_keyword := %s |}" % (
        B(ro.get("with_alias", False)), OS(Q), OS(ro.get("alias_quote")), B(ro.get("as_keyword", False)))
    params = "None"
    if case["cls"] == "CustomFunction":
        params = "(Some %s)" % ("None" if case["params"] is None else "(Some %d)" % case["params"])
    return ("{| c_mod := %s; c_cls := %s; c_name := %s; c_params := %s; c_kinds := %s; c_ts := %s; c_alias := %s;\n"
            "    c_schema := %s; c_ops := %s; c_ro := %s; c_out := %s |}") % (
        S(case["mod"]), S(case["cls"]), OS(case.get("name")), params, L(kinds), L([S(t) for t in ts]),
        OS(case.get("alias")), OS(schema_text), L([op_coq(o) for o in case["ops"]]), ropts, S(outcome["text"]))


# ==============================================================================================
# generator
# ==============================================================================================
TERM_SPECS = ["field", "field", "field", "int", "str", "fn", "arith", "case", "crit", "subq"]


def pick_args(rng, kinds, variety=True, special=None, cls=None):
    """argument specs for a probed kind assignment; the position feeding the special clause (if any) only gets
    objects that render themselves (the kinds the class was probed with)"""
    out = []
    sp_ix = special[1] if special else None
    for k, kd in enumerate(kinds):
        if kd == "PTerm" and k == sp_ix:
            out.append([rng.choice(["field", "fn", "arith"] + (["sqltype", "sqltype", "sqltype"] if cls == "Cast" else ["subq"])) if variety else "field", k])
            if out[-1][0] == "sqltype" and rng.random() < 0.7:
                out[-1] = ["sqltype", k, rng.randrange(32)]
        elif kd == "PTerm":
            out.append([rng.choice(TERM_SPECS) if variety else "field", k])
        elif kd == "PWord":
            out.append(["word", k])
        elif kd == "PNum":
            out.append(["num", k, rng.randrange(len(NUM_POOL))] if variety else ["num", k])
        else:
            out.append(["enum", k])
    return out


def rand_bound(rng, allow_cur=True):
    r = rng.random()
    if allow_cur and r < 0.2:
        return ["cur"]
    return [rng.choice(["prec", "foll"]), rng.choice(BOUND_SET + BOUND_SET + FRACTION_SET + BIG_BOUNDS)]


def rand_frame(rng):
    k = rng.choice(["rows", "range"])
    if rng.random() < 0.5:
        return [k, rand_bound(rng), None]
    return [k, rand_bound(rng), rand_bound(rng)]


def rand_win_terms(rng, n, base):
    return [[rng.choice(["field", "field", "field", "fn", "arith", "subq"]), base + i] for i in range(n)]


def clause_ops(rng, e, flags):
    """ops for one presence combination; sub-shapes drawn from rng"""
    ops = []
    if flags.get("distinct"):
        ops.append(["distinct"])
    if flags.get("ignore_nulls"):
        ops.append(["ignore_nulls"])
    if flags.get("filter"):
        n = rng.choice([1, 1, 2, 2, 3])
        cs = rng.sample(range(N_CRIT), n)
        if rng.random() < 0.2:
            cs.insert(rng.randrange(len(cs) + 1), -1)               # an EmptyCriterion among the criteria
        if rng.random() < 0.15:
            cs.insert(rng.randrange(len(cs) + 1), ["subcrit", rng.randrange(3), rng.randrange(3)])   # a sub-query operand
        ops.append(["filter", cs])
        if rng.random() < 0.25:
            ops.append(["filter", rng.choice([[rng.randrange(N_CRIT)], [], [-1]])])
    if flags.get("over"):
        n = rng.choice([0, 1, 1, 2, 2])
        ops.append(["over", rand_win_terms(rng, n, 0)])
        if rng.random() < 0.2:
            ops.append(["over", rand_win_terms(rng, 1, 5)])
    if flags.get("orderby"):
        n = rng.choice([1, 1, 2])
        ops.append(["orderby", rand_win_terms(rng, n, 10), rng.choice([None, "asc", "desc"])])
        if rng.random() < 0.35:
            ops.append(["orderby", rand_win_terms(rng, 1, 15), rng.choice([None, "asc", "desc"])])
    if flags.get("frame"):
        ops.append(rand_frame(rng))
    if rng.random() < 0.3:
        rng.shuffle(ops)
    return ops


def flag_names(e):
    names = []
    if e["distinct"]:
        names.append("distinct")
    if e["agg"]:
        names.append("filter")
    if e["analytic"]:
        names += ["over", "orderby"]
    if e["frame"]:
        names.append("frame")
    if e["ignore_nulls"]:
        names.append("ignore_nulls")
    names.append("alias")
    if e["schema"]:
        names.append("schema")
    return names


def base_case(e, kinds, args):
    c = {"mod": e["module"], "cls": e["cls"], "args": args, "ops": [], "ro": {}}
    if e["named"]:
        c["name"] = "GEN_FN"
    if e["cls"] == "CustomFunction":
        c["params"] = len(args)
    return c


def wrapper_cases(rng, tier):
    out = []
    for e in catalogue():
        names = flag_names(e)
        for (kinds, slots, special) in e["probes"]:
            combos = list(itertools.product([False, True], repeat=len(names)))
            reps = 1 if tier == "quick" else 3
            if tier == "quick" and len(kinds) > 3 and e["cls"] != "Insert":
                combos = rng.sample(combos, min(len(combos), 4))      # long variadic probes: a sample of the flags
            for combo in combos:
                flags = dict(zip(names, combo))
                for _ in range(reps):
                    c = base_case(e, kinds, pick_args(rng, kinds, True, special, e["cls"]))
                    c["ops"] = clause_ops(rng, e, flags)
                    if e["distinct"] and kinds and kinds[0] == "PTerm" and rng.random() < 0.4:
                        c["args"][0] = ["selfcall", rng.randrange(2), "GEN_FN" if e["named"] else e["sql"]]
                    if flags.get("alias"):
                        c["alias"] = rng.choice(["al", "my alias", "x"])
                        c["alias_ctor"] = bool(e["alias"]) and rng.random() < 0.8
                        c["ro"] = {"with_alias": rng.random() < 0.85, "as_keyword": rng.random() < 0.3}
                        if rng.random() < 0.15:
                            c["ro"]["alias_quote"] = "`"
                    else:
                        c["ro"] = {"with_alias": rng.random() < 0.5}
                    if rng.random() < 0.1:
                        c["ro"]["secondary_quote"] = "`"      # forwarded to the arguments: string literals are quoted with it
                    if flags.get("schema"):
                        c["schema"] = rng.choice(["sc", "my schema"])
                    out.append(c)
    return out


def frame_block(rng):
    """complete: 2 kinds x (13 single bounds + 13x13 BETWEEN pairs) on one window class, inside OVER"""
    bounds = [["cur"]] + [[d, n] for d in ("prec", "foll") for n in BOUND_SET + FRACTION_SET[:3]]
    out = []
    clss = [("pypika.analytics", "Sum"), ("pypika.analytics", "FirstValue"), ("pypika.terms", "WindowFrameAnalyticFunction"),
            ("pypika.analytics", "Max")]
    i = 0
    for k in ("rows", "range"):
        for b in bounds:
            for ab in [None] + bounds:
                mod, cls = clss[i % len(clss)]
                i += 1
                c = {"mod": mod, "cls": cls, "args": [["field", 0]], "ro": {},
                     "ops": [["over", [["field", 0]]] if i % 3 else ["orderby", [["field", 1]], "desc" if i % 2 else None],
                             [k, b, ab]]}
                if cls == "WindowFrameAnalyticFunction":
                    c["name"] = "GEN_FN"
                out.append(c)
    return out


def window_full(rng):
    """thorough tier: complete sub-shape product for every class that supports frames"""
    out = []
    filt = [None, [0], [1, 2]]
    over = [None, [], [["field", 0]], [["fn", 0], ["field", 1]]]
    order = [None, [[["field", 10]], None], [[["arith", 10]], "asc"], [[["field", 10], ["fn", 11]], "desc"]]
    frames = [None, ["rows", ["prec", 0], None], ["range", ["foll", None], None], ["rows", ["prec", 2], ["cur"]],
              ["range", ["prec", None], ["foll", 10 ** 9]]]
    for e in catalogue():
        if not e["frame"]:
            continue
        kinds = e["probes"][0][0] if len(e["probes"][0][0]) else e["probes"][min(1, len(e["probes"]) - 1)][0]
        for f, ov, od, fr in itertools.product(filt, over, order, frames):
            c = base_case(e, kinds, pick_args(rng, kinds))
            if f is not None:
                c["ops"].append(["filter", f])
            if ov is not None:
                c["ops"].append(["over", ov])
            if od is not None:
                c["ops"].append(["orderby", od[0], od[1]])
            if fr is not None:
                c["ops"].append(fr)
            if e["ignore_nulls"] and rng.random() < 0.5:
                c["ops"].append(["ignore_nulls"])
            out.append(c)
    return out


def generic_cases(rng, n):
    out = []
    for _ in range(n):
        r = rng.random()
        na = rng.randrange(0, 7)
        args = [[rng.choice(TERM_SPECS), k] for k in range(na)]
        if r < 0.45:
            mod, cls = rng.choice([("pypika.terms", "Function"), ("pypika.terms", "AggregateFunction"),
                                   ("pypika.terms", "AnalyticFunction"), ("pypika.functions", "DistinctOptionFunction"),
                                   ("pypika.terms", "WindowFrameAnalyticFunction"), ("pypika.terms", "IgnoreNullsAnalyticFunction")])
            e = [x for x in catalogue() if x["module"] == mod and x["cls"] == cls][0]
            names = flag_names(e)
            flags = {nm: rng.random() < 0.4 for nm in names}
            c = {"mod": mod, "cls": cls, "name": rng.choice(["F", "MY_FUNC", "x", "LONGER_NAME_1"]), "args": args,
                 "ops": clause_ops(rng, e, flags), "ro": {"with_alias": rng.random() < 0.5}}
            if flags.get("alias"):
                c["alias"] = "ga"
            if flags.get("schema"):
                c["schema"] = "gs"
            out.append(c)
        elif r < 0.8:
            declared = rng.random() < 0.8
            c = {"mod": "pypika.terms", "cls": "CustomFunction", "name": rng.choice(["CF", "DATE_DIFF", "f"]),
                 "params": na if declared else None, "args": args, "ops": [], "ro": {"with_alias": rng.random() < 0.5}}
            if rng.random() < 0.3:
                c["alias"] = "ca"
            out.append(c)
        else:
            mod, cls = rng.choice([("pypika.functions", "Concat"), ("pypika.functions", "Coalesce"), ("pypika.terms", "Rollup"),
                                   ("pypika.analytics", "Lag"), ("pypika.analytics", "Lead"), ("pypika.analytics", "FirstValue"),
                                   ("pypika.analytics", "LastValue")])
            if cls == "Coalesce" and na == 0:
                args = [["field", 0]]
            out.append({"mod": mod, "cls": cls, "args": args, "ops": [], "ro": {}})
    return out


def malformed_cases(rng, n):
    out = []
    ents = catalogue()
    for _ in range(n):
        e = rng.choice(ents)
        if not e["probes"]:
            continue
        kinds, _, special = rng.choice(e["probes"])
        c = base_case(e, kinds, pick_args(rng, kinds, False, special, e["cls"]))
        r = rng.random()
        if r < 0.3:       # a clause method the class may not have
            c["ops"] = [rng.choice([["distinct"], ["filter", [0]], ["over", [["field", 0]]], ["orderby", [["field", 0]], None],
                                    ["rows", ["prec", 1], None], ["ignore_nulls"]])]
        elif r < 0.5 and e["frame"]:
            c["ops"] = [["over", []], rand_frame(rng), rand_frame(rng)]
        elif r < 0.7 and e["agg"]:
            c["ops"] = [["filter", rng.choice([[], [-1], [-1, -1]])]] + ([["over", []]] if e["analytic"] and rng.random() < 0.5 else [])
        elif r < 0.8 and e["frame"]:
            c["ops"] = [rand_frame(rng)]                           # frame without over()/orderby()
        elif r < 0.9 and e["cls"] != "CustomFunction" and (e["schema"] or not signature_info(find_class(e["module"], e["cls"]))[5]):
            c["schema"] = "sc"          # constructors without **kwargs reject it (TypeError); DistinctOptionFunction(name, **kwargs)
                                        # swallows it silently and is left out                                      # schema= where the constructor may not take it
        else:
            if e["cls"] == "CustomFunction":
                c["params"] = len(c["args"]) + rng.choice([-1, 1, 2]) if c["args"] else 2
            else:
                c = {"mod": "pypika.terms", "cls": "CustomFunction", "name": "CF", "params": rng.choice([None, 0, 1, 3]),
                     "args": [["field", 0], ["field", 1]], "ops": [], "ro": {}}
        out.append(c)
    return out


def distinct_block(rng):
    """every class with .distinct(): arguments / filter criteria whose own text contains the wrapper's NAME( ,
    with and without DISTINCT, and multi-criteria filters with OR/XOR members"""
    out = []
    for e in catalogue():
        if not e["distinct"]:
            continue
        name = "GEN_FN" if e["named"] else e["sql"]
        for kinds, slots, special in e["probes"]:
            if not kinds or len(kinds) > 2:
                continue
            for distinct in (True, False):
                for variant in range(6):
                    args = pick_args(rng, kinds, False, special, e["cls"])
                    ops = [["distinct"]] if distinct else []
                    if variant in (0, 1, 4):
                        args[0] = ["selfcall", variant % 2, name]
                    if variant in (2, 4):
                        ops.append(["filter", [["fncrit", name, 0]]])
                    if variant == 3:
                        ops.append(["filter", [["fncrit", "CHECK" + name, 1], 6]])
                    if variant == 5:
                        ops += [["filter", [6, 0]], ["filter", [8]]]
                    if variant % 2:
                        rng.shuffle(ops)
                    out.append(dict(base_case(e, kinds, args), ops=ops))
    return out


def filter_block(rng):
    """every ordered pair of criteria (simple, OR, AND, XOR, AND-over-OR) in one call and in two calls, on one
    aggregate and one analytic class: complete over the criterion shapes"""
    out = []
    shapes = [0, 3, 6, 7, 8, 9]
    clss = [("pypika.functions", "Sum"), ("pypika.analytics", "Sum"), ("pypika.functions", "Count"), ("pypika.analytics", "FirstValue")]
    i = 0
    for a in shapes:
        out.append({"mod": "pypika.functions", "cls": "Avg", "args": [["field", 0]], "ops": [["filter", [a]]], "ro": {}})
        for b in shapes:
            for split in (False, True):
                mod, cls = clss[i % len(clss)]
                i += 1
                ops = [["filter", [a]], ["filter", [b]]] if split else [["filter", [a, b]]]
                if cls == "FirstValue" or (mod.endswith("analytics") and i % 2):
                    ops.append(["over", [["field", 0]]])
                out.append({"mod": mod, "cls": cls, "args": [["field", 0]], "ops": ops, "ro": {}})
    return out


def branch_block(rng, tier):
    """branching construction histories: a base wrapper (constructor + a prefix of clause calls) kept in a variable and
    specialised 2-3 times; every member of the family (base included) takes the role of the object compared with the
    model, the others are derived before/after it and rendered before/after it"""
    out = []
    reps = 2 if tier == "quick" else 8
    for e in catalogue():
        names = [n for n in flag_names(e) if n not in ("alias", "schema")]
        if not names or not e["probes"]:
            continue
        small = [p for p in e["probes"] if len(p[0]) <= 2] or e["probes"][:1]
        for _ in range(reps):
            kinds, slots, special = rng.choice(small)
            args = pick_args(rng, kinds, True, special, e["cls"])
            prefix = clause_ops(rng, e, {n: rng.random() < 0.35 for n in names})
            branches = []
            for j in range(rng.choice([2, 2, 3])):
                chosen = rng.sample(names, min(len(names), rng.choice([1, 1, 2])))
                ops = clause_ops(rng, e, {n: True for n in chosen})
                # distinguishable window terms per branch
                for op in ops:
                    if op[0] in ("over", "orderby"):
                        op[1] = [[t[0], t[1] + 20 * (j + 1)] for t in op[1]]
                branches.append(ops)
            family = branches + [[]]                      # the base itself is a member
            for i, own in enumerate(family):
                others = [b for k2, b in enumerate(family) if k2 != i and b != []]
                c = base_case(e, kinds, args)
                c["ops"] = prefix + own
                c["ro"] = {"with_alias": False}
                c["branch"] = {"prefix": len(prefix), "others": others, "before": rng.randrange(len(others) + 1),
                               "render": rng.choice(["own-first", "own-last", "mixed"])}
                out.append(c)
    return out


def numeric_block(rng):
    """every numeric parameter of a special clause over its whole value pool: ApproximatePercentile's percentile
    (every class whose probe has a PNum argument), CAST(.. AS TYPE(length)), frame offsets (single bounds)"""
    out = []
    for e in catalogue():
        for kinds, slots, special in e["probes"]:
            if "PNum" not in kinds:
                continue
            for j in range(len(NUM_POOL)):
                args = [["num", k, j] if kd == "PNum" else (["field", k] if kd == "PTerm" else pick_args(rng, [kd])[0][:1] + [k]) for k, kd in enumerate(kinds)]
                c = base_case(e, kinds, args)
                if e["agg"] and j % 3 == 0:
                    c["ops"] = [["filter", [0]]]
                out.append(c)
    for j in range(32):
        out.append({"mod": "pypika.functions", "cls": "Cast", "args": [["field", 0], ["sqltype", 1, j]], "ops": [], "ro": {}})
    for n in FRACTION_SET + BIG_BOUNDS:
        for d in ("prec", "foll"):
            out.append({"mod": "pypika.analytics", "cls": "Avg", "args": [["field", 0]], "ro": {},
                        "ops": [["orderby", [["field", 1]], None], ["range", [d, n], None]]})
    return out


def subquery_block(rng):
    """a scalar sub-query in every position of the family: plain argument, inside CAST / EXTRACT, FILTER criterion operand
    (alone, first, last; > , IN, reversed), PARTITION BY term, ORDER BY term with and without direction, all at once"""
    S0, Q0, Q1 = ["field", 0], ["subq", 0], ["subq", 1]
    out = [
        {"mod": "pypika.functions", "cls": "Coalesce", "args": [Q0, ["int", 1]], "ops": []},
        {"mod": "pypika.functions", "cls": "Cast", "args": [Q0, ["word", 3]], "ops": []},
        {"mod": "pypika.functions", "cls": "Extract", "args": [["word", 0], Q1], "ops": []},
        {"mod": "pypika.functions", "cls": "Sum", "args": [Q0], "ops": [["distinct"]]},
        {"mod": "pypika.terms", "cls": "Function", "name": "GEN_FN", "args": [S0, Q1, ["subq", 2]], "ops": []},
    ]
    for form in range(3):
        sc = ["subcrit", form, form]
        for cs in ([sc], [sc, 0], [6, sc], [0, sc, ["subcrit", 2, (form + 1) % 3]]):
            out.append({"mod": "pypika.functions", "cls": "Sum", "args": [S0], "ops": [["filter", cs]]})
            out.append({"mod": "pypika.analytics", "cls": "Max", "args": [S0], "ops": [["filter", cs], ["over", [["field", 0]]]]})
    for d in (None, "asc", "desc"):
        out.append({"mod": "pypika.analytics", "cls": "Sum", "args": [S0], "ops": [["over", [["field", 0]]], ["orderby", [["subq", 1]], d]]})
        out.append({"mod": "pypika.analytics", "cls": "Rank", "args": [], "ops": [["orderby", [["field", 0], ["subq", 1]], d]]})
    out.append({"mod": "pypika.analytics", "cls": "Sum", "args": [S0], "ops": [["over", [["subq", 0]]]]})
    out.append({"mod": "pypika.analytics", "cls": "Sum", "args": [S0], "ops": [["over", [["field", 0], ["subq", 1], ["fn", 2]]]]})
    out.append({"mod": "pypika.analytics", "cls": "FirstValue", "args": [Q0], "alias": "al",
                "ops": [["ignore_nulls"], ["filter", [["subcrit", 0, 0], 1]], ["over", [["subq", 1]]], ["orderby", [["subq", 2]], "desc"],
                        ["rows", ["prec", 1], ["cur"]]], "ro": {"with_alias": True}})
    for c in out:
        c.setdefault("ro", {})
    return out


def gen_cases(rng, tier):
    out = numeric_block(rng) + subquery_block(rng) + frame_block(rng) + distinct_block(rng) + filter_block(rng) + branch_block(rng, tier) + wrapper_cases(rng, tier)
    out += generic_cases(rng, 300 if tier == "quick" else 4000)
    out += malformed_cases(rng, 150 if tier == "quick" else 1500)
    if tier != "quick":
        out += window_full(rng)
    return out


def corpus():
    s0 = [["field", 0]]
    return [
        # fixed (9b8ab76, b46d576): filter() without criteria / with only empty criteria could not render (TypeError)
        {"mod": "pypika.functions", "cls": "Sum", "args": s0, "ops": [["filter", []]], "ro": {}},
        {"mod": "pypika.analytics", "cls": "Sum", "args": s0, "ops": [["filter", []], ["over", []]], "ro": {}},
        {"mod": "pypika.functions", "cls": "Sum", "args": s0, "ops": [["filter", [-1]]], "ro": {}},
        {"mod": "pypika.functions", "cls": "Count", "args": s0, "ops": [["filter", [-1, 1, -1]], ["filter", [-1, -1]], ["filter", [0]]], "ro": {}},
        # fixed (356e88f): a frame without over()/orderby() was dropped
        {"mod": "pypika.analytics", "cls": "Sum", "args": s0, "ops": [["rows", ["prec", 3], ["foll", None]]], "ro": {}},
        {"mod": "pypika.analytics", "cls": "Max", "args": s0, "ops": [["range", ["cur"], None], ["filter", [2]]], "ro": {}},
        # fixed (b2a2b7a): CustomFunction without declared params ignored its call arguments
        {"mod": "pypika.terms", "cls": "CustomFunction", "name": "CF", "params": None, "args": [["field", 0], ["field", 1]],
         "ops": [], "ro": {}},
        # fixed (b529b5f): a scalar sub-query in FILTER / PARTITION BY / ORDER BY / EXTRACT(.. FROM ..) was not parenthesised
        {"mod": "pypika.functions", "cls": "Sum", "args": s0, "ops": [["filter", [["subcrit", 0, 0]]]], "ro": {}},
        {"mod": "pypika.analytics", "cls": "Sum", "args": s0, "ops": [["over", [["field", 0]]], ["orderby", [["subq", 1]], None]], "ro": {}},
        {"mod": "pypika.analytics", "cls": "Sum", "args": s0, "ops": [["over", [["subq", 0]]]], "ro": {}},
        {"mod": "pypika.functions", "cls": "Extract", "args": [["word", 0], ["subq", 1]], "ops": [], "ro": {}},
        # red-team seed C18-19: a numeric special-clause parameter arrives as given (no rounding)
        {"mod": "pypika.functions", "cls": "ApproximatePercentile", "args": [["field", 0], ["num", 1, 0]], "ops": [], "ro": {}},
        {"mod": "pypika.functions", "cls": "ApproximatePercentile", "args": [["field", 0], ["num", 1, 1]], "ops": [["filter", [0]]], "ro": {}},
        # red-team seed C18-11: a base window specialised twice must not share its ORDER BY / PARTITION BY / FILTER lists
        {"mod": "pypika.analytics", "cls": "Sum", "args": s0, "ops": [["over", [["field", 0]]], ["orderby", [["field", 31]], None]], "ro": {},
         "branch": {"prefix": 1, "others": [[["orderby", [["field", 32]], "desc"]]], "before": 1, "render": "own-last"}},
        {"mod": "pypika.analytics", "cls": "Rank", "args": [], "ops": [["orderby", [["field", 30]], None], ["orderby", [["field", 31]], "asc"]], "ro": {},
         "branch": {"prefix": 1, "others": [[["orderby", [["field", 32]], None]], [["over", [["field", 33]]]]], "before": 0, "render": "own-first"}},
        {"mod": "pypika.analytics", "cls": "Sum", "args": s0, "ops": [["over", [["field", 0]]]], "ro": {},
         "branch": {"prefix": 1, "others": [[["orderby", [["field", 32]], None]], [["filter", [0]], ["over", [["field", 34]]]]], "before": 2,
                    "render": "mixed"}},
        # red-team seeds C18-1/2/4: DISTINCT once; OR criterion inside a conjunction; fractional offsets
        {"mod": "pypika.functions", "cls": "Sum", "args": [["selfcall", 0, "SUM"]], "ops": [["distinct"]], "ro": {}},
        {"mod": "pypika.functions", "cls": "Count", "args": s0, "ops": [["distinct"], ["filter", [["fncrit", "COUNT", 0]]]], "ro": {}},
        {"mod": "pypika.functions", "cls": "Sum", "args": s0, "ops": [["filter", [6, 0]]], "ro": {}},
        {"mod": "pypika.functions", "cls": "Count", "args": [["star", 0]], "ops": [["filter", [1]], ["filter", [6]]], "ro": {}},
        {"mod": "pypika.analytics", "cls": "Sum", "args": s0, "ops": [["orderby", [["field", 0]], None],
                                                                      ["range", ["prec", ["f", 0.5]], ["foll", ["dec", "1.5"]]]], "ro": {}},
        # fixed defect (5862a90): bound 0
        {"mod": "pypika.analytics", "cls": "Sum", "args": s0, "ops": [["over", [["field", 0]]], ["rows", ["prec", 0], ["foll", 0]]], "ro": {}},
        # everything at once
        {"mod": "pypika.analytics", "cls": "FirstValue", "args": [["field", 0], ["fn", 1]], "alias": "al", "schema": "sc",
         "ops": [["ignore_nulls"], ["filter", [0, 1]], ["over", [["field", 0], ["fn", 1]]], ["orderby", [["field", 10]], "desc"],
                 ["orderby", [["arith", 11]], None], ["range", ["prec", 10 ** 9], ["cur"]]], "ro": {"with_alias": True, "as_keyword": True}},
        {"mod": "pypika.functions", "cls": "Count", "args": [["star", 0]], "ops": [["distinct"], ["filter", [2]]], "alias": "n",
         "ro": {"with_alias": True}},
        {"mod": "pypika.functions", "cls": "Cast", "args": [["case", 0], ["sqltype", 1]], "ops": [], "ro": {}},
        {"mod": "pypika.functions", "cls": "Cast", "args": [["field", 0], ["lword", 1]], "ops": [], "ro": {}},
        {"mod": "pypika.functions", "cls": "Extract", "args": [["enum", 0], ["field", 1]], "ops": [], "ro": {}},
        {"mod": "pypika.functions", "cls": "DateAdd", "args": [["word", 0], ["int", 1], ["field", 2]], "ops": [], "ro": {}},
        {"mod": "pypika.functions", "cls": "RegexpLike", "args": [["field", 0], ["str", 1]], "ops": [], "ro": {}},
        {"mod": "pypika.functions", "cls": "CurTimestamp", "args": [], "ops": [], "alias": "ts", "ro": {"with_alias": True}},
        {"mod": "pypika.analytics", "cls": "FirstValue", "args": [], "ops": [["ignore_nulls"], ["over", []], ["rows", ["prec", None], None]], "ro": {}},
    ]


# ==============================================================================================
# oracle: the property's observable on the implementation, independent of the model
# ==============================================================================================
def _match_paren(s, i):
    """index of the parenthesis closing the one at s[i] ('...' and "..." literals skipped); -1 if none"""
    d, j, n = 0, i, len(s)
    while j < n:
        ch = s[j]
        if ch in "'\"":
            k = j + 1
            while k < n:
                if s[k] == ch:
                    if k + 1 < n and s[k + 1] == ch:
                        k += 2
                        continue
                    break
                k += 1
            j = k + 1
            continue
        if ch == "(":
            d += 1
        elif ch == ")":
            d -= 1
            if d == 0:
                return j
        j += 1
    return -1


def _split_top(s, seps=","):
    """split at level-0 separators outside quotes"""
    out, d, cur, j, n = [], 0, "", 0, len(s)
    while j < n:
        ch = s[j]
        if ch in "'\"":
            k = j + 1
            while k < n:
                if s[k] == ch:
                    if k + 1 < n and s[k + 1] == ch:
                        k += 2
                        continue
                    break
                k += 1
            cur += s[j:k + 1]
            j = k + 1
            continue
        if ch == "(":
            d += 1
        elif ch == ")":
            d -= 1
        if ch in seps and d == 0:
            out.append(cur)
            cur = ""
        else:
            cur += ch
        j += 1
    out.append(cur)
    return out


def _balanced(s):
    d, j, n = 0, 0, len(s)
    while j < n:
        ch = s[j]
        if ch in "'\"":
            k = s.find(ch, j + 1)
            while k != -1 and k + 1 < n and s[k + 1] == ch:
                k = s.find(ch, k + 2)
            if k == -1:
                return False
            j = k + 1
            continue
        if ch == "(":
            d += 1
        elif ch == ")":
            d -= 1
            if d < 0:
                return False
        j += 1
    return d == 0


_SPECIAL_RE = re.compile(r"^(.*?)\s+(AS|FROM|USING|IGNORE NULLS)\b(.*)$", re.S)


def _top_keyword_split(item):
    """(argument part, special clause or None): special begins at a level-0 AS/FROM/USING/IGNORE NULLS keyword"""
    d, j, n = 0, 0, len(item)
    while j < n:
        ch = item[j]
        if ch in "'\"":
            k = j + 1
            while k < n and not (item[k] == ch and not (k + 1 < n and item[k + 1] == ch)):
                k += 2 if item[k] == ch else 1
            j = k + 1
            continue
        if ch == "(":
            d += 1
        elif ch == ")":
            d -= 1
        elif ch == " " and d == 0:
            m = re.match(r" (AS |FROM |USING |IGNORE NULLS$)", item[j:])
            if m:
                return item[:j], item[j + 1:]
        j += 1
    return item, None


def _subqueries(case):
    """(clause, class that renders the clause, statement text) of every sub-query sentinel handed in"""
    out = []
    special_ix = None
    for e in catalogue():
        if e["module"] == case["mod"] and e["cls"] == case["cls"]:
            for kinds, slots, special in e["probes"]:
                if len(kinds) == len(case["args"]) and special and special[1] is not None:
                    special_ix = special[1]
    for k, sp in enumerate(case["args"]):
        if sp[0] == "subq":
            out.append(("special", case["cls"], subq_inner("a", sp[1])) if k == special_ix else ("args", "Function", subq_inner("a", sp[1])))
    for op in case["ops"] + [o for b in (case.get("branch") or {}).get("others", []) for o in b]:
        if op[0] == "filter":
            out += [("filter", "AggregateFunction", subq_inner("c", i[1])) for i in op[1] if isinstance(i, list) and i[0] == "subcrit"]
        elif op[0] in ("over", "orderby"):
            out += [("over-" + ("partition" if op[0] == "over" else "orderby"), "AnalyticFunction", subq_inner("w", t[1]))
                    for t in op[1] if t[0] == "subq"]
    return out


def _expect(case):
    """What the case asks for, in the property's terms (no rendering logic of the wrappers involved)."""
    ex = {"distinct": False, "ignore_nulls": False, "filters": None, "over": False, "partition": [], "order": [],
          "frame": None, "frames": 0}
    for op in case["ops"]:
        k = op[0]
        if k == "distinct":
            ex["distinct"] = True
        elif k == "ignore_nulls":
            ex["ignore_nulls"] = True
        elif k == "filter":
            real = [i for i in op[1] if not crit_is_empty(i)]
            ex["filter_calls"] = ex.get("filter_calls", []) + [list(op[1])]
            if real:                      # empty criteria are neutral; a call without any real criterion asks for nothing
                ex["filters"] = (ex["filters"] or []) + real
        elif k == "over":
            ex["over"] = True
            ex["partition"] += [win_text(t) for t in op[1]]
        elif k == "orderby":
            ex["over"] = True
            ex["order"] += [(win_text(t), None if op[2] is None else op[2].upper()) for t in op[1]]
        elif k in ("rows", "range"):
            ex["over"] = True             # a frame is part of the OVER clause: asking for one asks for OVER(...)
            ex["frames"] += 1
            if ex["frame"] is None:
                ex["frame"] = (k.upper(), op[1], op[2])
    return ex


def _bound_denotes(text, b):
    """the bound text denotes the number given: an int as its decimal numeral, anything else as str(value)
    (a float/Decimal/numeric str keeps its fractional part), UNBOUNDED only when no number was given"""
    text = text.strip()
    if b[0] == "cur":
        return text == "CURRENT ROW"
    m = re.fullmatch(r"(\S+) (PRECEDING|FOLLOWING)", text)
    if not m:
        return False
    if m.group(2) != ("PRECEDING" if b[0] == "prec" else "FOLLOWING"):
        return False
    if b[1] is None:
        return m.group(1) == "UNBOUNDED"
    if m.group(1) == "UNBOUNDED":
        return False
    v = offset_value(b[1])
    try:
        from decimal import Decimal
        return Decimal(m.group(1)) == Decimal(str(v))
    except Exception:
        return m.group(1) == str(v)


def _supports(obj_cls, op):
    need = {"distinct": ["distinct"], "filter": ["filter"], "over": ["over"], "orderby": ["orderby"], "rows": ["rows"],
            "range": ["range"], "ignore_nulls": ["ignore_nulls"]}[op]
    return all(hasattr(obj_cls, a) for a in need)


def _expected_exception(case):
    """exceptions the API documents for this call: unsupported clause method, second frame, CustomFunction arity,
    schema= on a constructor that does not take it"""
    from pypika.terms import Function
    if case["cls"] == "CustomFunction":
        if case["params"] is not None and case["params"] != len(case["args"]):
            return "FunctionException"
        cls = Function
    else:
        cls = find_class(case["mod"], case["cls"])
        if case.get("schema"):
            _, _, _, _, _, takes_kwargs = signature_info(cls)
            if not takes_kwargs or issubclass(cls, find_class("pypika.functions", "DistinctOptionFunction")):
                return "TypeError"
    frames = 0
    for op in case["ops"]:
        if not _supports(cls, op[0]):
            return "AttributeError"
        if op[0] in ("rows", "range"):
            frames += 1
            if frames > 1:
                return "AttributeError"
    return None


def oracle(case, outcome):
    """own history, and - for a branching case - the base's and every sibling's own history"""
    V = list(_oracle_one(case, outcome))
    for c2, o2, role in family_cases(case, outcome):
        for v in _oracle_one(c2, o2):
            v = dict(v)
            v["what"] = "[%s of a branching history: base = first %d calls, own = %s, others = %s] %s" % (
                role, case["branch"]["prefix"], case["ops"][case["branch"]["prefix"]:], case["branch"]["others"], v["what"])
            V.append(v)
    return V


def _oracle_one(case, outcome):
    if "harness_exc" in outcome:
        return [{"signature": ["C18", case["cls"], "harness", "crash"], "what": outcome["harness_exc"]}]
    text = outcome["text"]
    cls = case["cls"]
    V = []
    catalogue()
    _set_case_kw(case)

    def viol(clause, what, msg, owner=None):
        V.append({"signature": ["C18", owner or cls, clause, what], "what": "%s.%s: %s; text=%r" % (case["mod"], cls, msg, text)})

    want_exc = _expected_exception(case)
    if text.startswith("!"):
        got = text[1:]
        if want_exc == got:
            return []
        ex = _expect(case)
        calls = ex.get("filter_calls", [])
        if got == "TypeError" and ex["filters"] is None and calls:
            what = "no-criteria-TypeError" if all(c == [] for c in calls) else "empty-criterion-TypeError"
            viol("filter", what, "filter() without a non-empty criterion cannot be rendered (%s)" % outcome.get("msg", ""),
                 owner="AggregateFunction")
        else:
            viol("render", "exception:" + got, "raises %s: %s" % (got, outcome.get("msg", "")))
        return V
    if want_exc is not None:
        # the implementation was lenient where an error is documented: not a C18 matter
        return []
    ex = _expect(case)
    try:
        sent = [arg_alone_text(s) for s in case["args"]]
    except Exception:
        return []
    from pypika import Schema
    name = outcome.get("name") or ""
    if case.get("name"):
        name = case["name"]
    prefix = (Schema(case["schema"]).get_sql(quote_char=Q) + ".") if case.get("schema") else ""
    # ---- alias part -------------------------------------------------------------------------------
    ro = case.get("ro", {})
    body = text
    if case.get("alias") and ro.get("with_alias"):
        aq = ro.get("alias_quote") or Q
        tail = (" AS " if ro.get("as_keyword") else " ") + aq + case["alias"] + aq
        if text.endswith(tail):      # the alias itself is C13's business: strip it when present, never report it
            body = text[:len(text) - len(tail)]
    # ---- the documented bare form -----------------------------------------------------------------
    if cls == "CurTimestamp" and not case["args"]:
        if body != prefix + "CURRENT_TIMESTAMP":
            viol("name", "bare-form", "CURRENT_TIMESTAMP is documented to render bare")
        return V
    if not _balanced(text):
        viol("parens", "unbalanced", "parentheses are not balanced")
        return V
    # ---- a sub-query part is one parenthesised unit wherever it occurs ------------------------------
    for where, owner, inner in _subqueries(case):
        for m in re.finditer(re.escape(inner), text):
            if not (m.start() > 0 and text[m.start() - 1] == "(" and text[m.end():m.end() + 1] == ")"):
                viol(where, "subquery-not-parenthesised", "the sub-query %r given as %s is not rendered as one parenthesised unit"
                     % (inner, where), owner=owner)
                return V
    # ---- name and the one argument list -------------------------------------------------------------
    if not re.fullmatch(r"[A-Za-z_][A-Za-z0-9_$]*", name):
        viol("name", "not-an-identifier", "SQL name %r is not a single identifier" % name)
        return V
    if not body.startswith(prefix + name + "(") or not name:
        viol("name", "name-or-open-paren", "does not start with %r" % (prefix + name + "("))
        return V
    i0 = len(prefix + name)
    i1 = _match_paren(body, i0)
    if i1 < 0:
        viol("parens", "unclosed", "argument list is not closed")
        return V
    inner, rest = body[i0 + 1:i1], body[i1:][1:]
    # DISTINCT first inside the parentheses
    has_distinct = inner.startswith("DISTINCT ")
    if has_distinct != ex["distinct"]:
        viol("distinct", "missing" if ex["distinct"] else "unexpected", "DISTINCT keyword right after '(' expected=%s" % ex["distinct"])
    if has_distinct:
        inner = inner[len("DISTINCT "):]
    items = _split_top(inner) if inner != "" else []
    special = None
    if items:
        last, special = _top_keyword_split(items[-1])
        items[-1] = last
        items = [it.strip() for it in items]          # token structure: white space around items is immaterial
        special = special.strip() if special is not None else None
        if items == [""]:
            items = []
    # CustomFunction without declared parameters: the call arguments are the arguments
    # every argument exactly once, in call order, inside the parentheses (list items, then the special clause)
    stream = list(items) + ([special] if special is not None else [])
    pos = []
    for k, t in enumerate(sent):
        hits = [j for j, it in enumerate(stream) if it == t or (j == len(stream) - 1 and special is not None and it.endswith(" " + t) or (special is not None and j == len(stream) - 1 and it.endswith("=" + t)))]
        whole = text.count(t)
        if not hits:
            if cls == "CustomFunction" and case["params"] is None:
                viol("args", "dropped-without-declared-params", "call argument %d (%s) is not rendered" % (k, t))
            else:
                viol("args", "missing", "argument %d (%s) is not an item of the argument list" % (k, t))
            return V
        if len(hits) > 1 or whole > 1:
            viol("args", "duplicated", "argument %d (%s) occurs more than once" % (k, t))
            return V
        pos.append(hits[0])
    if pos != sorted(pos) or len(set(pos)) != len(pos):
        viol("args", "reordered", "arguments appear at positions %s, not in call order" % pos)
        return V
    # no sentinel outside the main parentheses (special clause must be inside)
    for k, t in enumerate(sent):
        if t in rest or t in body[:i0]:
            viol("special", "outside-parentheses", "argument %d (%s) appears outside the argument list" % (k, t))
            return V
    # IGNORE NULLS last inside
    if ex["ignore_nulls"] != (special == "IGNORE NULLS"):
        if ex["ignore_nulls"]:
            viol("ignore_nulls", "missing", "IGNORE NULLS not at the end of the argument list")
        elif special == "IGNORE NULLS":
            viol("ignore_nulls", "unexpected", "IGNORE NULLS rendered without ignore_nulls()")
    if special is not None and not re.match(r"(AS |FROM |USING |IGNORE NULLS$)", special):
        viol("special", "keyword", "special clause %r does not start with its keyword" % special)
    if "IGNORE NULLS" in rest:
        viol("ignore_nulls", "outside-parentheses", "IGNORE NULLS outside the argument list")
    # ---- FILTER before OVER -------------------------------------------------------------------------
    if ex["filters"] is not None:
        head = " FILTER(WHERE "
        if not rest.startswith(head):
            viol("filter", "missing-or-misplaced", "FILTER(WHERE ...) does not follow the argument list directly")
            return V
        j = _match_paren(rest, len(head) - len("(WHERE ") )
        crit = rest[len(head):j]
        if crit != conj_text(ex["filters"]):
            viol("filter", "criteria", "FILTER criteria %r do not denote the conjunction of the criteria given, in call order: %r"
                 % (crit, conj_text(ex["filters"])))
        rest = rest[j + 1:]
    elif "FILTER(" in rest:
        viol("filter", "unexpected", "FILTER rendered without filter()")
    if ex["over"]:
        head = " OVER("
        if not rest.startswith(head):
            viol("over", "missing-or-misplaced", "OVER(...) does not follow the argument list / FILTER directly")
            return V
        j = _match_paren(rest, len(head) - 1)
        win = rest[len(head):j]
        rest = rest[j + 1:]
        toks = win
        m = re.search(r"(?:^| )(ROWS|RANGE) (.*)$", toks)
        frame_txt = None
        # find frame at level 0 only
        parts0 = _split_top(toks, " ")
        for ix, wd in enumerate(parts0):
            if wd in ("ROWS", "RANGE"):
                frame_txt = " ".join(parts0[ix:])
                toks = " ".join(parts0[:ix])
                break
        toks = toks.strip()
        p_txt = o_txt = None
        if toks.startswith("PARTITION BY "):
            seg = _split_top(toks[len("PARTITION BY "):], " ")
            # ORDER BY at level 0
            if "ORDER" in seg:
                ix = seg.index("ORDER")
                p_txt = " ".join(seg[:ix])
                o_txt = " ".join(seg[ix:])
            else:
                p_txt = " ".join(seg)
        elif toks.startswith("ORDER BY "):
            o_txt = toks
        elif toks != "":
            viol("over", "structure", "window %r does not start with PARTITION BY / ORDER BY" % win)
            return V
        if "PARTITION BY" in (o_txt or ""):
            viol("over", "partition-after-order", "PARTITION BY must precede ORDER BY")
            return V
        got_p = _split_top(p_txt) if p_txt is not None else []
        if got_p != ex["partition"]:
            viol("over", "partition", "PARTITION BY %r, expected %r" % (got_p, ex["partition"]))
        got_o = []
        if o_txt is not None:
            if not o_txt.startswith("ORDER BY "):
                viol("over", "structure", "ORDER BY malformed in %r" % win)
                return V
            for it in _split_top(o_txt[len("ORDER BY "):]):
                mm = re.match(r"^(.*) (ASC|DESC)$", it, re.S)
                got_o.append((mm.group(1), mm.group(2)) if mm else (it, None))
        if got_o != ex["order"]:
            viol("over", "orderby", "ORDER BY %r, expected %r" % (got_o, ex["order"]))
        # frame after ORDER BY inside OVER
        if ex["frame"] is None:
            if frame_txt is not None:
                viol("frame", "unexpected", "frame %r rendered although none was set" % frame_txt)
        else:
            kind, b, ab = ex["frame"]
            if frame_txt is None:
                viol("frame", "missing", "frame %s not rendered inside OVER" % kind)
            else:
                ok = False
                if ab is None:
                    mm = re.fullmatch(r"(ROWS|RANGE) (.*)", frame_txt)
                    ok = bool(mm) and mm.group(1) == kind and " AND " not in mm.group(2) and not mm.group(2).startswith("BETWEEN") \
                        and _bound_denotes(mm.group(2), b)
                else:
                    mm = re.fullmatch(r"(ROWS|RANGE) BETWEEN (.*) AND (.*)", frame_txt)
                    ok = bool(mm) and mm.group(1) == kind and _bound_denotes(mm.group(2), b) and _bound_denotes(mm.group(3), ab)
                if not ok:
                    viol("frame", "bounds", "frame %r does not denote %s %s %s" % (frame_txt, kind, b, ab))
    else:
        if " OVER(" in rest or rest.startswith("OVER("):
            viol("over", "unexpected", "OVER rendered without over()/orderby()")
        if ex["frame"] is not None:
            viol("frame", "dropped-without-over", "rows()/range() was called but no frame is rendered (no over()/orderby())",
                 owner="WindowFrameAnalyticFunction")
    if rest != "" and not rest.startswith(" ") and not V:
        viol("tail", "trailing-text", "unexpected text %r glued to the call" % rest)
    return V


# ==============================================================================================
# evidence helpers
# ==============================================================================================
def nontrivial_key(case):
    if case["args"] and (case["ops"] or case.get("alias") or case.get("schema")):
        return json.dumps(case, sort_keys=True)
    return None


def histogram(cases):
    h = {}

    def inc(k):
        h[k] = h.get(k, 0) + 1
    for c in cases:
        inc("class=" + c["cls"])
        inc("nargs=%d" % len(c["args"]))
        for op in c["ops"]:
            inc("op=" + op[0])
            if op[0] in ("rows", "range"):
                inc("frame=" + ("between" if op[2] is not None else "single"))
                for b in (op[1], op[2]):
                    if b is not None:
                        inc("bound=" + (b[0] if b[0] == "cur" else "%s:%s" % (b[0], b[1][1] if isinstance(b[1], list) else b[1])))
        if c.get("branch"):
            inc("branching")
        if c.get("alias"):
            inc("alias")
        if c.get("schema"):
            inc("schema")
    return h


def targeted_search(rng, broken, mism_cases):
    """Proof/table/correspondence broke: every wrapper with plain field sentinels, every clause alone and in pairs,
    single ops of disagreeing cases, and a denser random batch."""
    out = []
    for c in mism_cases:
        for op in c["ops"]:
            d = dict(c)
            d["ops"] = [op]
            out.append(d)
        d = dict(c)
        d["ops"] = []
        out.append(d)
    for e in catalogue():
        for kinds, slots, special in e["probes"]:
            c = base_case(e, kinds, pick_args(rng, kinds, False, special, e["cls"]))
            out.append(c)
            names = [n for n in flag_names(e) if n not in ("alias", "schema")]
            for n1 in names:
                d = dict(c)
                d["ops"] = clause_ops(rng, e, {n1: True})
                out.append(d)
            for n1, n2 in itertools.combinations(names, 2):
                d = dict(c)
                d["ops"] = clause_ops(rng, e, {n1: True, n2: True})
                out.append(d)
    out += frame_block(rng)
    out += generic_cases(rng, 500)
    return out
