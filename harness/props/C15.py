"""C15 — replace_table equals building the same object with the other table.
Model: coq/Replace.v (subst = specification, rep = traversal driven by the extracted `visited` table), coq/ReplaceCorr.v,
lemmas/Replace*.v; table regenerated into coq/gen/C15Table.v by harness/c15/extract.py on every run."""
import glob
import json
import os
import re

from harness import terms_family as tf
from harness.lib import S, L, P, B as Bc
from harness.c15 import extract as ex15
from harness.c15 import spec as sp
from harness.c15 import gen as g15
from harness.c15 import observe as ob

ID = "C15"
COQ_PROP = "props/C15.v"
CORR_REQUIRE = ["Crit", "gen.TermsTable", "Terms", "gen.C15Table", "Replace", "ReplaceCorr"]
CORR_CHECK = "check15"
CORR_SHOW = "show15"
GEN_FILES = ["gen/C15Table.v"]
DEPENDS_ON_EXTRACT = ["C02"]
SHARD = 120
RULE = ("(1) systematic: table A in every child slot of every modelled constructor (singles) and slot-inside-slot pairs "
        "(400 sampled pairs quick, all pairs thorough); (2) typed random terms (depth<=4 quick, <=6 thorough) whose fields "
        "sit on A, on near-misses of A (same name, other schema/alias), on other tables or on none; aggregate FILTER, "
        "analytic OVER, EXTRACT, PERIOD, nested criteria and sub-queries as root wrappers (modelled) or below the root "
        "(oracle only); (3) statements built by the public builder calls: select/insert/insert-select/update, joins "
        "(ON, USING, cross, sub-query items), WITH, star, ClickHouse PREWHERE/LIMIT BY, plus A in exactly one slot; "
        "(4) dialect-only slots (oracle only). A has 4 schema/alias variants, B is fresh. Non-trivial = A occurs at "
        "least once below the root; distinct by structural hash of (A, B, spec).")
TRUSTED = [
    "harness/c15/spec.py builds the same spec on pypika (public builder calls) and as a Gallina value; substituting B for A in "
    "the spec is 'the same calls with B' (checked per case: the model's text of the unreplaced object must equal pypika's)",
    "harness/c15/extract.py: fail-closed ast walk over every effective replace_table + dynamic probe of every (class, slot)",
    "harness/c15/observe.py: slot-by-slot dump of a QueryBuilder through the real get_sql of its elements (reads private "
    "attributes _from, _selects, ...)",
    "shared expression model coq/Terms.v (validated by C02's correspondence check)",
]
ASSUMPTIONS = [
    "B is fresh (does not occur in the object): with B already present the builder's own decisions (auto-alias of a re-joined "
    "table, _foreign_table / with_namespace) differ between 'built with B' and 'replaced', which is outside the property",
    "the fixed sub-query leaf TSub of the shared AST is over a table other than A (hypothesis sub_foreign); sub-queries over A "
    "are the wrapper constructors WSubq/WInSub/WCmpSub/WExists and SrcSub",
    "extra node classes (aggregate FILTER, analytic OVER, EXTRACT, PERIOD, NestedCriterion, sub-queries) are modelled at the root "
    "of a slot only; below the root they are exercised by the oracle, not by the model",
    "Table temporal clauses (for_/for_portion) are not modelled",
]


def extract():
    return {"gen/C15Table.v": ex15.extract_c15_table()}


# ----------------------------------------------------------------------------------------------
# cases
# ----------------------------------------------------------------------------------------------
def gen_cases(rng, tier):
    quick = tier == "quick"
    out = []
    out += g15.systematic(rng, tier)
    out += g15.stmt_slot_cases(rng)
    out += g15.extras_cases(rng)
    out += g15.term_cases(rng, 450 if quick else 4000, [1, 2, 3, 3, 4] if quick else [2, 3, 4, 5, 6])
    out += g15.stmt_cases(rng, 350 if quick else 3000, [1, 2, 2, 3] if quick else [2, 3, 4])
    return out


CORPUS_DIR = os.path.join(os.path.dirname(os.path.dirname(os.path.dirname(os.path.abspath(__file__)))), "corpus", "C15")


def corpus():
    """built-in witnesses (one per known finding + shapes that must stay right) + any minimised failures dropped into
    corpus/C15/extra_*.json (a JSON list of cases each)"""
    out = _builtin_corpus()
    for p in sorted(glob.glob(os.path.join(CORPUS_DIR, "extra_*.json"))):
        out += json.load(open(p))
    return out


def _builtin_corpus():
    A, B, C = ["a", [], None], ["b", [], None], ["c", [], None]
    fa = lambda n: ["field", n, list(A), None]       # noqa: E731
    fc = ["field", "n", list(C), None]
    one = ["vali", 1, None]
    q1 = {"from": [list(A)], "selects": [["field", "k", list(A), None]], "where": None}
    djoin = [["on", "", ["table", ["d", [], None]], ["basic", "eq", ["field", "k", ["d", [], None], None], ["field", "k", list(A), None], None]]]
    sel = {"dialect": "generic", "mode": "select", "from": [["table", list(A)]], "joins": djoin, "selects": [fa("x")]}
    terms = [
        ("in-container", ["in", fa("x"), ["tuple", [fa("y"), one], None], False, None]),
        ("between-bounds", ["between", fa("x"), fa("lo"), fa("hi"), None]),
        ("negative", ["neg", fa("x")]),
        ("negative-nested", ["arith", "add", one, ["neg", fa("x")], None]),
        ("all", ["all", fa("x"), None]),
        ("period", ["period", fa("x"), fa("lo"), fa("hi"), None]),
        ("filter", ["agg", "SUM", [fa("x")], [["basic", "gt", fa("y"), one, None]], None]),
        ("over-partition", ["analytic", "RANK", [], [], [fa("x")], [], None]),
        ("over-orderby", ["analytic", "RANK", [], [], [], [[fa("y"), "DESC"]], None]),
        ("analytic-filter", ["analytic", "SUM", [fa("z")], [["basic", "gt", fa("y"), one, None]], [fa("x")], [], None]),
        ("extract", ["extract", "YEAR", fa("d"), None]),
        ("in-subquery", ["insub", fc, q1, False, None]),
        ("exists", ["exists", q1]),
        ("valuewrapper", ["vwterm", fa("x")]),
        ("attimezone", ["attz", fa("x"), "UTC"]),
        ("interval-arith", ["arith", "add", fa("x"), ["interval", {"days": 1}], None]),
        ("interval-compare", ["basic", "gt", fa("d"), ["arith", "sub", ["func", "NOW", [], None], ["interval", {"days": 1}], None], None]),
        ("values-field", ["values", fa("x")]),
        ("ch-length", ["ch_length", fa("p")]),
        ("set-operation", ["union", q1, {"from": [list(A)], "selects": [["field", "y", list(A), None]], "where": None}]),
        # shapes on which the property holds
        ("ok-basic", ["basic", "eq", fa("x"), fa("y"), None]),
        ("ok-nested", ["nested", "eq", "and", fa("x"), fa("y"), fa("z"), None]),
        ("ok-case", ["case", [[["basic", "eq", fa("x"), one, None], fa("y")]], fa("z"), None]),
        ("ok-cmp-subquery", ["cmpsub", "eq", fc, q1, None]),
        ("ok-subquery-term", ["subq", q1, None]),
        ("ok-near-miss", ["arith", "add", fa("x"), ["field", "x", ["a", ["s"], None], None], None]),
        ("ok-near-miss-alias", ["arith", "add", fa("x"), ["field", "x", ["a", [], "al"], None], None]),
    ]
    out = [{"kind": "term", "A": A, "B": B, "t": t, "fam": "corpus:" + n} for n, t in terms]
    Ax, Bx = ["a", [], "x"], ["b", [], "bb"]          # aliased: str() of a column then shows the table
    fx = lambda n: ["field", n, list(Ax), None]      # noqa: E731
    terms_x = [
        ("bitand-term-value", ["bitand_t", fc, fx("q")]),
        ("ch-hasany-left", ["ch_hasany", fx("p"), fc]),
        ("ch-hasany-right", ["ch_hasany", fc, fx("q")]),
        ("ch-tofixedstring", ["ch_tofixed", fx("p"), 3]),
    ]
    out += [{"kind": "term", "A": Ax, "B": Bx, "t": t, "fam": "corpus:" + n} for n, t in terms_x]
    stmts = [
        ("with", dict(sel, **{"with": [["w", q1]]})),
        ("cross-join", dict(sel, joins=[["cross", ["table", ["d", [], None]]]])),
        ("cross-join-on-A", dict(sel, **{"from": [["table", list(C)]], "selects": [fc], "joins": [["cross", ["table", list(A)]]]})),
        ("cross-join-subquery", dict(sel, **{"from": [["table", list(C)]], "selects": [fc], "joins": [["cross", ["sub", q1, "cj"]]]})),
        ("from-subquery", dict(sel, **{"from": [["sub", q1, "sq"]], "joins": [], "selects": [fc]})),
        ("join-subquery", dict(sel, **{"from": [["table", list(C)]], "selects": [fc],
                                       "joins": [["on", "", ["sub", q1, "j0"], ["basic", "eq", fc, fc, None]]]})),
        ("updates", {"dialect": "generic", "mode": "update", "update": list(A), "sets": [[fa("c0"), ["arith", "add", fa("y"), one, None]]],
                     "joins": [["on", "", ["table", ["d", [], None]], ["basic", "eq", ["field", "k", ["d", [], None], None], ["field", "k", list(A), None], None]]]}),
        ("using-fields", dict(sel, **{"from": [["table", list(C)]], "selects": [fc], "joins": [["using_fields", "", ["table", ["d", [], None]], [fa("k")]]]})),
        ("interval-select", dict(sel, selects=[["arith", "add", fa("x"), ["interval", {"days": 1}], None]])),
        ("ok-select", dict(sel, where=["basic", "eq", fa("y"), one, None], groupby=[fa("g")], having=["basic", "gt", ["func", "SUM", [fa("x")], None], one, None],
                           orderby=[[fa("o"), "DESC"]])),
        ("ok-star", dict(sel, star=list(A), selects=[fc])),
        ("ok-clickhouse", dict(sel, dialect="clickhouse", prewhere=["basic", "eq", fa("p"), one, None], limit_by=[2, [fa("l")]])),
        ("ok-insert", {"dialect": "generic", "mode": "insert", "into": list(A), "columns": [fa("c0")], "values": [[one]]}),
    ]
    out += [{"kind": "stmt", "A": A, "B": B, "s": s, "fam": "corpus:" + n} for n, s in stmts]
    out += [dict(c, fam="corpus:extras") for c in g15.extras_cases(__import__("random").Random(0))]
    return out


# ----------------------------------------------------------------------------------------------
# implementation
# ----------------------------------------------------------------------------------------------
def _build(case, which):
    A, B = case["A"], case["B"]
    if case["kind"] == "term":
        t = case["t"] if which == "A" else sp.subst(A, B, case["t"])
        return sp.build(t)
    s = case["s"] if which == "A" else sp.subst_stmt(A, B, case["s"])
    return sp.build_stmt(s)


def _texts(case, obj):
    if case["kind"] == "term":
        return ob.term_texts(obj)
    return [ob.safe(lambda: str(obj))]


def run_impl(case):
    A, B = sp.mk_table(case["A"]), sp.mk_table(case["B"])
    out = {}
    try:
        objA = _build(case, "A")
        objB = _build(case, "B")
    except Exception as e:  # noqa -- the builder itself refuses the program: not a C15 matter
        return {"build_exc": type(e).__name__}
    out["before"] = _texts(case, objA)
    out["expected"] = _texts(case, objB)
    if ob.builder_flags(objA) != ob.builder_flags(objB):
        # the two builds took different with_namespace decisions (pypika's _validate_table works on a set of Fields that
        # collapses same-named columns): the comparison with "built with B" says nothing about replace_table
        out["not_judged"] = "builder flags differ"
    if case["kind"] == "stmt":
        out["dump_before"] = ob.dump_query(objA)
        out["star_before"] = ob.star_names(objA)
    try:
        res = objA.replace_table(A, B)
    except Exception as e:  # noqa
        out["exc"] = type(e).__name__
        out["exc_at"] = list(ob.locate_exception(e))
        m_ = re.search(r"'(\w+)' object has no attribute 'replace_table'", str(e))
        if m_:      # a child without the method: name the child's class, whichever parent slot reached it
            out["exc_at"] = [m_.group(1), "replace_table"]
        out["before_again"] = _texts(case, objA)
        return out
    out["before_again"] = _texts(case, objA)
    if case["kind"] == "stmt":
        out["dump_before_again"] = ob.dump_query(objA)
    if res is None:
        out["exc"] = "returned-None"
        out["exc_at"] = [type(objA).__name__, "?"]
        return out
    out["after"] = _texts(case, res)
    if case["kind"] == "stmt":
        out["dump_after"] = ob.dump_query(res)
        out["star_after"] = ob.star_names(res)
    if out["after"] != out["expected"]:
        try:
            out["label"] = ob.label_difference(objA, res, objB, A, B)
        except Exception as e:  # noqa
            out["label"] = ["unlabelled", type(e).__name__]
    return out


# ----------------------------------------------------------------------------------------------
# oracle: exactly the observe_at line
#   render(build(A).replace_table(A,B)) vs render(build(B));  render(build(A)) before/after
# ----------------------------------------------------------------------------------------------
def oracle(case, outcome):
    if "build_exc" in outcome or "harness_exc" in outcome:
        return []
    vs = []
    if outcome.get("before_again") != outcome.get("before") or \
            (case["kind"] == "stmt" and "dump_before_again" in outcome and outcome["dump_before_again"] != outcome["dump_before"]):
        vs.append({"signature": ["C15", "receiver-mutated", _root_class(case)],
                   "what": "the receiver renders %r before and %r after replace_table" % (outcome.get("before"), outcome.get("before_again"))})
    if "exc" in outcome:
        vs.append({"signature": ["C15"] + list(outcome["exc_at"]) + [outcome["exc"]],
                   "what": "replace_table raised %s (in %s.replace_table, slot %s) instead of returning the object built with B (%r)"
                           % (outcome["exc"], outcome["exc_at"][0], outcome["exc_at"][1], outcome.get("expected"))})
        return vs
    if outcome["after"] != outcome["expected"] and "not_judged" not in outcome:
        vs.append({"signature": ["C15"] + list(outcome.get("label", ["unlabelled"])),
                   "what": "replace_table(A,B) renders %r, the object built with B renders %r (A=%r B=%r)"
                           % (outcome["after"], outcome["expected"], case["A"], case["B"])})
    return vs


def _root_class(case):
    if case["kind"] == "stmt":
        return "QueryBuilder"
    return case["t"][0]


# ----------------------------------------------------------------------------------------------
# model side
# ----------------------------------------------------------------------------------------------
def to_coq(case, outcome):
    if "build_exc" in outcome or "harness_exc" in outcome:
        return None
    A, B = sp.tref_coq(case["A"]), sp.tref_coq(case["B"])
    viol = Bc(bool([v for v in oracle(case, outcome) if v["signature"][1] != "receiver-mutated"]))
    try:
        if case["kind"] == "term":
            w = sp.wt_coq(case["t"])
            if "exc" in outcome:
                after = ["!" + outcome["exc"]] * 2
            else:
                after = outcome["after"]
            return "(CTerm %s %s %s %s %s %s %s %s)" % (A, B, w, S(outcome["before"][0]), S(outcome["before"][1]),
                                                        S(after[0]), S(after[1]), viol)
        s = sp.stmt_coq(case["s"])
        if "exc" in outcome:
            after, star_after = "!" + outcome["exc"], []
        else:
            after, star_after = outcome["dump_after"], outcome["star_after"]
        return "(CStmt %s %s %s %s %s %s %s %s)" % (A, B, s, S(outcome["dump_before"]), L([S(x) for x in outcome["star_before"]]),
                                                    S(after), L([S(x) for x in star_after]), viol)
    except sp.NotModelled:
        return None


# ----------------------------------------------------------------------------------------------
# evidence helpers
# ----------------------------------------------------------------------------------------------
def _occurs(case):
    A = case["A"]
    if case["kind"] == "term":
        tabs = sp.tables_of(case["t"])
        root = case["t"][0] in ("field", "star")
    else:
        tabs = g15.stmt_tables(case["s"])
        root = False
    return any(sp.teq(t, A) for t in tabs) and not root


def nontrivial_key(case):
    if not _occurs(case):
        return None
    return json.dumps([case["A"], case["B"], case.get("t") or case.get("s")], sort_keys=True)


def histogram(cases):
    h = {}

    def bump(k):
        h[k] = h.get(k, 0) + 1

    def walk(t):
        bump(t[0])
        for _, _, c in sp.children(t):
            walk(c)
        for q in sp.sub_queries(t):
            for x in q["selects"]:
                walk(x)
            if q.get("where") is not None:
                walk(q["where"])
    for c in cases:
        bump("kind=" + c["kind"])
        bump("fam=" + c.get("fam", "?").split(":")[0])
        if c["kind"] == "term":
            walk(c["t"])
        else:
            s = c["s"]
            bump("stmt:" + s.get("mode", "select") + "/" + s.get("dialect", "generic"))
            for j in s.get("joins", []):
                bump("join:" + j[0])
            for k in ("selects", "groupby"):
                for x in s.get(k, []):
                    walk(x)
            for k in ("where", "prewhere", "having"):
                if s.get(k) is not None:
                    walk(s[k])
    return h


def targeted_search(rng, broken, mism_cases):
    """every constructor x slot single and ALL pairs, every statement slot, plus a denser random batch; sub-terms of the
    disagreeing cases"""
    out = g15.systematic(rng, "thorough") + g15.stmt_slot_cases(rng)
    for c in mism_cases:
        if c["kind"] == "term":
            stack = [c["t"]]
            while stack:
                x = stack.pop()
                out.append({"kind": "term", "A": c["A"], "B": c["B"], "t": x, "fam": "shrunk"})
                stack.extend(ch for _, _, ch in sp.children(x))
    out += g15.term_cases(rng, 800, [2, 3, 4])
    out += g15.stmt_cases(rng, 500, [1, 2, 3])
    return out
