"""C09 — rendering is a pure, repeatable, process-independent function.

Model: coq/Purity.v (observer calls as transitions driven by an effect table), table: coq/gen/C09Table.v extracted from
the current sources by harness/c09/effects.py on every run; validation against the implementation: deep vars()-graph
dumps around every observation, repetition, a freshly rebuilt twin, sub-processes under several PYTHONHASHSEEDs, and
the set of pypika functions that actually ran (must all have been analysed)."""
import concurrent.futures as cf
import hashlib
import json
import os
import re
import subprocess
import sys

from harness import lib
from harness.lib import S, L, P, B, N

ID = "C09"
COQ_PROP = "props/C09.v"
CORR_REQUIRE = ["Purity", "PurityCorr", "gen.C09Table"]
CORR_CHECK = "check_case"
CORR_SHOW = "show_case"
GEN_FILES = ["gen/C09Table.v"]
SHARD = 40
RULE = ("random construction scripts (SELECT/INSERT/UPDATE/DELETE of all ten query classes with joins, sub-queries, CTEs, "
        "set operations, functions, CASE, analytic functions, FOR UPDATE OF several tables, multi-row inserts; DDL "
        "builders; tables, schemas, stand-alone terms and criteria; ClickHouse functions) followed by a random history "
        "of 2-12 observations (str, get_sql with random kwargs incl. every dialect, quote set, flag and parameter "
        "collector class, hash, ==/!=, fields_(), tables_, find_, nodes_, is_aggregate, get_table_name, repr) applied "
        "to the object or to one of the objects it contains; a case is non-trivial when the history has >= 3 "
        "observations, one of them get_sql with keyword arguments, and the object graph has >= 4 objects; distinct by "
        "hash of the whole case")
TRUSTED = [
    "harness/c09/effects.py: the ast walk that produces gen/C09Table.v (origin analysis: fresh / own kwargs dict / self / "
    "parameter / global; name-based call resolution; set-valued expressions) — its completeness is cross-checked at run "
    "time (every pypika function that runs during an observation must be in the analysed list; heap dumps must not change)",
    "harness/c09/observe.py: vars()-graph dump by labels, module-state digest, profiler; harness/c09/build.py: construction scripts",
    "CPython: dict/list iteration order, str() of floats, sets observed without iteration expose membership only",
]
ASSUMPTIONS = [
    "the text an observer returns is a function of the deep state of the observed object, the call's arguments and — only "
    "through a listed set iteration — the hash order (validated: repetition, fresh twin, 4/32 hash seeds)",
    "parameter collectors passed in (ListParameter/DictParameter.update_parameters) are mutated on purpose and are outside "
    "the property; a fresh collector is used per call",
    "user-supplied Python sets (insert({..}), isin({..}), rollup({..})) are iterated at build time: the order is the "
    "caller's choice and frozen in the object; not generated",
    "constructors called by observers write only the object they create (analysed with a fresh self)",
]
ALLOWED_AXIOMS = []

_OBS_METHOD = {"str": "__str__", "sql": "get_sql", "hash": "__hash__", "eq": "__eq__", "ne": "__ne__", "fields": "fields_",
               "tables": "tables_", "find": "find_", "nodes": "nodes_", "agg": "is_aggregate", "tname": "get_table_name",
               "repr": "__repr__"}


# ---- extraction ------------------------------------------------------------------------------------
_ANALYSIS = {}


def analysis():
    from harness.c09 import effects
    if "a" not in _ANALYSIS:
        _ANALYSIS["a"] = effects.analyse(lib.REPO)
    return _ANALYSIS["a"]


def extract():
    from harness.c09 import effects
    _ANALYSIS.pop("a", None)
    an = analysis()
    if len(an.analysed) < 200 or not any(f.name == "get_sql" for f in an.analysed.values()):
        raise effects.ExtractionError("implausibly small observer set (%d functions)" % len(an.analysed))
    return {"gen/C09Table.v": effects.coq_table(an)}


# ---- cases -----------------------------------------------------------------------------------------
def _h(*steps):
    return [[["root"], s] if s[0] not in ("root", "sub") and not isinstance(s[0], list) else s for s in steps]


def corpus():
    T0, T1 = ["table", "abc", None, None], ["table", "efg", "sch", "e"]
    sql_all = ["sql", {"quote_char": "`", "secondary_quote_char": '"', "with_alias": True, "with_namespace": True, "subquery": True,
                       "dialect": ["dialect", "ORACLE"], "parameter": ["collector", "NamedParameter"]}]
    out = []
    # witness of the fixed finding C09-fixed-68bca14 (FOR UPDATE OF several tables) + multi-row insert
    for qc in ("MySQLQuery", "PostgreSQLQuery"):
        out.append({"tables": [T0, T1], "subs": [], "kind": "corpus",
                    "obj": ["q", qc, [["from_", [["t", 0]]], ["select", ["a", ["f", "b", ["t", 0], "bb"]]],
                                      ["for_update", [], {"of": ["zeta", "abc", "mid_dle", "T9", "alpha"], "skip_locked": True}]], {}],
                    "others": [], "hist": _h(["str"], ["hash"], sql_all, ["str"], ["eq", "twin"], ["str"])})
        out.append({"tables": [T0], "subs": [], "kind": "corpus",
                    "obj": ["q", qc, [["into", [["t", 0]]], ["columns", ["a", "b"]],
                                      ["insert", [["pytuple", [1, "x"]], ["pytuple", [2, "it's"]], ["pytuple", [None, ["date", "2020-01-02"]]]]]], {}],
                    "others": [], "hist": _h(["str"], ["sql", {"parameter": ["collector", "QmarkParameter"]}], ["str"], ["hash"], ["str"])})
    # local kwargs writes: PostgreSQL RETURNING (kwargs['with_namespace']), Not (kwargs['subcriterion']), Oracle/MSSQL groupby_alias
    out.append({"tables": [T0, T1], "subs": [], "kind": "corpus",
                "obj": ["q", "PostgreSQLQuery", [["update", [["t", 0]]], ["set", ["a", 1]], ["from_", [["t", 1]]],
                                                 ["where", [["cmp", "==", ["f", "id", ["t", 0]], ["f", "id", ["t", 1]]]]], ["returning", ["id", ["f", "b", ["t", 1]]]]], {}],
                "others": [], "hist": _h(["str"], ["sql", {"with_namespace": False}], ["str"], ["sql", {"with_namespace": False}], ["hash"])})
    out.append({"tables": [T0], "subs": [], "kind": "corpus",
                "obj": ["not", ["or", ["cmp", "==", ["f", "a", ["t", 0]], 1], ["and", ["isnull", ["f", "b", ["t", 0]]], ["cmp", ">", ["f", "c", ["t", 0]], "x"]]]],
                "others": [["f", "a", ["t", 0]]], "hist": _h(["str"], ["sql", {"subcriterion": False, "quote_char": None}], ["hash"], ["fields"], ["tables"],
                                                             ["find", "Field"], ["eq", ["other", 0]], ["str"])})
    sub = ["q", "OracleQuery", [["from_", [["t", 1]]], ["select", [["f", "id", ["t", 1], "k"], ["agg", "Count", ["*"], {"alias": "n"}]]],
                                ["groupby", [["f", "id", ["t", 1], "k"]]]], {}]
    for qc in ("OracleQuery", "MSSQLQuery", "Query", "SnowflakeQuery", "ClickHouseQuery"):
        out.append({"tables": [T0, T1], "subs": [sub], "kind": "corpus",
                    "obj": ["q", qc, [["from_", [["s", 0]]], ["select", [["f", "k", ["s", 0], "kk"], ["fn", "MAX", [["f", "n", ["s", 0]]], "m"]]],
                                      ["groupby", [["f", "k", ["s", 0], "kk"]]], ["orderby", [["f", "k", ["s", 0], "kk"]], {"order": "desc"}],
                                      ["limit", [5]], ["offset", [2]]], {}],
                    "others": [], "hist": _h(["str"], [["sub", 3], ["str"]], ["sql", {"groupby_alias": True, "dialect": ["dialect", "MYSQL"]}],
                                             [["sub", 3], ["sql", {"subquery": True, "with_alias": True}]], ["str"], ["hash"])})
    # aggregate FILTER (Criterion.all), analytic window, CASE, function schema: kwargs popped in Function.get_sql
    out.append({"tables": [T0], "subs": [], "kind": "corpus",
                "obj": ["q", "Query", [["from_", [["t", 0]]],
                                       ["select", [["agg", "Sum", [["f", "a", ["t", 0]]], {"filter": [["cmp", ">", ["f", "b", ["t", 0]], 1], ["isnull", ["f", "c", ["t", 0]]]], "alias": "s"}],
                                                   ["an", "Sum", [["f", "a", ["t", 0]]], {"over": [["f", "b", ["t", 0]]], "orderby": [[["f", "c", ["t", 0]], "desc"]],
                                                                                         "frame": ["rows", ["prec", 0], "CURRENT_ROW"], "alias": "w"}],
                                                   ["case", [[["cmp", "==", ["f", "a", ["t", 0]], 1], ["v", "one"]]], ["v", "other"], "c"],
                                                   ["fn", "f", [["f", "a", ["t", 0]]], "fa", ["schema", "fs", None]]]]], {}],
                "others": [], "hist": _h(["str"], sql_all, [["sub", 2], ["hash"]], [["sub", 2], sql_all], [["sub", 7], ["agg"]], ["str"])})
    # WITH references validated at render time (160d589): defined, and missing (every rendering raises JoinException;
    # with two missing names the *message* lists a set — exception text, not a rendering)
    for defined in (True, False):
        steps = [["from_", [["t", 0]]],
                 ["join_on", [["t", 1], ["and", ["cmp", "==", ["f", "id", ["t", 0]], ["f", "id", ["t", 2]]],
                                                 ["cmp", "==", ["f", "id", ["t", 1]], ["f", "id", ["t", 3]]]]]],
                 ["select", ["a", ["f", "b", ["t", 2]]]]]
        if defined:
            steps += [["with_", [["q", "Query", [["from_", [["t", 1]]], ["select", ["id", "b"]]], {}], "w1"]],
                      ["with_", [["q", "Query", [["from_", [["t", 1]]], ["select", ["id"]]], {}], "w2"]]]
        out.append({"tables": [T0, T1, ["aliased", "w1", None], ["aliased", "w2", None]], "subs": [], "kind": "corpus",
                    "obj": ["q", "Query", steps, {}], "others": [],
                    "hist": _h(["str"], ["sql", {"quote_char": "`", "query_alias_quote_char": "'"}], ["hash"], ["str"], ["eq", "twin"])})
    # one term OBJECT in two places (seeded/C09-16): an aliased criterion as select column and as the only FILTER criterion
    # (Criterion.all of a one-element list IS that object), in WHERE and select list, as window PARTITION BY and GROUP BY
    for nfilters in (1, 2):
        filt = [["x", 0]] + ([["cmp", "<", ["f", "b", ["t", 0]], 100]] if nfilters == 2 else [])
        out.append({"tables": [T0], "subs": [], "kind": "corpus",
                    "terms": [["as", ["isin", ["f", "a", ["t", 0]], ["pylist", [1, 2]]], "is_small"], ["fn", "LOWER", [["f", "b", ["t", 0]]], "lw"]],
                    "obj": ["q", "Query", [["from_", [["t", 0]]], ["select", [["x", 0], ["agg", "Count", ["*"], {"filter": filt, "alias": "n"}], ["x", 1],
                                                                              ["an", "Sum", [["f", "c", ["t", 0]]], {"over": [["x", 1]], "filter": [["x", 0]]}]]],
                                          ["where", [["x", 0]]], ["groupby", [["x", 1]]], ["orderby", [["x", 0]]]], {}],
                    "others": [], "hist": _h(["str"], ["str"], [["sub", 3], ["str"]], ["hash"], ["sql", {"with_alias": True, "quote_char": "`"}], ["str"])})
    # set operation, DDL
    out.append({"tables": [T0, T1], "subs": [], "kind": "corpus",
                "obj": ["setop", ["q", "Query", [["from_", [["t", 0]]], ["select", ["a", "b"]]], {}],
                        [["union", ["q", "Query", [["from_", [["t", 1]]], ["select", ["a", "b"]]], {}]],
                         ["except_of", ["q", "Query", [["from_", [["t", 0]]], ["select", ["c", "id"]]], {}]]], [["a", "desc"]], 3, 1],
                "others": [], "hist": _h(["str"], ["sql", {"with_alias": True, "subquery": True, "quote_char": "`"}], ["hash"], ["str"], ["eq", "twin"])})
    out.append({"tables": [T0], "subs": [], "kind": "corpus",
                "obj": ["create", "Query", [["create_table", [["t", 0]]], ["temporary"], ["if_not_exists"],
                                            ["columns", [["column", "c0", "INT", False, ["v", 0]], ["pytuple", ["c1", "VARCHAR(5)"]], "c2"]],
                                            ["period_for", ["p", "c0", "c1"]], ["unique", ["c0", "c1"]], ["primary_key", ["c0"]],
                                            ["foreign_key", [["pylist", ["c1"]], "other", ["pylist", ["id"]]], {"on_delete": "cascade"}]]],
                "others": [], "hist": _h(["str"], ["sql", {"quote_char": "`"}], ["repr"], ["str"], ["hash"])})
    return out


_STASH = {"tier": "quick"}


def seeds_for(tier):
    return list(range(4)) if tier == "quick" else list(range(32))


def gen_cases(rng, tier):
    from harness.c09 import gen
    n = 330 if tier == "quick" else 3000
    cases = [gen.gen_case(rng, tier) for _ in range(n)]
    # a dense block aimed at hash order: FOR UPDATE OF several tables, multi-row inserts
    for _ in range(40 if tier == "quick" else 300):
        c = gen.gen_case(rng, tier, kind="select")
        qc = rng.choice(["MySQLQuery", "PostgreSQLQuery"])
        c["obj"] = gen.rselect_query(rng, len(c["tables"]), len(c["subs"]), 1, qcls=qc)
        c["obj"][2] = [s for s in c["obj"][2] if s[0] != "for_update"] + [["for_update", [], {"of": rng.sample(
            ["zeta", "abc", "mid_dle", "T9", "alpha", "efg", "Orders", "k1", "k2"], rng.choice([2, 3, 4, 5, 6]))}]]
        cases.append(c)
    _STASH["tier"] = tier
    prefetch(corpus() + cases, seeds_for(tier))
    return cases


# ---- hash-seed sub-processes (batched) ------------------------------------------------------------------
_SEED_CACHE = {}


def _key(case):
    # keys the driver adds to a case after gen_cases (e.g. "_pre" of the history perturbation) are not part of the script
    c = {k: v for k, v in case.items() if not k.startswith("_")}
    return hashlib.sha1(json.dumps(c, sort_keys=True, default=str).encode()).hexdigest()


def _run_worker(seed, cases):
    env = dict(os.environ)
    env["PYTHONHASHSEED"] = str(seed)
    env["PYTHONPATH"] = lib.REPO + os.pathsep + lib.VERIF
    env["PYTHONDONTWRITEBYTECODE"] = "1"
    try:
        p = subprocess.run([sys.executable, "-B", "-m", "harness.c09.worker"], input=json.dumps({"cases": cases}), env=env,
                           cwd=lib.VERIF, stdout=subprocess.PIPE, stderr=subprocess.PIPE, text=True, timeout=900)
        if p.returncode != 0:
            return [{"worker_exc": "exit %d: %s" % (p.returncode, p.stderr[-300:])}] * len(cases)
        txt = p.stdout
        return json.loads(txt[txt.index("{"):])["results"]
    except Exception as e:  # noqa
        return [{"worker_exc": "%s: %s" % (type(e).__name__, e)}] * len(cases)


def prefetch(cases, seeds):
    todo = [c for c in cases if any((_key(c), s) not in _SEED_CACHE for s in seeds)]
    if not todo:
        return
    with cf.ThreadPoolExecutor(max_workers=min(lib.NPROC, len(seeds))) as ex:
        for seed, res in zip(seeds, ex.map(lambda s: _run_worker(s, todo), seeds)):
            for c, r in zip(todo, res):
                _SEED_CACHE[(_key(c), seed)] = r


def run_impl(case):
    from harness.c09 import observe
    out = observe.run_case(case)
    if "build_exc" in out:
        return out
    seeds = seeds_for(_STASH["tier"])
    k = _key(case)
    if any((k, s) not in _SEED_CACHE for s in seeds):
        prefetch([case], seeds)
    out["seeds"] = {str(s): _SEED_CACHE[(k, s)] for s in seeds}
    out["world"] = {str(l): n for l, n in out["world"].items()}
    return out


# ---- verdicts shared by to_coq and the oracle (plain comparisons of what the implementation did) -----------
def _seed_mismatch(outcome):
    from harness.c09 import observe
    ref = observe.mask(outcome["results"])
    for s, r in sorted(outcome.get("seeds", {}).items(), key=lambda kv: int(kv[0])):
        if r.get("results") != ref:
            return s, r
    return None


# ---- model side ---------------------------------------------------------------------------------------------
def _atom(s):
    if len(s) > 48:
        s = s[:32] + "~" + hashlib.sha1(s.encode("utf-8", "replace")).hexdigest()[:8]
    return "(VAtom %s)" % S(s)


def _val(v, n):
    k = v[0]
    if k == "a":
        return _atom(v[1])
    if k == "r":
        return "(VRef %d)" % v[1] if v[1] <= n else '(VAtom "<new object>")'
    if k == "l":
        return "(VList %s)" % L([_val(x, n) for x in v[1]])
    if k == "t":
        return "(VList %s)" % L(['(VAtom "<tuple>")'] + [_val(x, n) for x in v[1]])
    if k == "s":
        return "(VSet %s)" % L([_val(x, n) for x in v[1]])
    if k == "d":
        return "(VDict %s %s)" % (L([_val(x[0], n) for x in v[1]]), L([_val(x[1], n) for x in v[1]]))
    raise ValueError(k)


def to_coq(case, outcome):
    if "build_exc" in outcome or "harness_exc" in outcome:
        return None
    world = {int(l): nd for l, nd in outcome["world"].items()}
    n = len(world)
    if sorted(world) != list(range(1, n + 1)):
        raise ValueError("labels not contiguous")
    objs = ['mkObj "<module-state>" [("digest", VAtom %s)]' % S(outcome["module_state"][0])]
    for l in range(1, n + 1):
        nd = world[l]
        objs.append("mkObj %s %s" % (S(nd["cls"]), L(["(%s, %s)" % (S(k), _val(v, n)) for k, v in nd["fields"]])))
    hist = L(["(%d, %s)" % (loc, S(_OBS_METHOD[st[1][0]])) for loc, st in zip(outcome["locs"], case["hist"])])
    diff = ["(%d, %s, %s)" % (d["label"], S(d["attr"]), _val(d["new"], n)) for d in outcome["diffs"] if d["label"] <= n]
    if outcome["module_state"][0] != outcome["module_state"][1]:
        diff.append('(0, "digest", VAtom %s)' % S(outcome["module_state"][1]))
    repeat_ok = outcome["results"] == outcome["repeat"]
    twin_ok = outcome["results"] == outcome["twin"]
    seeds_ok = _seed_mismatch(outcome) is None
    return "(Case %s %s %s %s %s %s %s)" % (L(objs), hist, L(diff), B(repeat_ok), B(twin_ok), B(seeds_ok),
                                           L([S(x) for x in outcome["executed"]]))


# ---- oracle: the property's observe_at lines, on the implementation only ------------------------------------
_KW = re.compile(r"[A-Z][A-Z ]*[A-Z]")


def _clause(a, b_):
    """the SQL keyword(s) preceding the first position where two texts differ"""
    i = 0
    while i < min(len(a), len(b_)) and a[i] == b_[i]:
        i += 1
    ms = [m for m in _KW.finditer(a[:i])]
    return " ".join(ms[-1].group(0).split()[-3:]) if ms else "text"     # at most three keywords: "FOR UPDATE OF"


def _first_diff(xs, ys):
    for i, (x, y) in enumerate(zip(xs, ys)):
        if x != y:
            return i, x, y
    return (min(len(xs), len(ys)), None, None)


def oracle(case, outcome):
    if "build_exc" in outcome or "harness_exc" in outcome:
        return []
    out, seen = [], set()
    root = outcome["root_cls"].split(".")[-1]

    def add(sig, what):
        if tuple(sig) not in seen:
            seen.add(tuple(sig))
            out.append({"signature": sig, "what": what})
    # 1. str(obj) / any observer before-after arbitrary observation sequences: no object's state may change ...
    for d in outcome["diffs"]:
        add(["C09", d["cls"].split(".")[-1], _OBS_METHOD.get(d["obs"], d["obs"]), d["attr"]],
            "observation #%d (%s) changed attribute %s of a %s (object %d of the graph) to %s" % (
                d["step"], d["obs"], d["attr"], d["cls"], d["label"], json.dumps(d["new"])[:200]))
    for k in outcome.get("module_diff", []):
        add(["C09", "<module-state>", "history", k], "the observation history changed module state %s" % k)
    # ... every observation gives the same result when repeated after the whole history, and on a freshly built twin
    if outcome["results"] != outcome["repeat"]:
        i, x, y = _first_diff(outcome["results"], outcome["repeat"])
        st = case["hist"][i][1][0] if i < len(case["hist"]) else "?"
        add(["C09", root, _OBS_METHOD.get(st, st), "not-repeatable"],
            "observation #%d (%s) returned %s the first time and %s after the history" % (i, st, json.dumps(x)[:300], json.dumps(y)[:300]))
    if outcome["results"] != outcome["twin"]:
        i, x, y = _first_diff(outcome["results"], outcome["twin"])
        st = case["hist"][i][1][0] if i < len(case["hist"]) else "?"
        add(["C09", root, _OBS_METHOD.get(st, st), "differs-from-fresh-twin"],
            "observation #%d (%s) returned %s on the object and %s on an identically constructed fresh object" % (
                i, st, json.dumps(x)[:300], json.dumps(y)[:300]))
    # 2. the same construction script in sub-processes with different PYTHONHASHSEED
    mm = _seed_mismatch(outcome)
    if mm is not None:
        from harness.c09 import observe
        s, r = mm
        ref = observe.mask(outcome["results"])
        if "results" not in r:
            add(["C09", root, "hashseed", "sub-process"], "sub-process with PYTHONHASHSEED=%s failed: %s" % (s, json.dumps(r)[:300]))
        else:
            i, x, y = _first_diff(ref, r["results"])
            cl = _clause(x[1], y[1]) if x and y and len(x) > 1 and len(y) > 1 and isinstance(x[1], str) and isinstance(y[1], str) else "result"
            add(["C09", root, "hashseed", cl],
                "observation #%d differs between processes: %s here, %s under PYTHONHASHSEED=%s" % (i, json.dumps(x)[:300], json.dumps(y)[:300], s))
    return out


# ---- evidence helpers ---------------------------------------------------------------------------------------
def _count_nodes(spec):
    if isinstance(spec, list):
        return (1 if spec and isinstance(spec[0], str) else 0) + sum(_count_nodes(x) for x in spec)
    if isinstance(spec, dict):
        return sum(_count_nodes(x) for x in spec.values())
    return 0


def nontrivial_key(case):
    h = case["hist"]
    if len(h) >= 3 and any(s[1][0] == "sql" and s[1][1] for s in h) and _count_nodes(case["obj"]) >= 4:
        return _key(case)
    return None


def histogram(cases):
    h = {}

    def inc(k):
        h[k] = h.get(k, 0) + 1
    for c in cases:
        inc("kind=" + c.get("kind", "?"))
        o = c["obj"]
        inc("obj=" + o[0] + (":" + o[1] if o[0] in ("q", "create", "drop") else ""))
        for st in c["hist"]:
            inc("obs=" + st[1][0])
            inc("target=" + st[0][0])
            if st[1][0] == "sql":
                for k in st[1][1]:
                    inc("kw=" + k)
        if o[0] == "q":
            for st in o[2]:
                inc("step=" + st[0])
    return h


def targeted_search(rng, broken, mism_cases):
    """something broke (table not empty / model and implementation disagree): look for a failing input around the
    reported places — every corpus case, single observations of the disagreeing cases, and a denser random batch"""
    from harness.c09 import gen
    out = []
    for c in mism_cases:
        for st in c["hist"]:
            out.append(dict(c, hist=[st, [["root"], ["str"]]]))
    for _ in range(150):
        out.append(gen.gen_case(rng, "quick"))
    for _ in range(60):
        c = gen.gen_case(rng, "quick", kind="select")
        qc = rng.choice(["MySQLQuery", "PostgreSQLQuery"])
        c["obj"] = gen.rselect_query(rng, len(c["tables"]), len(c["subs"]), 1, qcls=qc)
        c["obj"][2] = [s for s in c["obj"][2] if s[0] != "for_update"] + [["for_update", [], {"of": rng.sample(
            ["zeta", "abc", "mid_dle", "T9", "alpha", "efg", "Orders", "k1", "k2"], 6)}]]
        out.append(c)
    prefetch(out, seeds_for(_STASH["tier"]))
    return out
