"""C02 — rendered expressions keep the operator structure the user built.
Model: coq/Terms.v (faithful renderer), coq/Parse.v + lemmas/ParsePrint.v (generic print/parse theorem),
coq/C02Model.v / C02Frag.v (pypika instance, fragment), tables regenerated into coq/gen/TermsTable.v."""
import re
import sqlite3

from harness import terms_family as tf
from harness.lib import S, P, N
from harness.terms_extract import extract_terms_table

ID = "C02"
COQ_PROP = "props/C02.v"
CORR_REQUIRE = ["Crit", "gen.TermsTable", "Terms", "TermsCorr", "Parse", "C02Model", "C02Frag"]
CORR_CHECK = "check_c02"
CORR_SHOW = "show_c02"
GEN_FILES = ["gen/TermsTable.v"]
SHARD = 150
RULE = ("typed random expression trees (arithmetic incl. shifts, unary minus, comparisons, LIKE/IN/BETWEEN/IS NULL, NOT, "
        "AND/OR/XOR, CASE, functions; numeric/string/NULL/parameter leaves; depth<=4 quick, <=6 thorough) rendered under "
        "random keyword contexts and in real statement positions (select list, WHERE, HAVING, ON, SET value); a separate "
        "malformed stream (criteria as operands, empties, CASE without WHEN). Non-trivial = contains >=2 operator nodes; "
        "distinct by structural hash. For each case the model text is compared with pypika's and the proved fragment is "
        "cross-checked against an SQLite differential (pypika text vs fully parenthesised reference text).")
TRUSTED = [
    "engine precedence tables pg/mysql/sqlite in coq/C02Model.v (written from the engines' manuals)",
    "harness/terms_family.py builds the same tree on pypika and as a Gallina term",
    "harness/terms_extract.py tabulates the real left/right_needs_parens, needs_brackets and operator texts (exhaustive)",
    "oracle: SQLite 3.40 evaluates pypika's text and an explicit fully parenthesised reference text on seeded rows",
]
ASSUMPTIONS = ["XOR / ILIKE / RLIKE / REGEX trees are not judged by the SQLite oracle (engine lacks them); the theorem covers them",
               "oracle compares REAL-typed shadow trees (integer leaves as x.0) so that the real-number identities the property allows hold"]


def extract():
    return {"gen/TermsTable.v": extract_terms_table()}


# ----------------------------------------------------------------------------------------------
# generation
# ----------------------------------------------------------------------------------------------
POS = ["select", "where", "having", "on", "set", "funcarg", "casebranch"]
POS_CTX = {
    "select": {"q": '"', "sq": "'", "wa": True, "subq": True},
    "where": {"q": '"', "sq": "'", "subq": True},
    "having": {"q": '"', "sq": "'"},
    "on": {"q": '"', "sq": "'", "subq": True, "wn": True},
    "set": {"q": '"', "sq": "'"},
    "funcarg": {"q": '"', "sq": "'", "subq": True},
    "casebranch": {"q": '"', "sq": "'", "subq": True},
}


def _gen(rng, tier):
    return tf.Gen(rng, p_alias=0.0, p_table=0.15, hostile=0.3, with_sub=False, p_crit=0.12)


def gen_cases(rng, tier):
    n = 450 if tier == "quick" else 6000
    g = _gen(rng, tier)
    g0 = tf.Gen(rng, p_alias=0.0, p_table=0.0, hostile=0.3, with_sub=False, p_crit=0.08)
    ga = tf.Gen(rng, p_alias=0.12, p_table=0.3, hostile=0.3, with_sub=True)
    out = []
    for i in range(n):
        d = rng.choice([1, 2, 3, 3, 4] if tier == "quick" else [2, 3, 4, 5, 6])
        r = rng.random()
        if r < 0.55:
            t = g.boolean(d) if rng.random() < 0.5 else g.num(d)
            out.append({"kind": "ctx", "t": t, "c": dict(tf.STR_CTX)})
        elif r < 0.7:
            t = g0.boolean(d) if rng.random() < 0.5 else g0.num(d)
            out.append({"kind": "pos", "t": t, "pos": rng.choice(POS)})
        elif r < 0.9:
            t = ga.any(d)
            out.append({"kind": "ctx", "t": t, "c": tf.gen_ctx(rng)})
        else:
            out.append({"kind": "ctx", "t": g.malformed(d), "c": dict(tf.STR_CTX)})
        # two cases in five are written the way users write them (operators and Term methods) rather than with the
        # constructors: both must render the model's text
        if rng.random() < 0.4:
            out[-1]["form"] = "ops"
    # MOD(x, y) / the % operator, under every dialect (a dialect-specific infix rendering must bracket its operands): seeded/C02-19
    for i in range(n // 12):
        m = ["func", "MOD", [g0.num(rng.choice([0, 1, 2])), g0.num(rng.choice([0, 1]))], None]
        r = rng.random()
        t = m if r < 0.3 else (["arith", rng.choice(["add", "sub", "mul", "div"]), m, g0.num(1), None] if r < 0.55 else
                               (["arith", rng.choice(["add", "sub", "mul", "div"]), g0.num(1), m, None] if r < 0.8 else
                                ["basic", rng.choice(["eq", "gt", "lt"]), m, g0.num(1), None]))
        c = dict(tf.STR_CTX)
        if rng.random() < 0.85:
            c["dia"] = rng.choice(sorted(tf.DIALECTS))
        out.append({"kind": "ctx", "t": t, "c": c})
        if rng.random() < 0.5:
            out[-1]["form"] = "ops"
    # aggregate FILTER(WHERE ...): several criteria (one call or chained calls) are folded with Criterion.all
    for i in range(n // 10):
        calls = [[g0.boolean(rng.choice([0, 1, 2])) for _ in range(rng.choice([1, 1, 2, 3]))] for _ in range(rng.choice([1, 1, 2]))]
        out.append({"kind": "agg", "func": rng.choice(["SUM", "COUNT", "MAX", "MIN"]), "t": g0.num(rng.choice([0, 1, 2])), "filters": calls})
    # ValueWrapper(<term>) as an operand (implementation-side, engine-judged; see judge_wrapped)
    out += wrapped_fixed()
    gw = tf.Gen(rng, p_alias=0.0, p_table=0.0, hostile=0.0, with_sub=False, p_crit=0.05)
    k = 0
    while k < n // 6:
        try:
            w = _wrap_somewhere(rng, gw.num(rng.choice([2, 3])))
        except NotJudged:
            w = None
        k += 1
        if w is not None and _has_wrapper(w):
            out.append({"kind": "wrap", "t": w})
    return out


A, B_, C_ = ["field", "a", None, None], ["field", "b", None, None], ["field", "c", None, None]


def under_not_probes():
    """NOT over every operand slot holding a predicate (comparison, IN, BETWEEN, IS NULL): the flag a NOT hands down must not
    switch off the operand's brackets (seeded/C02-15: `NOT c=a=b` for NOT c=(a=b))."""
    one, two = ["vali", 1, None], ["vali", 2, None]
    preds = [["basic", "eq", A, B_, None], ["in", A, ["tuple", [one, two], None], False, None], ["between", A, one, two, None],
             ["isnull", A, None]]
    out = []
    for p in preds:
        out.append(["not", ["basic", "eq", C_, p, None], None])                                  # NOT c=(p)
        out.append(["not", ["basic", "gt", ["arith", "add", p, one, None], one, None], None])    # NOT (p)+1>1
        out.append(["not", ["basic", "eq", p, C_, None], None])                                  # NOT (p)=c
        out.append(["not", ["isnull", p, None], None])                                           # NOT (p) IS NULL
        out.append(["not", ["between", C_, p, two, None], None])                                 # NOT c BETWEEN (p) AND 2
        out.append(["not", ["in", p, ["tuple", [one, two], None], False, None], None])           # NOT (p) IN (1,2)
    return out


def corpus():
    sc = dict(tf.STR_CTX)
    ws = [
        ["neg", ["arith", "add", A, B_, None]],                               # -(a+b)
        ["neg", ["neg", A]],                                                  # -(-a)
        ["arith", "sub", A, ["vali", -1, None], None],                        # a-(-1)
        ["arith", "mul", A, ["neg", ["arith", "add", B_, C_, None]], None],   # a*(-(b+c))
        ["arith", "add", ["arith", "lshift", A, B_, None], C_, None],         # (a<<b)+c
        ["arith", "add", A, ["arith", "lshift", B_, C_, None], None],         # a+(b<<c)
        ["arith", "lshift", A, ["arith", "lshift", B_, C_, None], None],      # a<<(b<<c)
        ["arith", "add", ["basic", "gt", A, B_, None], ["vali", 1, None], None],  # (a>b)+1
        ["basic", "eq", A, ["cplx", "and", ["basic", "eq", B_, ["vali", 1, None], None],
                            ["basic", "eq", C_, ["vali", 2, None], None], None], None],  # a=(b=1 AND c=2)
        ["arith", "div", A, ["star", None], None],                            # a/*  (star operand: outside the property, not judged)
        ["basic", "eq", ["not", A, None], B_, None],                          # (NOT a)=b   known finding: NOT as an operand
        ["arith", "add", ["not", A, None], ["vali", 1, None], None],          # (NOT a)+1
        ["neg", ["not", A, None]],                                            # -(NOT a)
        ["isnull", ["not", A, None], None],                                   # (NOT a) IS NULL
        ["not", ["basic", "eq", A, ["cplx", "and", ["basic", "eq", B_, ["vali", 1, None], None],
                                    ["basic", "eq", C_, ["vali", 2, None], None], None], None], None],  # NOT a=(b=1 AND c=2): one pair of brackets
        ["arith", "sub", A, ["arith", "mul", ["vali", -1, None], B_, None], None],   # a-(-1*b)
        ["neg", ["basic", "gt", A, B_, None]],                                # -(a>b)
        ["basic", "eq", ["between", A, B_, C_, None], ["isnull", A, None], None],   # (a BETWEEN b AND c)=(a IS NULL)
        # shapes that must stay right
        ["arith", "sub", A, ["arith", "sub", B_, C_, None], None],
        ["arith", "div", A, ["arith", "mul", B_, C_, None], None],
        ["arith", "mul", A, ["arith", "div", B_, C_, None], None],
        ["arith", "mul", ["arith", "add", A, B_, None], C_, None],
        ["arith", "sub", A, ["arith", "add", B_, C_, None], None],
        ["cplx", "and", ["cplx", "or", ["basic", "eq", A, ["vali", 1, None], None], ["basic", "eq", B_, ["vali", 2, None], None], None],
         ["not", ["cplx", "and", ["basic", "lt", A, B_, None], ["isnull", C_, None], None], None], None],
        ["cplx", "or", ["between", A, B_, C_, None], ["in", A, ["tuple", [["vali", 1, None], ["vali", 2, None]], None], True, None], None],
    ]
    ws += under_not_probes()[:6]
    p_ = ["basic", "gt", A, ["vali", 1, None], None]
    q_ = ["basic", "lt", B_, ["vali", 3, None], None]
    r_ = ["basic", "ne", C_, ["vali", 0, None], None]
    aggs = [{"kind": "agg", "func": "SUM", "t": A, "filters": [[["cplx", "or", p_, q_, None], r_]]},
            {"kind": "agg", "func": "COUNT", "t": B_, "filters": [[p_], [["cplx", "or", q_, r_, None]]]}]
    # the same trees written with Python operators / Term methods; plus NOT over IN in every combination (an operator
    # override that folds `~` into the IN test loses a negation: seeded/C02-10)
    in12 = lambda neg: ["in", A, ["tuple", [["vali", 1, None], ["vali", 2, None]], None], neg, None]   # noqa: E731
    nn = lambda neg: ["in", A, ["tuple", [["vali", 1, None], ["vali", 2, None]], None], neg, None, True]   # noqa: E731  .negate().negate()
    ops = ws + [nn(False), nn(True), ["not", nn(True), None],        # fixed a8fde08: negate() set the flag instead of toggling it
                ["not", in12(False), None], ["not", in12(True), None], ["not", ["not", in12(False), None], None],
                ["not", ["isnull", A, None], None], ["not", ["between", A, B_, C_, None], None]]
    return ([{"kind": "ctx", "t": t, "c": sc} for t in ws] + [{"kind": "ctx", "t": t, "c": sc, "form": "ops"} for t in ops] + aggs)


# ----------------------------------------------------------------------------------------------
# implementation
# ----------------------------------------------------------------------------------------------
def _pos_text(t, pos, ops=False):
    """Render the expression inside a real statement and cut the fragment out."""
    from pypika import Query, Table, Field
    from pypika.terms import Function, Case
    tt, u = Table("t"), Table("u")
    e = tf.build(t, ops=ops)
    if pos == "select":
        s = str(Query.from_(tt).select(e))
        m = re.match(r'^SELECT (.*) FROM "t"$', s, re.S)
    elif pos == "where":
        s = str(Query.from_(tt).select("z").where(e))
        m = re.match(r'^SELECT "z" FROM "t" WHERE (.*)$', s, re.S)
    elif pos == "having":
        s = str(Query.from_(tt).select("z").having(e))
        m = re.match(r'^SELECT "z" FROM "t" HAVING (.*)$', s, re.S)
    elif pos == "on":
        s = str(Query.from_(tt).join(u).on(e).select(Field("z")))
        m = re.match(r'^SELECT "z" FROM "t" JOIN "u" ON (.*)$', s, re.S)
    elif pos == "set":
        s = str(Query.update(tt).set("z", e))
        m = re.match(r'^UPDATE "t" SET "z"=(.*)$', s, re.S)
    elif pos == "funcarg":
        s = str(Query.from_(tt).select(Function("G", e)))
        m = re.match(r'^SELECT G\((.*)\) FROM "t"$', s, re.S)
    elif pos == "casebranch":
        s = str(Query.from_(tt).select(Case().when(Field("z") == 0, e)))
        m = re.match(r'^SELECT CASE WHEN "z"=0 THEN (.*) END FROM "t"$', s, re.S)
    else:
        raise ValueError(pos)
    if not m:
        return "!nomatch:" + s
    return m.group(1)


def case_ctx(case):
    return case["c"] if case["kind"] == "ctx" else POS_CTX[case["pos"]]


def _agg_text(case):
    from pypika import functions as fn
    f = {"SUM": fn.Sum, "COUNT": fn.Count, "MAX": fn.Max, "MIN": fn.Min}[case["func"]](tf.build(case["t"]))
    for call in case["filters"]:
        f = f.filter(*[tf.build(c) for c in call])
    return f.get_sql(quote_char='"', secondary_quote_char="'")


def run_impl(case):
    try:
        if case["kind"] == "agg":
            text = _agg_text(case)
            return {"text": text, "judge": judge_agg(case, text)}
        if case["kind"] == "wrap":
            try:
                text = _wrapped_text(case["t"])
            except Exception as e:  # noqa
                text = "!" + type(e).__name__
            return {"text": text, "judge": judge_wrapped(case, text)}
        ops = case.get("form") == "ops"
        if case["kind"] == "ctx":
            text = tf.render_impl(case["t"], case["c"], ops=ops)
        else:
            text = _pos_text(case["t"], case["pos"], ops=ops)
    except Exception as e:  # noqa
        text = "!" + type(e).__name__
    out = {"text": text}
    out["judge"] = judge(case, text)
    return out


def to_coq(case, outcome):
    if case["kind"] == "wrap":
        return None     # ValueWrapper(<term>) is not a node of coq/Terms.v; judged by the oracle
    if case["kind"] == "agg":
        return None     # FILTER clauses are not in coq/Terms.v (C18 models their placement); judged by the oracle
    c = case_ctx(case)
    hv = {"same": 1, "differs": 2}.get(outcome["judge"]["verdict"], 0)
    return P(tf.ctx_coq(c), tf.coq(case["t"]), S(outcome["text"]), N(hv))


# ----------------------------------------------------------------------------------------------
# oracle: SQLite differential of pypika's text against a fully parenthesised reference
# ----------------------------------------------------------------------------------------------
COLS = {"a": "REAL", "b": "REAL", "c": "REAL", "col": "REAL", "x1": "REAL"}
ROWS = [(7.5, 2.25, -3.5, 0.5, 12.0), (-1.0, 4.0, 2.0, -8.0, 3.0), (3.0, 3.0, 1.0, 2.0, 2.0), (0.5, -0.25, 16.0, 5.0, -6.0),
        (2.0, 1.0, 0.0, 9.0, 1.0), (100.0, 7.0, 3.0, -2.0, 4.0)]
SQLITE_CMP = {"eq": "=", "ne": "<>", "gt": ">", "gte": ">=", "lt": "<", "lte": "<=", "like": " LIKE ", "not_like": " NOT LIKE ",
              "glob": " GLOB "}
ARITH = {"add": "+", "sub": "-", "mul": "*", "div": "/", "lshift": "<<", "rshift": ">>"}


class NotJudged(Exception):
    pass


def shadow(t):
    """Same structure with REAL-typed numeric leaves (ints as x.0) and table-less fields; NotJudged when the
    tree uses something the SQLite differential cannot evaluate."""
    k = t[0]
    if k == "field":
        if t[1] not in COLS:
            raise NotJudged("field")
        return ["field", t[1], None, None]
    if k == "vali":
        return ["valf", repr(float(int(t[1]))), None]
    if k == "valf":
        return ["valf", t[1], None]
    if k == "vals":
        return ["vals", t[1], None]
    if k == "neg":
        return ["neg", shadow(t[1])]
    if k == "arith":
        return ["arith", t[1], shadow(t[2]), shadow(t[3]), None]
    if k == "basic":
        if t[1] not in SQLITE_CMP:
            raise NotJudged("cmp")
        return ["basic", t[1], shadow(t[2]), shadow(t[3]), None]
    if k == "cplx":
        if t[1] == "xor":
            raise NotJudged("xor")
        return ["cplx", t[1], shadow(t[2]), shadow(t[3]), None]
    if k == "in":
        if t[2][0] != "tuple" or not t[2][1]:
            raise NotJudged("in")
        return ["in", shadow(t[1]), ["tuple", [shadow(x) for x in t[2][1]], None], t[3], None]
    if k == "between":
        return ["between", shadow(t[1]), shadow(t[2]), shadow(t[3]), None]
    if k in ("isnull", "notnull", "not"):
        return [k, shadow(t[1]), None]
    if k == "case":
        if not t[1]:
            raise NotJudged("case")
        return ["case", [[shadow(c), shadow(v)] for c, v in t[1]], None if t[2] is None else shadow(t[2]), None]
    if k == "func":
        if t[1] == "ABS" and len(t[2]) == 1:
            return ["func", "ABS", [shadow(t[2][0])], None]
        if t[1] == "COALESCE" and len(t[2]) >= 1:
            return ["func", "COALESCE", [shadow(x) for x in t[2]], None]
        if t[1] == "MOD" and len(t[2]) == 2:
            return ["func", "MOD", [shadow(x) for x in t[2]], None]
        raise NotJudged("func")
    raise NotJudged(k)


def sqlit(s):
    return "'" + s.replace("'", "''") + "'"


def explicit(t):
    """Fully parenthesised SQLite text, written without pypika."""
    k = t[0]
    if k == "field":
        return '"%s"' % t[1]
    if k == "valf":
        return "(%s)" % t[1]
    if k == "vals":
        return sqlit(t[1])
    if k == "neg":
        return "(- (%s))" % explicit(t[1])
    if k == "arith":
        return "((%s) %s (%s))" % (explicit(t[2]), ARITH[t[1]], explicit(t[3]))
    if k == "basic":
        return "((%s)%s(%s))" % (explicit(t[2]), SQLITE_CMP[t[1]], explicit(t[3]))
    if k == "cplx":
        return "((%s) %s (%s))" % (explicit(t[2]), t[1].upper(), explicit(t[3]))
    if k == "in":
        return "((%s) %sIN (%s))" % (explicit(t[1]), "NOT " if t[3] else "", ", ".join("(%s)" % explicit(x) for x in t[2][1]))
    if k == "between":
        return "((%s) BETWEEN (%s) AND (%s))" % (explicit(t[1]), explicit(t[2]), explicit(t[3]))
    if k == "isnull":
        return "((%s) IS NULL)" % explicit(t[1])
    if k == "notnull":
        return "((%s) IS NOT NULL)" % explicit(t[1])
    if k == "not":
        return "(NOT (%s))" % explicit(t[1])
    if k == "case":
        s = "(CASE " + " ".join("WHEN (%s) THEN (%s)" % (explicit(c), explicit(v)) for c, v in t[1])
        if t[2] is not None:
            s += " ELSE (%s)" % explicit(t[2])
        return s + " END)"
    if k == "func":
        return "%s(%s)" % (t[1], ", ".join("(%s)" % explicit(x) for x in t[2]))
    raise NotJudged(k)


_DB = None


def db():
    global _DB
    if _DB is None:
        _DB = sqlite3.connect(":memory:")
        _DB.execute("CREATE TABLE t (%s)" % ", ".join('"%s" %s' % kv for kv in COLS.items()))
        _DB.executemany("INSERT INTO t VALUES (?,?,?,?,?)", ROWS)
    return _DB


def close(x, y):
    if x is None or y is None:
        return x is None and y is None
    if isinstance(x, str) or isinstance(y, str):
        return x == y
    return abs(x - y) <= 1e-9 * max(1.0, abs(x), abs(y))


def has_comment_intro(text):
    """scan outside '..' strings and ".." / `..` identifiers for --, /*, #"""
    i, n = 0, len(text)
    while i < n:
        ch = text[i]
        if ch in "'\"`":
            j = i + 1
            while j < n:
                if text[j] == ch:
                    if j + 1 < n and text[j + 1] == ch:
                        j += 2
                        continue
                    break
                j += 1
            i = j + 1
            continue
        if text.startswith("--", i) or text.startswith("/*", i) or ch == "#":
            return True
        i += 1
    return False


def sem_differs(sh, ops=False, dia=None):
    """True if pypika's rendering of the shadow tree (built with the constructors, or with operators and Term methods
    when `ops`) and the explicit text disagree on some row (or pypika's text fails)."""
    ptxt = tf.render_impl(sh, _jctx(dia), ops=ops)
    if ptxt.startswith("!"):
        raise NotJudged("render")
    try:
        ref = db().execute("SELECT %s FROM t" % explicit(sh)).fetchall()
    except sqlite3.Error:
        raise NotJudged("reference rejected")
    try:
        got = db().execute("SELECT %s FROM t" % ptxt).fetchall()
    except sqlite3.Error as e:
        return "engine rejects %r (%s) while the explicit text is accepted" % (ptxt, e)
    for (r,), (g_,) in zip(ref, got):
        if not close(r, g_):
            return "rows differ: pypika text %r gives %r, explicit text gives %r" % (ptxt, g_, r)
    if len(ref) != len(got):
        return "row counts differ"
    return None


# ----------------------------------------------------------------------------------------------
# wrapped operands: ValueWrapper(<term>) adds no text of its own (QueryBuilder.set builds it around every value, users
# build it to give a term a value's interface); coq/Terms.v has no such node, so these cases are implementation-side
# only (to_coq returns None, like the FILTER cases) and are judged by the engine oracle against the explicit text of
# the tree WITHOUT the wrappers.  Found by a round-7 seeding agent on the unchanged tree (a*ValueWrapper(b+c) rendered
# "a"*"b"+"c"); repaired in pypika (fix: ... wrapped term as an operand), recorded as fixed in findings.d/C02.json.
# ----------------------------------------------------------------------------------------------
def _build_wrapped(t, path=()):
    """tf.build over arith / neg / basic nodes, with a ValueWrapper around every node whose key is ["w", inner]"""
    from pypika import terms as T
    from pypika import enums as E
    k = t[0]
    if k == "w":
        return T.ValueWrapper(_build_wrapped(t[1]))
    if k == "arith":
        return T.ArithmeticExpression(getattr(E.Arithmetic, t[1]), _build_wrapped(t[2]), _build_wrapped(t[3]))
    if k == "neg":
        return T.Negative(_build_wrapped(t[1]))
    if k == "basic":
        return T.BasicCriterion(getattr(E.Equality, t[1]), _build_wrapped(t[2]), _build_wrapped(t[3]))
    return tf.build(t)


def _strip_wrappers(t):
    k = t[0]
    if k == "w":
        return _strip_wrappers(t[1])
    if k == "arith":
        return ["arith", t[1], _strip_wrappers(t[2]), _strip_wrappers(t[3]), None]
    if k == "neg":
        return ["neg", _strip_wrappers(t[1])]
    if k == "basic":
        return ["basic", t[1], _strip_wrappers(t[2]), _strip_wrappers(t[3]), None]
    return t


def _shadow_wrapped(t):
    k = t[0]
    if k == "w":
        return ["w", _shadow_wrapped(t[1])]
    if k == "arith":
        return ["arith", t[1], _shadow_wrapped(t[2]), _shadow_wrapped(t[3]), None]
    if k == "neg":
        return ["neg", _shadow_wrapped(t[1])]
    if k == "basic":
        return ["basic", t[1], _shadow_wrapped(t[2]), _shadow_wrapped(t[3]), None]
    return shadow(t)


def _wrapped_text(t):
    return _build_wrapped(t).get_sql(quote_char='"', secondary_quote_char="'")


def judge_wrapped(case, text):
    if text.startswith("!"):
        return {"verdict": "differs", "detail": "rendering raised %s" % text[1:], "class": "other", "node": ["wrapped-operand", "raises"], "min": case["t"]}
    if has_comment_intro(text):
        return {"verdict": "differs", "detail": "comment introducer in %r" % text, "class": "other", "node": ["wrapped-operand", "lexical"], "min": case["t"]}
    try:
        sw = _shadow_wrapped(case["t"])
        ref_sql = explicit(_strip_wrappers(sw))
        ptxt = _wrapped_text(sw)
        ref = db().execute("SELECT %s FROM t" % ref_sql).fetchall()
    except NotJudged as e:
        return {"verdict": "not-judged", "why": str(e)}
    except sqlite3.Error:
        return {"verdict": "not-judged", "why": "reference rejected"}
    try:
        got = db().execute("SELECT %s FROM t" % ptxt).fetchall()
    except sqlite3.Error as e:
        return {"verdict": "differs", "detail": "engine rejects %r (%s) while the explicit text is accepted" % (ptxt, e),
                "class": "other", "node": ["wrapped-operand", "rejected"], "min": case["t"]}
    for (r,), (g_,) in zip(ref, got):
        if not close(r, g_):
            return {"verdict": "differs", "detail": "rows differ: pypika text %r gives %r, explicit text %r gives %r" % (ptxt, g_, ref_sql, r),
                    "class": "other", "node": ["wrapped-operand", "structure"], "min": case["t"]}
    # the wrappers add no text: the rendering must be the rendering of the tree without them
    plain = tf.render_impl(_strip_wrappers(case["t"]), tf.STR_CTX)
    if plain != text:
        return {"verdict": "differs", "detail": "an un-aliased wrapper changes the text: %r vs %r without it" % (text, plain),
                "class": "other", "node": ["wrapped-operand", "text"], "min": case["t"]}
    return {"verdict": "same"}


def _wrap_somewhere(rng, t, depth=0):
    """the tree with a wrapper around some compound operands (and, rarely, leaves or a second wrapper)"""
    k = t[0]
    if k == "arith":
        t = ["arith", t[1], _wrap_somewhere(rng, t[2], depth + 1), _wrap_somewhere(rng, t[3], depth + 1), None]
    elif k == "neg":
        t = ["neg", _wrap_somewhere(rng, t[1], depth + 1)]
    elif k == "basic":
        t = ["basic", t[1], _wrap_somewhere(rng, t[2], depth + 1), _wrap_somewhere(rng, t[3], depth + 1), None]
    elif k not in ("field", "vali"):
        raise NotJudged("outside the wrapped family")
    if depth > 0 and rng.random() < (0.5 if k in ("arith", "neg", "basic") else 0.1):
        t = ["w", t]
        if rng.random() < 0.15:
            t = ["w", t]
    return t


def _has_wrapper(t):
    return t[0] == "w" or any(_has_wrapper(c) for c in t[1:] if isinstance(c, list) and c and isinstance(c[0], str))


def wrapped_fixed():
    W = lambda x: ["w", x]   # noqa: E731
    ar = lambda o, l, r: ["arith", o, l, r, None]   # noqa: E731
    out = []
    for o in ARITH:
        for o2 in ARITH:
            out.append(ar(o, A, W(ar(o2, B_, C_))))
            out.append(ar(o, W(ar(o2, A, B_)), C_))
    out += [["neg", W(ar("add", A, B_))], ["neg", W(["neg", A])], ar("sub", A, W(["neg", B_])), ar("sub", A, W(["vali", -1, None])),
            ar("add", A, W(["basic", "gt", B_, C_, None])), ar("mul", A, W(W(ar("add", B_, C_)))),
            ["basic", "eq", W(["basic", "gt", A, B_, None]), C_, None], ar("mul", A, W(B_))]
    return [{"kind": "wrap", "t": t} for t in out]



def children(t):
    k = t[0]
    if k in ("neg", "isnull", "notnull", "not"):
        return [t[1]]
    if k in ("arith", "basic", "cplx"):
        return [t[2], t[3]]
    if k == "in":
        return [t[1]] + list(t[2][1])
    if k == "between":
        return [t[1], t[2], t[3]]
    if k == "case":
        return [x for cv in t[1] for x in cv] + ([t[2]] if t[2] is not None else [])
    if k == "func":
        return list(t[2])
    return []


def label(t):
    k = t[0]
    if k in ("arith", "basic", "cplx"):
        return "%s:%s" % (k, t[1])
    if k == "valf" and t[1].startswith("-"):
        return "negative-literal"
    if k in ("field", "valf", "vals"):
        return "atom"
    return k


CRIT = ("basic", "cplx", "not", "in", "between", "isnull", "notnull")


def has_crit_operand(n):
    """an arithmetic / comparison / range operand slot somewhere in n holds a criterion (ill-typed nesting)"""
    k = n[0]
    ch = children(n)
    if k in ("arith", "neg", "basic", "between", "in", "isnull", "notnull") and any(c[0] in CRIT for c in ch):
        return True
    return any(has_crit_operand(c) for c in ch)


def has_shift(n):
    return (n[0] == "arith" and n[1] in ("lshift", "rshift")) or any(has_shift(c) for c in children(n))


def leftmost(n):
    """the leaf/prefix node whose text comes first when n is rendered without parentheses"""
    k = n[0]
    if k in ("arith", "basic", "cplx"):
        return leftmost(n[2])
    if k in ("between", "in", "isnull", "notnull"):
        return leftmost(n[1])
    return n


def starts_with_minus(n):
    m = leftmost(n)
    return m[0] == "neg" or label(m) == "negative-literal"


OPERAND_SLOTS = {"arith": (2, 3), "basic": (2, 3), "neg": (1,), "isnull": (1,), "notnull": (1,), "between": (1, 2, 3), "in": (1,)}


def _kind_at(n, i):
    x = n[i] if i < len(n) else None
    return x[0] if isinstance(x, list) and x and isinstance(x[0], str) else None


def has_not_operand(n):
    """a NOT term sits directly in an operand slot of an operator or predicate somewhere in n"""
    if any(_kind_at(n, i) == "not" for i in OPERAND_SLOTS.get(n[0], ())):
        return True
    return any(has_not_operand(c) for c in children(n))


def has_star_operand(n):
    """the star used as an operand of an operator or predicate (not a well-typed tree: outside the property)"""
    if any(_kind_at(n, i) == "star" for i in OPERAND_SLOTS.get(n[0], ())):
        return True
    return any(has_star_operand(c) for c in children(n))


def classify(n):
    """finding class of a minimal failing node"""
    k = n[0]
    ch = children(n)
    labs = [label(c) for c in ch]
    if any(_kind_at(n, i) == "not" for i in OPERAND_SLOTS.get(k, ())):
        return "not-as-operand"
    if k == "neg":
        if starts_with_minus(ch[0]):
            return "double-minus"
        return "neg-over-compound"
    if k == "arith":
        if n[1] == "sub" and starts_with_minus(ch[1]):
            return "double-minus"
        if ch[1][0] == "neg" or ch[0][0] == "neg":
            return "neg-over-compound"   # the failing part is the negation's own operand; reached when shrinking stops here
        if any(c[0] in CRIT for c in ch):
            return "criterion-as-operand"
        if n[1] in ("lshift", "rshift") or any(c[0] == "arith" and c[1] in ("lshift", "rshift") for c in ch):
            return "shift-mix"
        if n[1] == "div" and ch[1][0] == "star":
            return "div-star"
    if has_not_operand(n):
        return "not-as-operand"
    if has_crit_operand(n):
        return "criterion-as-operand"
    if k == "arith" and has_shift(n):
        return "shift-mix"       # a shift exposed on a child's spine: the unparenthesised shift captures the outer operand
    return "other"


def _jctx(dia):
    """the judging context: plain string conventions, plus the dialect of the case (some renderings depend on it)"""
    return dict(tf.STR_CTX, dia=dia) if dia else tf.STR_CTX


def minimal_failing(sh, ops=False, dia=None):
    """deepest node whose own rendering disagrees while all its children agree"""
    for c in children(sh):
        try:
            if sem_differs(c, ops, dia) or has_comment_intro(tf.render_impl(c, _jctx(dia), ops=ops)):
                return minimal_failing(c, ops, dia)
        except NotJudged:
            continue
    return sh


def _raw_leaf_has_intro(t):
    """user-supplied raw SQL leaves (LiteralValue, Parameter, CAST type) are outside the property"""
    if t[0] in ("lit", "param"):
        return has_comment_intro(str(t[1]))
    return any(_raw_leaf_has_intro(x) for x in t[1:] if isinstance(x, list) and x and isinstance(x[0], str)) or \
        any(_raw_leaf_has_intro(y) for x in t[1:] if isinstance(x, list) and x and isinstance(x[0], list) for y in x
            if isinstance(y, list) and y and isinstance(y[0], str)) or \
        any(_raw_leaf_has_intro(z) for x in t[1:] if isinstance(x, list) and x and isinstance(x[0], list) for y in x
            if isinstance(y, list) and y and isinstance(y[0], list) for z in y if isinstance(z, list) and z and isinstance(z[0], str))


def judge(case, text):
    t = case["t"]
    ops = case.get("form") == "ops"
    dia = (case_ctx(case) or {}).get("dia")
    try:
        star = has_star_operand(t)
    except Exception:      # shapes outside the judged language (sub-query containers ...): judged below or not at all
        star = False
    if star:
        return {"verdict": "not-judged", "why": "star as an operand: not a well-typed expression tree"}
    # lexical clause on the real text (any tree, any context): a comment introducer outside quoted regions
    if not text.startswith("!") and has_comment_intro(text) and not _raw_leaf_has_intro(t):
        cls = "div-star" if "/*" in text else ("double-minus" if "--" in text else "other")
        return {"verdict": "differs", "detail": "comment introducer in %r" % text, "class": cls, "node": ["lexical", cls], "min": t}
    try:
        sh = shadow(t)
    except NotJudged as e:
        return {"verdict": "not-judged", "why": str(e)}
    try:
        d = sem_differs(sh, ops, dia)
    except NotJudged as e:
        return {"verdict": "not-judged", "why": str(e)}
    ci = has_comment_intro(tf.render_impl(sh, _jctx(dia), ops=ops))
    if d or ci:
        m = minimal_failing(sh, ops, dia)
        return {"verdict": "differs", "detail": d or "comment introducer in %r" % tf.render_impl(sh, _jctx(dia), ops=ops),
                "class": classify(m), "node": [label(m)] + [label(c) for c in children(m)], "min": m}
    return {"verdict": "same"}


def judge_agg(case, text):
    try:
        arg = shadow(case["t"])
        crits = [shadow(c) for call in case["filters"] for c in call]
    except NotJudged as e:
        return {"verdict": "not-judged", "why": str(e)}
    if text.startswith("!"):
        return {"verdict": "not-judged", "why": "render"}
    # a part that already fails by itself (argument or one criterion) is reported under its own class; the aggregate-level
    # comparison below judges only what FILTER adds (the folding of several criteria)
    for part in [case["t"]] + [c for call in case["filters"] for c in call]:
        try:
            pj = judge({"t": part}, tf.render_impl(part, tf.STR_CTX))
        except Exception:
            pj = {"verdict": "not-judged"}
        if pj.get("verdict") == "differs":
            return pj
    w = None
    for c in crits:
        w = explicit(c) if w is None else "((%s) AND (%s))" % (w, explicit(c))
    ref_sql = "%s((%s)) FILTER (WHERE %s)" % (case["func"], explicit(arg), w)
    # pypika's text of the same aggregate over the REAL-typed shadow tree
    try:
        ptxt = _agg_text({"func": case["func"], "t": arg, "filters": [crits]}) if False else None
        from pypika import functions as fn
        f = {"SUM": fn.Sum, "COUNT": fn.Count, "MAX": fn.Max, "MIN": fn.Min}[case["func"]](tf.build(arg))
        k = 0
        for call in case["filters"]:
            f = f.filter(*[tf.build(crits[k + i]) for i in range(len(call))])
            k += len(call)
        ptxt = f.get_sql(quote_char='"', secondary_quote_char="'")
        ref = db().execute("SELECT %s FROM t" % ref_sql).fetchall()
    except Exception:
        return {"verdict": "not-judged", "why": "reference rejected"}
    try:
        got = db().execute("SELECT %s FROM t" % ptxt).fetchall()
    except sqlite3.Error as e:
        return {"verdict": "differs", "detail": "engine rejects %r (%s)" % (ptxt, e), "class": "other",
                "node": ["agg-filter", "rejected"], "min": case["t"]}
    if not close(ref[0][0], got[0][0]):
        return {"verdict": "differs", "detail": "aggregate differs: pypika text %r gives %r, explicit text gives %r" % (ptxt, got[0][0], ref[0][0]),
                "class": "other", "node": ["agg-filter", "conjunction"], "min": case["t"]}
    return {"verdict": "same"}


def oracle(case, outcome):
    j = outcome.get("judge") or {}
    if j.get("verdict") != "differs":
        return []
    cls = j["class"]
    sig = ["C02", cls] if cls != "other" else ["C02", "other"] + j["node"]
    return [{"signature": sig,
             "what": "rendered text does not denote the Python tree: %s (minimal failing node %s)" % (j["detail"], j["node"])}]


def nontrivial_key(case):
    import json
    if case["kind"] == "agg":
        return json.dumps(case, sort_keys=True) if sum(len(c) for c in case["filters"]) >= 2 else None
    if case["kind"] == "wrap":
        return json.dumps(case, sort_keys=True)
    ops = sum(v for k, v in tf.kinds(case["t"]).items() if k in ("arith", "basic", "cplx", "neg", "not", "in", "between", "case", "func"))
    return json.dumps([case["t"], case_ctx(case)], sort_keys=True) if ops >= 2 else None


def histogram(cases):
    h = {}
    for c in cases:
        if c["kind"] in ("agg", "wrap"):
            h["kind=" + c["kind"]] = h.get("kind=" + c["kind"], 0) + 1
            continue
        h["kind=" + c["kind"] + ("/" + c["pos"] if c["kind"] == "pos" else "")] = h.get("kind=" + c["kind"] + ("/" + c["pos"] if c["kind"] == "pos" else ""), 0) + 1
        for k, v in tf.kinds(c["t"]).items():
            h[k] = h.get(k, 0) + v
    return h


def targeted_search(rng, broken, mism_cases):
    """every operator pair x side as a 3-leaf tree (witness constructor for a changed predicate), plus sub-terms of the
    disagreeing cases, plus a denser random batch"""
    out = []
    sc = dict(tf.STR_CTX)
    ops = list(ARITH)
    for o in ops:
        for o2 in ops:
            out.append({"kind": "ctx", "t": ["arith", o, ["arith", o2, A, B_, None], C_, None], "c": sc})
            out.append({"kind": "ctx", "t": ["arith", o, A, ["arith", o2, B_, C_, None], None], "c": sc})
    for b in ("and", "or"):
        for b2 in ("and", "or"):
            p, q_, r = (["basic", "eq", A, ["vali", 1, None], None], ["basic", "eq", B_, ["vali", 2, None], None],
                        ["basic", "gt", C_, ["vali", 0, None], None])
            out.append({"kind": "ctx", "t": ["cplx", b, ["cplx", b2, p, q_, None], r, None], "c": sc})
            out.append({"kind": "ctx", "t": ["cplx", b, p, ["cplx", b2, q_, r, None], None], "c": sc})
            out.append({"kind": "ctx", "t": ["not", ["cplx", b, p, q_, None], None], "c": sc})
    out += [{"kind": "ctx", "t": t, "c": sc} for t in under_not_probes()]
    out += wrapped_fixed()
    for c in mism_cases:
        if c["kind"] in ("agg", "wrap"):
            continue
        stack = [c["t"]]
        while stack:
            x = stack.pop()
            out.append({"kind": "ctx", "t": x, "c": sc})
            if c.get("form"):
                out[-1]["form"] = c["form"]
            stack.extend(children(x) if x[0] in ("neg", "arith", "basic", "cplx", "in", "between", "case", "func", "not", "isnull", "notnull") else [])
    g = _gen(rng, "quick")
    for _ in range(1500):
        out.append({"kind": "ctx", "t": g.boolean(3) if rng.random() < 0.5 else g.num(3), "c": sc})
        if rng.random() < 0.5:
            out[-1]["form"] = "ops"
    return out
