"""C19 — empty criteria are neutral; all/any fold filters in order (model: coq/Crit.v)."""
from harness.lib import S, L, P, B

ID = "C19"
COQ_PROP = "props/C19.v"
CORR_REQUIRE = ["Crit", "CritCorr"]
CORR_CHECK = "check_case"
CORR_SHOW = "show_case"
RULE = ("random criterion-building programs (&,|,^,~,negate,Criterion.all/any, nested, empties inserted at random "
        "positions) spread over random sequences of where()/having() calls; a case is non-trivial when it contains "
        "at least one empty criterion AND at least one binary operator or all/any; distinct by structural hash")
TRUSTED = [
    "harness/props/C19.py builds the same program on pypika objects and as a Gallina value (correspondence harness)",
    "atoms are opaque non-complex criteria whose text is taken from the implementation at run time",
]
ASSUMPTIONS = ["PostgreSQL conflict-handler where() is exercised by the oracle only (not in the Coq model)", "leaves are non-complex criteria (BasicCriterion/NullCriterion/Contains/Between) whose text does not depend on the subcriterion flag"]

OPS = {"and": "BAnd", "or": "BOr", "xor": "BXor"}


# ---- atoms: real pypika criteria; some are bound to the FROM table t, some to a table o that is NOT part of
# the statement (a correlated / foreign reference: where() then sets _foreign_table and everything gets qualified)
FOREIGN = [False, False, False, True, False, True, False]


def _atoms():
    from pypika import Field, Table
    t, o = Table("t"), Table("o")
    f = Field
    return [f("a") == 1, t.b > 2, t.c.isnull(), o.d == t.d, f("e").between(1, 5), o.g.like("x%"), t.h != "it's"]


def atom_texts(k, q):
    a = _atoms()[k]
    return (a.get_sql(quote_char=q, secondary_quote_char="'"), a.get_sql(quote_char=q, secondary_quote_char="'", with_namespace=True))


N_ATOMS = 7


def _raws():
    """terms that are NOT criteria but are accepted by where()/having() (typed Union[Term, EmptyCriterion]): a raw SQL
    escape hatch and an arithmetic expression.  They have no `&`, so they can only be the first term of a slot - and the
    empty criterion handed in later must still be ignored (seeded/C19-15)."""
    from pypika import Table
    from pypika.terms import LiteralValue
    t = Table("t")
    return [LiteralValue('"a" % 2 = 0'), t.a - t.b, LiteralValue("COUNT(*) > 1")]


def raw_texts(k, q):
    a = _raws()[k]
    return (a.get_sql(quote_char=q, secondary_quote_char="'"), a.get_sql(quote_char=q, secondary_quote_char="'", with_namespace=True))


N_RAWS = 3
CLASSES = ["Query", "MySQLQuery", "VerticaQuery", "OracleQuery", "PostgreSQLQuery", "RedshiftQuery", "MSSQLQuery",
           "ClickHouseQuery", "SQLLiteQuery", "SnowflakeQuery"]


def qcls(name):
    import pypika
    import pypika.dialects as D
    return getattr(pypika, name, None) or getattr(D, name)


def head_of(name):
    from pypika import Table
    return str(qcls(name).from_(Table("t")).select("*"))


def quote_of(name):
    return qcls(name)._builder().QUOTE_CHAR


# ---- generator ------------------------------------------------------------------------------
def gen_expr(rng, depth, p_empty):
    r = rng.random()
    if depth <= 0 or r < 0.30:
        if rng.random() < p_empty:
            return ["empty"]
        return ["atom", rng.randrange(N_ATOMS)]
    if r < 0.62:
        return [rng.choice(["and", "or", "xor"]), gen_expr(rng, depth - 1, p_empty), gen_expr(rng, depth - 1, p_empty)]
    if r < 0.70:
        return ["inv", gen_expr(rng, depth - 1, p_empty)]
    if r < 0.76:
        return ["neg", gen_expr(rng, depth - 1, p_empty)]
    kind = "all" if r < 0.88 else "any"
    n = rng.choice([0, 1, 2, 3, 3, 4, 6])
    return [kind, [gen_expr(rng, depth - 1, p_empty) for _ in range(n)]]


def gen_cases(rng, tier):
    n = 400 if tier == "quick" else 6000
    out = []
    for i in range(n):
        depth = rng.choice([1, 2, 3, 3, 4] if tier == "quick" else [2, 3, 4, 5, 6])
        p_empty = rng.choice([0.0, 0.2, 0.4, 0.7, 1.0])
        ncalls = rng.choice([0, 1, 1, 2, 3, 5])
        calls = [[rng.random() < 0.3, gen_expr(rng, depth, p_empty)] for _ in range(ncalls)]
        out.append({"cls": rng.choice(CLASSES) if rng.random() < 0.6 else "Query", "calls": calls})
    # long member lists for all/any (the fold is proved for every length; an implementation that pre-combines neighbours
    # pairwise above some threshold — to stay under the recursion limit — can lose the odd tail: seeded/C19-12)
    for n_members in ([127, 128, 129, 130, 257] if tier == "quick" else [64, 65, 100, 127, 128, 129, 130, 131, 192, 193, 255, 256, 257, 258, 300, 385]):
        for kind in ("all", "any"):
            # exactly n_members non-empty members (the last one such that its loss shows in the text), plus a few empties
            members = [["atom", rng.randrange(N_ATOMS)] for _ in range(n_members - 1)] + [["atom", rng.choice([0, 1, 2, 4, 6])]]
            for _ in range(rng.choice([0, 0, 3])):
                members.insert(rng.randrange(len(members)), ["empty"])
            out.append({"cls": rng.choice(CLASSES), "calls": [[rng.random() < 0.3, [kind, members]]]})
    # a non-criterion term as the first term of a slot, then only empty criteria for that slot (any criteria for the other)
    for i in range(30 if tier == "quick" else 300):
        h = rng.random() < 0.4
        calls = [[h, ["raw", rng.randrange(N_RAWS)]]]
        for _ in range(rng.choice([1, 1, 2, 3])):
            if rng.random() < 0.75:
                calls.append([h, gen_expr(rng, rng.choice([0, 1, 2, 3]), 1.0)])          # evaluates to the empty criterion
            else:
                calls.append([not h, gen_expr(rng, rng.choice([1, 2]), rng.choice([0.0, 0.3, 1.0]))])
        if rng.random() < 0.3:
            calls.insert(0, [h, gen_expr(rng, rng.choice([0, 1, 2]), 1.0)])               # empties before the raw term too
        out.append({"cls": rng.choice(CLASSES), "calls": calls})
    # PostgreSQL conflict handlers have their own where(): the empty criterion must be ignored there too
    for i in range(40 if tier == "quick" else 400):
        out.append({"pgconf": rng.choice(["nothing", "update", "target"]),
                    "calls": [[False, gen_expr(rng, rng.choice([1, 2, 3]), rng.choice([0.5, 0.8, 1.0]))] for _ in range(rng.choice([1, 2, 3]))]})
    return out


def corpus():
    e, a, b, c = ["empty"], ["atom", 0], ["atom", 1], ["atom", 2]
    f3, f5, t1 = ["atom", 3], ["atom", 5], ["atom", 1]
    return [
        {"calls": [[False, f3], [False, t1]]},                      # foreign reference first, local criterion second
        {"calls": [[False, t1], [False, e], [False, f5], [False, ["or", a, c]]], "cls": "MySQLQuery"},
        {"calls": [[False, ["all", [f3, e, t1]]], [True, f5]], "cls": "OracleQuery"},
        {"pgconf": "nothing", "calls": [[False, e]]},
        {"pgconf": "nothing", "calls": [[False, ["all", []]], [False, ["inv", e]]]},
        {"pgconf": "update", "calls": [[False, e], [False, a], [False, ["any", [e, e]]]]},
        {"pgconf": "target", "calls": [[False, ["and", e, e]], [False, b]]},
        {"calls": [[False, ["raw", 0]], [False, e], [False, ["all", []]], [False, ["any", [["all", []], ["inv", e]]]]]},
        {"calls": [[False, ["raw", 1]], [False, e]], "cls": "OracleQuery"},
        {"calls": [[True, ["raw", 2]], [True, ["all", [e, e]]], [False, a]], "cls": "MySQLQuery"},
        {"calls": [[False, e]]},
        {"calls": [[False, e], [True, e]]},
        {"calls": [[False, ["and", e, a]], [False, ["or", a, e]], [False, ["xor", e, e]]]},
        {"calls": [[False, ["inv", e]], [False, ["neg", e]]]},
        {"calls": [[False, ["all", [e, a, e, ["any", [b, e, c]], e]]]]},
        {"calls": [[False, a], [False, e], [False, ["or", b, c]], [True, ["all", []]], [True, ["any", [e, e]]]]},
        {"calls": [[False, ["or", a, b]], [False, ["and", c, ["xor", a, b]]]]},
        {"calls": [[True, ["inv", ["and", a, b]]], [True, ["neg", ["or", ["and", a, b], c]]]]},
    ]


# ---- implementation -------------------------------------------------------------------------
def build(e):
    from pypika import Criterion, EmptyCriterion
    k = e[0]
    if k == "empty":
        return EmptyCriterion()
    if k == "atom":
        return _atoms()[e[1]]
    if k == "raw":
        return _raws()[e[1]]
    if k in OPS:
        x, y = build(e[1]), build(e[2])
        return x & y if k == "and" else (x | y if k == "or" else x ^ y)
    if k == "inv":
        return ~build(e[1])
    if k == "neg":
        return build(e[1]).negate()
    if k == "all":
        return Criterion.all([build(x) for x in e[1]])
    if k == "any":
        return Criterion.any([build(x) for x in e[1]])
    raise ValueError(k)


def _pg_base(kind):
    from pypika import PostgreSQLQuery, Table
    t = Table("t")
    q = PostgreSQLQuery.into(t).insert(1, 2).on_conflict("id")
    if kind == "nothing":
        return q.do_nothing()
    if kind == "update":
        return q.do_update("a", 5)
    return q          # where() after on_conflict(target) filters the conflict target


def run_impl(case):
    from pypika import Table
    try:
        if "pgconf" in case:
            q = _pg_base(case["pgconf"])
            for _, e in case["calls"]:
                q = q.where(build(e))
            if case["pgconf"] == "target":
                q = q.do_update("a", 5)
            return {"text": str(q)}
        q = qcls(case.get("cls", "Query")).from_(Table("t")).select("*")
        for having, e in case["calls"]:
            q = q.having(build(e)) if having else q.where(build(e))
        return {"text": str(q)}
    except Exception as ex:  # noqa
        return {"text": "!" + type(ex).__name__}


# ---- model side -----------------------------------------------------------------------------
def expr_coq(e):
    k = e[0]
    if k == "empty":
        return "XEmpty"
    if k == "atom":
        p_, n_ = atom_texts(e[1], Q_[0])
        return "(XAtomT %s %s %s)" % (S(p_), S(n_), B(FOREIGN[e[1]]))
    if k == "raw":
        p_, n_ = raw_texts(e[1], Q_[0])
        return "(XAtomT %s %s false)" % (S(p_), S(n_))
    if k in OPS:
        return "(XBin %s %s %s)" % (OPS[k], expr_coq(e[1]), expr_coq(e[2]))
    if k == "inv":
        return "(XInv %s)" % expr_coq(e[1])
    if k == "neg":
        return "(XNeg %s)" % expr_coq(e[1])
    return "(%s %s)" % ("XAll" if k == "all" else "XAny", L([expr_coq(x) for x in e[1]]))


Q_ = ['"']


def to_coq(case, outcome):
    if "pgconf" in case:
        return None      # PostgreSQL conflict-handler where(): oracle only
    name = case.get("cls", "Query")
    Q_[0] = quote_of(name)
    calls = L([P(B(h), expr_coq(e)) for h, e in case["calls"]])
    return P(S(head_of(name)), calls, S(outcome["text"]))


# ---- oracle: the property's observable, independent of the model ----------------------------
def _ref(e):
    """Specification semantics on pypika objects WITHOUT using the library's empty handling:
    None stands for the empty criterion; complex criteria are built with the constructor directly."""
    from pypika.terms import ComplexCriterion, Not
    from pypika.enums import Boolean
    k = e[0]
    if k == "empty":
        return None
    if k == "atom":
        return _atoms()[e[1]]
    if k == "raw":
        return _raws()[e[1]]
    if k in OPS:
        x, y = _ref(e[1]), _ref(e[2])
        if x is None:
            return y
        if y is None:
            return x
        return ComplexCriterion({"and": Boolean.and_, "or": Boolean.or_, "xor": Boolean.xor_}[k], x, y)
    if k in ("inv", "neg"):
        x = _ref(e[1])
        return None if x is None else Not(x)
    op = Boolean.and_ if k == "all" else Boolean.or_
    acc = None
    for x in e[1]:
        r = _ref(x)
        if r is None:
            continue
        acc = r if acc is None else ComplexCriterion(op, acc, r)
    return acc


def _has(e, kinds):
    if e[0] in kinds:
        return True
    if e[0] in OPS:
        return _has(e[1], kinds) or _has(e[2], kinds)
    if e[0] in ("inv", "neg"):
        return _has(e[1], kinds)
    if e[0] in ("all", "any"):
        return any(_has(x, kinds) for x in e[1])
    return False


def _first_op(case):
    for _, e in case["calls"]:
        for k in ("all", "any", "and", "or", "xor", "inv", "neg"):
            if _has(e, (k,)):
                return k
    return "where"


def oracle(case, outcome):
    from pypika import Table
    from pypika.terms import ComplexCriterion
    from pypika.enums import Boolean
    text = outcome.get("text", "!harness")
    w = h = None
    for having, e in case["calls"]:
        r = _ref(e)
        if r is None:
            continue
        if having:
            h = r if h is None else ComplexCriterion(Boolean.and_, h, r)
        else:
            w = r if w is None else ComplexCriterion(Boolean.and_, w, r)
    # the reference statement: ONE where()/having() call with the empty-free conjunction (or none at all)
    try:
        if "pgconf" in case:
            q = _pg_base(case["pgconf"])
            if w is not None:
                q = q.where(w)
            if case["pgconf"] == "target":
                q = q.do_update("a", 5)
        else:
            q = qcls(case.get("cls", "Query")).from_(Table("t")).select("*")
            if w is not None:
                q = q.where(w)
            if h is not None:
                q = q.having(h)
        exp = str(q)
    except Exception:  # the reference itself is rejected (e.g. DO NOTHING with a real WHERE): not a C19 matter
        return []
    if text == exp:
        return []
    kind = "exception" if text.startswith("!") else ("dangling" if text.rstrip().endswith(("WHERE", "HAVING")) else "text-differs")
    where = "pg-" + case["pgconf"] if "pgconf" in case else "where"
    return [{"signature": ["C19", _first_op(case) if "pgconf" not in case else where, kind],
             "what": "statement with empty criteria / split filters renders %r, one call with the empty-free conjunction renders %r" % (text, exp)}]


def nontrivial_key(case):
    es = [e for _, e in case["calls"]]
    if any(_has(e, ("empty",)) for e in es) and any(_has(e, ("and", "or", "xor", "all", "any")) for e in es):
        import json
        return json.dumps(case, sort_keys=True)
    return None


def histogram(cases):
    h = {}

    def walk(e):
        h[e[0]] = h.get(e[0], 0) + 1
        if e[0] in OPS:
            walk(e[1]); walk(e[2])
        elif e[0] in ("inv", "neg"):
            walk(e[1])
        elif e[0] in ("all", "any"):
            for x in e[1]:
                walk(x)
    for c in cases:
        key = "pgconf=" + c["pgconf"] if "pgconf" in c else "cls=" + c.get("cls", "Query")
        h[key] = h.get(key, 0) + 1
        h["calls=%d" % len(c["calls"])] = h.get("calls=%d" % len(c["calls"]), 0) + 1
        for _, e in c["calls"]:
            walk(e)
    return h


def targeted_search(rng, broken, mism_cases):
    # shrink-ish: every single call of a disagreeing case on its own, plus a denser random batch
    out = []
    for c in mism_cases:
        for call in c["calls"]:
            out.append(dict(c, calls=[call]))
    for _ in range(2000):
        out.append({"cls": rng.choice(CLASSES), "calls": [[rng.random() < 0.3, gen_expr(rng, 3, rng.choice([0.3, 0.6]))] for _ in range(rng.choice([1, 2, 3]))]})
    return out
