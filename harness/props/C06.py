"""C06 - parameterised rendering is equivalent to inline rendering.
Model: coq/Param.v (token renderer threaded through a collector state, statement layer), coq/ParamCorr.v,
lemmas/Param*.v; clause orders and placeholder samples regenerated into coq/gen/C06Table.v."""
import datetime
import json
import sqlite3
import uuid
from decimal import Decimal

from harness import terms_family as tf
from harness.lib import B, L, O, OS, OZ, P, Zc

ID = "C06"
COQ_PROP = "props/C06.v"
CORR_REQUIRE = ["Crit", "gen.TermsTable", "Terms", "gen.C06Table", "Param", "ParamCorr"]
CORR_CHECK = "check_param"
CORR_SHOW = "show_param"
GEN_FILES = ["gen/C06Table.v"]
DEPENDS_ON_EXTRACT = ["C02"]
SHARD = 120
ALLOWED_AXIOMS = []

import ast
import os
import re

from harness import lib
from harness.lib import S, N

STYLES = [("Qmark", "QmarkParameter"), ("Numeric", "NumericParameter"), ("Format", "FormatParameter"),
          ("Named", "NamedParameter"), ("Pyformat", "PyformatParameter")]
STYLE_OF = {"qmark": "Qmark", "numeric": "Numeric", "format": "Format", "named": "Named", "pyformat": "Pyformat"}

CLAUSE_OF = {
    "_with_sql": "ClWith", "_update_sql": "ClUpdate", "<joins>": "ClJoins", "_set_sql": "ClSet", "_from_sql": "ClFrom",
    "_where_sql": "ClWhere", "_limit_sql": "ClLimit", "_offset_sql": "ClOffset", "_delete_sql": "ClDelete",
    "_replace_sql": "ClReplace", "_insert_sql": "ClInsert", "_columns_sql": "ClColumns", "_values_sql": "ClValues",
    "_select_sql": "ClSelect", "_into_sql": "ClInto", "_using_sql": "ClUsing", "_force_index_sql": "ClForceIndex",
    "_use_index_sql": "ClUseIndex", "_prewhere_sql": "ClPrewhere", "_group_sql": "ClGroup", "_rollup_sql": "ClRollup",
    "_having_sql": "ClHaving", "_orderby_sql": "ClOrderby", "_apply_pagination": "ClPagination",
    "_for_update_sql": "ClForUpdate",
}
ALL_CLAUSES = ["ClWith", "ClUpdate", "ClJoins", "ClSet", "ClFrom", "ClWhere", "ClLimit", "ClOffset", "ClDelete", "ClReplace",
               "ClInsert", "ClColumns", "ClValues", "ClSelect", "ClInto", "ClUsing", "ClForceIndex", "ClUseIndex",
               "ClPrewhere", "ClGroup", "ClRollup", "ClHaving", "ClOrderby", "ClPagination", "ClForUpdate"]
IGNORED_SELF_CALLS = {"_set_kwargs_defaults", "_validate_with_references"}   # no rendering


class ExtractError(RuntimeError):
    pass


def _is_self_attr(node, name=None):
    return (isinstance(node, ast.Attribute) and isinstance(node.value, ast.Name) and node.value.id == "self"
            and (name is None or node.attr == name))


def _calls_in_expr(e):
    """clause-renderer calls inside one expression, in evaluation (= source) order; fail closed on unknown self._x() calls"""
    found = []
    for n in ast.walk(e):
        if isinstance(n, ast.Call):
            f = n.func
            if _is_self_attr(f) or (isinstance(f, ast.Attribute) and isinstance(f.value, ast.Call)
                                     and isinstance(f.value.func, ast.Name) and f.value.func.id == "super"):
                name = f.attr
                if name in IGNORED_SELF_CALLS:
                    continue
                if name not in CLAUSE_OF:
                    raise ExtractError("unknown clause renderer call self.%s() at line %d" % (name, n.lineno))
                found.append((n.lineno, n.col_offset, CLAUSE_OF[name]))
            elif isinstance(f, ast.Attribute) and f.attr == "get_sql" and isinstance(f.value, ast.Name):
                # `join.get_sql(**kwargs) for join in self._joins`
                if f.value.id != "join":
                    raise ExtractError("unexpected %s.get_sql() at line %d" % (f.value.id, n.lineno))
                found.append((n.lineno, n.col_offset, CLAUSE_OF["<joins>"]))
    found.sort()
    return [c for _, _, c in found]


def _calls_in_stmts(stmts, stop_at_return=False):
    """linearise: all clause calls of a statement list in source order.  Only If / Assign / AugAssign / Return / Expr
    statements are understood (anything else: fail closed)."""
    out = []
    for s in stmts:
        if isinstance(s, (ast.Assign, ast.AugAssign, ast.Expr)):
            out += _calls_in_expr(s.value)
        elif isinstance(s, ast.Return):
            if s.value is not None:
                out += _calls_in_expr(s.value)
            if stop_at_return:
                return out, True
        elif isinstance(s, ast.If):
            out += _calls_in_expr(s.test)
            b, _ = _calls_in_stmts(s.body)
            o, _ = _calls_in_stmts(s.orelse)
            out += b + o
        else:
            raise ExtractError("statement kind %s at line %d not understood" % (type(s).__name__, s.lineno))
    return out, False


def _find_method(tree, cls, name):
    for n in tree.body:
        if isinstance(n, ast.ClassDef) and n.name == cls:
            for m in n.body:
                if isinstance(m, ast.FunctionDef) and m.name == name:
                    return m
    raise ExtractError("%s.%s not found" % (cls, name))


def _test_src(n):
    return ast.unparse(n.test)


def extract_clause_orders(src):
    tree = ast.parse(src)
    g = _find_method(tree, "QueryBuilder", "get_sql")
    body = g.body
    # locate the landmarks
    idx_update = idx_kind = idx_subq = None
    for i, s in enumerate(body):
        if isinstance(s, ast.If):
            t = _test_src(s)
            if t == "self._update_table" and idx_update is None:
                idx_update = i
            elif t == "self._delete_from" and idx_kind is None:
                idx_kind = i
            elif t == "subquery" and idx_subq is None:
                idx_subq = i
    if None in (idx_update, idx_kind, idx_subq) or not (idx_update < idx_kind < idx_subq):
        raise ExtractError("QueryBuilder.get_sql: landmarks (update branch / statement-kind switch / subquery wrap) not found")
    # nothing before the update branch may render a clause
    pre, _ = _calls_in_stmts(body[:idx_update])
    if pre:
        raise ExtractError("clause rendered before the statement-kind switch: %r" % pre)
    upd = body[idx_update]
    if upd.orelse or not isinstance(upd.body[-1], ast.Return):
        raise ExtractError("update branch no longer a self-contained block ending in return")
    update_order, _ = _calls_in_stmts(upd.body)
    kind = body[idx_kind]
    delete_head, _ = _calls_in_stmts(kind.body)
    if len(kind.orelse) != 1 or not isinstance(kind.orelse[0], ast.If):
        raise ExtractError("statement-kind switch: expected if/elif/else")
    ins = kind.orelse[0]
    if _test_src(ins) != "not self._select_into and self._insert_table":
        raise ExtractError("insert branch test changed: %s" % _test_src(ins))
    # values path: everything up to (and including) the `if self._values:` body, which must end in return
    ins_values = []
    seen_values = False
    for s in ins.body:
        if isinstance(s, ast.If) and _test_src(s) == "self._values":
            if not isinstance(s.body[-1], ast.Return):
                raise ExtractError("INSERT ... VALUES path no longer returns after the values")
            b, _ = _calls_in_stmts(s.body)
            ins_values += b
            seen_values = True
            break
        c, _ = _calls_in_stmts([s])
        ins_values += c
    if not seen_values:
        raise ExtractError("INSERT branch: `if self._values` not found")
    insert_head, _ = _calls_in_stmts(ins.body)
    select_head, _ = _calls_in_stmts(ins.orelse)
    tail, _ = _calls_in_stmts(body[idx_kind + 1: idx_subq])
    g2 = _find_method(tree, "QueryBuilder", "_apply_pagination")
    pag, _ = _calls_in_stmts(g2.body)
    # set operations
    so = _find_method(tree, "_SetOperation", "get_sql")
    marks = []
    for n in ast.walk(so):
        if isinstance(n, ast.Call) and isinstance(n.func, ast.Attribute) and n.func.attr == "get_sql":
            tgt = ast.unparse(n.func.value)
            if tgt == "self.base_query":
                marks.append((n.lineno, n.col_offset, "ScBase"))
            elif tgt == "set_operation_query":
                marks.append((n.lineno, n.col_offset, "ScOps"))
            else:
                raise ExtractError("_SetOperation.get_sql renders %s" % tgt)
        elif isinstance(n, ast.Call) and _is_self_attr(n.func):
            if n.func.attr == "_apply_pagination":
                # delegates to a builder of the base class: LIMIT / OFFSET in the order of QueryBuilder._apply_pagination
                for k_, cl in enumerate(pag):
                    nm = {"ClLimit": "ScLimit", "ClOffset": "ScOffset"}.get(cl)
                    if nm is None:
                        raise ExtractError("_apply_pagination renders %s" % cl)
                    marks.append((n.lineno, n.col_offset + k_, nm))
                continue
            nm = {"_orderby_sql": "ScOrderby", "_limit_sql": "ScLimit", "_offset_sql": "ScOffset"}.get(n.func.attr)
            if nm is None:
                raise ExtractError("_SetOperation.get_sql calls self.%s()" % n.func.attr)
            marks.append((n.lineno, n.col_offset, nm))
    marks.sort()
    setop = [m for _, _, m in marks]
    if sorted(setop) != sorted(["ScBase", "ScOps", "ScOrderby", "ScLimit", "ScOffset"]):
        raise ExtractError("_SetOperation.get_sql: unexpected set of rendered parts %r" % setop)
    return {
        "update_order": update_order,
        "delete_order": delete_head + tail,
        "insert_values_order": ins_values,
        "insert_select_head": insert_head,
        "select_order": select_head + tail,
        "pagination_order": pag,
        "setop_order": setop,
    }


def extract_arith_order(src):
    """which operand ArithmeticExpression.get_sql renders first (the collector is filled in that order)"""
    tree = ast.parse(src)
    g = _find_method(tree, "ArithmeticExpression", "get_sql")
    marks = []
    for n in ast.walk(g):
        if isinstance(n, ast.Call) and n.args:
            a0 = n.args[0]
            if _is_self_attr(a0) and a0.attr in ("left", "right"):
                f = n.func
                renders = (isinstance(f, ast.Name) and f.id == "_operand_sql") or (isinstance(f, ast.Attribute) and f.attr == "get_sql")
                if renders:
                    marks.append((n.lineno, n.col_offset, a0.attr))
        elif isinstance(n, ast.Call) and isinstance(n.func, ast.Attribute) and n.func.attr == "get_sql" \
                and _is_self_attr(n.func.value) and n.func.value.attr in ("left", "right"):
            marks.append((n.lineno, n.col_offset, n.func.value.attr))
    marks.sort()
    sides = [m[2] for m in marks]
    if sorted(sides) != ["left", "right"]:
        raise ExtractError("ArithmeticExpression.get_sql: expected exactly one rendering of self.left and one of self.right, found %r" % sides)
    return sides[0] == "left"


def placeholder_samples():
    """mode E: run the real collector classes at collector sizes 0..12, 98..100 and 1000"""
    import pypika.terms as T
    rows = []
    for coq, cls in STYLES:
        for n in list(range(0, 13)) + [98, 99, 100, 1000]:
            p = getattr(T, cls)()
            if isinstance(p._parameters, dict):
                p._parameters = {i: None for i in range(n)}
            else:
                p._parameters = [None] * n
            text = p.get_sql()
            key = p.get_param_key(placeholder=text)
            rows.append((coq, n, text, key))
    return rows


NAME_POOL = ["status", "s", "ss", "owners", "x", "params", "s1s", "p_s", "class", "param1", "param2", "1", "22", "sp", "ps", "a1"]


def named_samples():
    """mode E: the five classes constructed with an explicit placeholder name: text and derived key"""
    import pypika.terms as T
    rows = []
    for coq, cls in STYLES:
        for name in NAME_POOL:
            p = getattr(T, cls)(name)
            text = p.get_sql()
            rows.append((coq, name, text, str(p.get_param_key(placeholder=text))))
    return rows


def extract_c06_table():
    with open(os.path.join(lib.REPO, "pypika", "queries.py")) as f:
        src = f.read()
    orders = extract_clause_orders(src)
    out = ["(* GENERATED by harness/props/C06.py:extract() from the pypika sources on every run. Do not edit. *)",
           "From PV Require Import Base.", "",
           "Inductive style := " + " | ".join(c for c, _ in STYLES) + ".",
           "Inductive clause := " + " | ".join(ALL_CLAUSES) + ".",
           "Inductive sclause := ScBase | ScOps | ScOrderby | ScLimit | ScOffset.", ""]
    for k in ("update_order", "delete_order", "insert_values_order", "insert_select_head", "select_order", "pagination_order"):
        out.append("Definition %s : list clause := [%s]." % (k, "; ".join(orders[k])))
    out.append("Definition setop_order : list sclause := [%s]." % "; ".join(orders["setop_order"]))
    with open(os.path.join(lib.REPO, "pypika", "terms.py")) as f:
        tsrc = f.read()
    out.append("(* ArithmeticExpression.get_sql renders self.left before self.right *)")
    out.append("Definition arith_left_first : bool := %s." % B(extract_arith_order(tsrc)))
    out.append("")
    out.append("(* (class, len(_parameters), parameter.get_sql(), parameter.get_param_key(placeholder=that text)) *)")
    out.append("Definition ph_samples : list (style * nat * string * string) := [")
    out.append(";\n".join("  (%s, %s, %s, %s)" % (c, N(n), S(t), S(str(k))) for c, n, t, k in placeholder_samples()))
    out.append("].")
    out.append("(* (class, explicit placeholder name, cls(name).get_sql(), its get_param_key) *)")
    out.append("Definition ph_named_samples : list (style * string * string * string) := [")
    out.append(";\n".join("  (%s, %s, %s, %s)" % (c, S(n), S(t), S(k)) for c, n, t, k in named_samples()))
    out.append("].")
    return "\n".join(out) + "\n"


def extract():
    return {"gen/C06Table.v": extract_c06_table()}


# ----------------------------------------------------------------------------------------------
# specs: terms (harness/terms_family.py + date / UUID payloads), statements
# ----------------------------------------------------------------------------------------------
RULE = ("`params` family: (a) typed random expression trees of harness/terms_family.py (values: str incl. hostile ones, int, "
        "bool, float, Decimal, None, date, UUID; explicit Parameter leaves; functions, CASE, IN, BETWEEN, tuples, arrays) under "
        "random keyword contexts; (b) random statements of generic Query / SQLLiteQuery: SELECT with joins+ON, sub-queries in "
        "FROM / JOIN / IN, WHERE, GROUP BY, HAVING, ORDER BY, LIMIT/OFFSET; multi-row INSERT, INSERT..SELECT; UPDATE..SET (raw "
        "values and expressions)..WHERE; DELETE; set operations of 2-3 SELECTs; each rendered with one of the five collector "
        "classes (or none); OBJECT SHARING: the very same Python object at several places of one statement (one query object as "
        "several set-operation operands a+b+b, one sub-query object in FROM and as IN container, one term object in select "
        "list / GROUP BY / HAVING / ORDER BY, one criterion object in WHERE and in a CASE; plus a random 30% of ordinary statements "
        "built with structurally equal parts shared); EXPLICITLY NAMED placeholders (ParameterValueWrapper with the class's own parameter "
        "object, names from a pool that stresses the key derivation: ending/starting in s, one character, containing the automatic "
        "prefix, equal to param<n>) mixed with literals, and custom placeholder generators on the collector (oracle only); VENDOR CLAUSES (oracle only): all ten "
        "query classes x SELECT/INSERT/UPDATE/DELETE x every clause feature that can hold a literal (PostgreSQL ON CONFLICT target "
        "WHERE / DO UPDATE / DO UPDATE WHERE / RETURNING / DISTINCT ON / USING, MySQL ON DUPLICATE KEY UPDATE, ClickHouse PREWHERE / "
        "LIMIT BY / SAMPLE / FINAL, MSSQL TOP, WITH, temporal FOR, window / FILTER / CASE, joins, set operation, INSERT..SELECT, "
        "REPLACE ...) alone, in all pairs (sampled for SELECT in the quick tier) and some triples, with distinct literals so that a "
        "permutation shows; a renderer inventory per class (every `_*_sql` method on the builder's MRO must run in some case: fail closed); a malformed stream (empty criteria, CASE without WHEN). Compared with the model: text AND collector "
        "contents. Non-trivial = at least two collected values; distinct by structural hash of (input, class).")
TRUSTED = [
    "harness/props/C06.py builds the same term/statement on pypika and as a Gallina value; canonicalises collected values to tagged JSON",
    "harness/terms_family.py (shared term specs <-> pypika <-> Gallina)",
    "oracle: own SQL lexer + sqlite3 3.40 execution of (text, parameters) against the inline text on seeded in-memory tables",
    "extract(): ast walk of QueryBuilder.get_sql / _SetOperation.get_sql (clause order) and evaluation of the five collector classes",
]
ASSUMPTIONS = [
    "collectors are the five stock classes with their default placeholder generators, fresh (empty) at each rendering; "
    "custom placeholder callables and ParameterValueWrapper are not modelled",
    "execution equivalence is validated on SQLite only (format/pyformat texts converted token-wise to qmark/named)",
    "DB-API escaping of a literal % in format/pyformat texts is outside the property",
]
STYLE_CLS = {"qmark": "QmarkParameter", "numeric": "NumericParameter", "format": "FormatParameter",
             "named": "NamedParameter", "pyformat": "PyformatParameter"}
STYLE_NAMES = list(STYLE_CLS)
VALUE_KINDS = ("vals", "vali", "valb", "valnone", "valf", "vald", "vdate", "vuuid")


def map_leaves(x, f):
    """deep copy of a spec with every list starting with a tag in f's domain replaced by f(list)"""
    if isinstance(x, list):
        if x and isinstance(x[0], str):
            r = f(x)
            if r is not None:
                return r
        return [map_leaves(y, f) for y in x]
    if isinstance(x, dict):
        return {k: map_leaves(v, f) for k, v in x.items()}
    return x


def _mat_py(x):
    if x[0] == "vdate":
        return ["vals", datetime.date.fromisoformat(x[1]), x[2]]
    if x[0] == "vuuid":
        return ["vals", uuid.UUID(x[1]), x[2]]
    return None


def _mat_coq(x):
    if x[0] in ("vdate", "vuuid"):
        return ["vals", x[1], x[2]]
    return None


# OBJECT SHARING: when a case says "share", structurally equal term / criterion / SELECT specs occurring at several
# places of one statement are built ONCE and the very same Python object is used at every place (the model is a tree,
# so it sees the duplicate specs; the implementation must collect the values of every occurrence again).
_SHARE = None


def _skey(tag, x, *extra):
    return json.dumps([tag, x] + list(extra), sort_keys=True)


# EXPLICITLY NAMED PLACEHOLDERS: ["pvw", name | None, value leaf] = ParameterValueWrapper(<class of the case>(name), value); the
# collector files the value under the key the wrapper's own parameter derives from ITS placeholder text.  Not part of the
# shared term AST: such cases are judged by the oracle only (to_coq returns None).
_PVW_STYLE = "named"
CUSTOM_GENS = {
    "vs": lambda i: "v%ds" % (i + 1),           # names ending in the delimiter character of %(name)s
    "s": lambda i: "s" * (i + 1),
    "k": lambda i: "k%d" % i,
    "sp": lambda i: "sp%dps" % (i + 1),
}


def has_pvw(x):
    if isinstance(x, list):
        return (bool(x) and x[0] == "pvw") or any(has_pvw(y) for y in x)
    if isinstance(x, dict):
        return any(has_pvw(y) for y in x.values())
    return False


def pvw_names(x, acc=None):
    acc = [] if acc is None else acc
    if isinstance(x, list):
        if x and x[0] == "pvw":
            acc.append(x[1])
        for y in x:
            pvw_names(y, acc)
    elif isinstance(x, dict):
        for y in x.values():
            pvw_names(y, acc)
    return acc


def _build_pvw(t):
    """builder for the term kinds that may hold a pvw leaf (everything else goes to terms_family)"""
    import pypika.terms as T
    import pypika.enums as E
    if not has_pvw(t):
        return tf.build(map_leaves(t, _mat_py))
    k = t[0]
    if k == "pvw":
        sty = _PVW_STYLE if _PVW_STYLE != "inline" else "named"
        cls = getattr(T, STYLE_CLS[sty])
        own = cls(t[1]) if (t[1] is not None and sty in ("named", "pyformat", "numeric")) else cls()
        return T.ParameterValueWrapper(own, raw_value(t[2]))
    if k == "basic":
        cls = E.Equality if t[1] in tf.EQUALITY else E.Matching
        return T.BasicCriterion(getattr(cls, t[1]), _build_pvw(t[2]), _build_pvw(t[3]), alias=t[4])
    if k == "cplx":
        return T.ComplexCriterion(getattr(E.Boolean, t[1] + "_"), _build_pvw(t[2]), _build_pvw(t[3]), alias=t[4])
    if k == "arith":
        return T.ArithmeticExpression(getattr(E.Arithmetic, t[1]), _build_pvw(t[2]), _build_pvw(t[3]), alias=t[4])
    if k == "between":
        return T.BetweenCriterion(_build_pvw(t[1]), _build_pvw(t[2]), _build_pvw(t[3]), alias=t[4])
    if k == "not":
        return T.Not(_build_pvw(t[1]), alias=t[2])
    if k == "tuple":
        return T.Tuple(*[_build_pvw(a) for a in t[1]])
    if k == "in":
        c = T.ContainsCriterion(_build_pvw(t[1]), _build_pvw(t[2]), alias=t[4])
        return c.negate() if t[3] else c
    if k == "case":
        c = T.Case(alias=t[3])
        for cr, v in t[1]:
            c = c.when(_build_pvw(cr), _build_pvw(v))
        if t[2] is not None:
            c = c.else_(_build_pvw(t[2]))
        return c
    raise ValueError("pvw below %r" % k)


def build_term(t):
    if has_pvw(t):
        return _build_pvw(t)
    if _SHARE is None:
        return tf.build(map_leaves(t, _mat_py))
    k = _skey("term", t)
    if k not in _SHARE:
        if t[0] == "case" and t[1]:
            import pypika.terms as T
            c = T.Case(alias=t[3])
            for cr, v in t[1]:
                c = c.when(build_term(cr), build_term(v))      # members shared with other places of the statement
            if t[2] is not None:
                c = c.else_(build_term(t[2]))
            _SHARE[k] = c
        else:
            _SHARE[k] = tf.build(map_leaves(t, _mat_py))
    return _SHARE[k]


def coq_term(t):
    return tf.coq(map_leaves(t, _mat_coq))


def raw_value(leaf):
    """the Python value QueryBuilder.set() receives for a raw value leaf"""
    k = leaf[0]
    if k == "vals":
        return leaf[1]
    if k == "vali":
        return int(leaf[1])
    if k == "valb":
        return bool(leaf[1])
    if k == "valnone":
        return None
    if k == "valf":
        return float(leaf[1])
    if k == "vald":
        return Decimal(leaf[1])
    if k == "vdate":
        return datetime.date.fromisoformat(leaf[1])
    if k == "vuuid":
        return uuid.UUID(leaf[1])
    raise ValueError(k)


def raw_leaf_term(leaf, sqlite):
    """the term spec the model sees for set(field, raw value): wrapper_cls(value) without alias"""
    k = leaf[0]
    if k == "valb":
        return ["valb", leaf[1], bool(sqlite), None]
    if k == "valnone":
        return ["valnone", None]
    return [k, leaf[1], None]


def walk_leaves(x, out):
    if isinstance(x, list):
        if x and isinstance(x[0], str) and (x[0] in tf.KINDS or x[0] in ("vdate", "vuuid")):
            out.append(x)
        for y in x:
            walk_leaves(y, out)
    elif isinstance(x, dict):
        for y in x.values():
            walk_leaves(y, out)
    return out


def floats_of(spec):
    return sorted({str(float(x[1])) for x in walk_leaves(spec, []) if x[0] == "valf"})


def decimals_of(spec):
    return sorted({str(Decimal(x[1])) for x in walk_leaves(spec, []) if x[0] == "vald"})


# ---- statements -> pypika -------------------------------------------------------------------
JOIN_HOW = {"": "inner", "LEFT": "left", "RIGHT": "right", "FULL OUTER": "full_outer", "CROSS": "cross"}
SETOPS = {"UNION": "union", "UNION ALL": "union_all", "INTERSECT": "intersect", "EXCEPT": "except_of", "MINUS": "minus"}


def _qcls(dialect):
    if dialect == "sqlite":
        from pypika.dialects import SQLLiteQuery
        return SQLLiteQuery
    from pypika import Query
    return Query


def build_src(s, dialect):
    from pypika import Table
    if s[0] == "t":
        tb = Table(s[1])
        return tb if s[2] is None else tb.as_(s[2])
    q = build_sel(s[1], dialect)
    if _SHARE is not None:
        if s[2] is not None and q.alias != s[2]:
            q.alias = s[2]          # in place: the same object may also serve as an IN container / set-operation operand
        return q
    return q if s[2] is None else q.as_(s[2])


def build_wc(w, dialect):
    import pypika.terms as T
    from pypika.enums import Boolean
    if w[0] == "t":
        return build_term(w[1])
    if w[0] == "in":
        c = T.ContainsCriterion(build_term(w[1]), build_sel(w[2], dialect))
        return c.negate() if w[3] else c
    if w[0] == "and":
        return T.ComplexCriterion(Boolean.and_, build_wc(w[1], dialect), build_wc(w[2], dialect))
    raise ValueError(w[0])


def build_sel(s, dialect, start=None, wrap=None):
    if _SHARE is not None and start is None:
        k = _skey("sel", s, dialect, wrap)
        if k not in _SHARE:
            _SHARE[k] = _build_sel(s, dialect, start, wrap)
        return _SHARE[k]
    return _build_sel(s, dialect, start, wrap)


def _build_sel(s, dialect, start=None, wrap=None):
    from pypika.enums import JoinType, Order
    Q = _qcls(dialect)
    src = build_src(s["from"], dialect)
    if start is not None:
        q = start.from_(src)
    elif wrap is None:
        q = Q.from_(src)
    else:
        q = Q.from_(src, wrap_set_operation_queries=wrap)
    for how, it, on in s["joins"]:
        q = q.join(build_src(it, dialect), how=getattr(JoinType, JOIN_HOW[how])).on(build_wc(on, dialect))
    q = q.select(*[build_term(c) for c in s["cols"]])
    if s["distinct"]:
        q = q.distinct()
    if s["where"] is not None:
        q = q.where(build_wc(s["where"], dialect))
    for g_ in s["groupby"]:
        q = q.groupby(build_term(g_))
    if s["having"] is not None:
        q = q.having(build_wc(s["having"], dialect))
    for t, d in s["orderby"]:
        q = q.orderby(build_term(t), order=None if d is None else (Order.asc if d else Order.desc))
    if s["limit"] is not None:
        q = q.limit(s["limit"])
    if s["offset"] is not None:
        q = q.offset(s["offset"])
    return q


def build_stmt(st, dialect):
    from pypika import Table
    from pypika.enums import Order
    Q = _qcls(dialect)
    k = st[0]
    if k == "select":
        return build_sel(st[1], dialect)
    if k == "insert":
        q = Q.into(Table(st[1]))
        if st[2]:
            q = q.columns(*st[2])
        for row in st[3]:
            q = q.insert(*[build_term(v) for v in row])
        return q
    if k == "insertsel":
        q = Q.into(Table(st[1]))
        if st[2]:
            q = q.columns(*st[2])
        return build_sel(st[3], dialect, start=q)
    if k == "update":
        q = Q.update(Table(st[1]))
        for name, (mode, v) in st[2]:
            q = q.set(name, raw_value(v) if mode == "raw" else build_term(v))
        if st[3] is not None:
            q = q.where(build_wc(st[3], dialect))
        return q
    if k == "delete":
        q = Q.from_(Table(st[1])).delete()
        if st[2] is not None:
            q = q.where(build_wc(st[2], dialect))
        return q
    if k == "setop":
        q = build_sel(st[2], dialect, wrap=bool(st[1]))
        for op, s2 in st[3]:
            q = getattr(q, SETOPS[op])(build_sel(s2, dialect, wrap=bool(st[1])))
        for t, d in st[4]:
            q = q.orderby(build_term(t), order=None if d is None else (Order.asc if d else Order.desc))
        if st[5] is not None:
            q = q.limit(st[5])
        if st[6] is not None:
            q = q.offset(st[6])
        return q
    raise ValueError(k)


# ---- statements -> Gallina ------------------------------------------------------------------
def coq_ord(o):
    return L([P(coq_term(t), "None" if d is None else "(Some %s)" % B(d)) for t, d in o])


def coq_src(s):
    if s[0] == "t":
        return "(SrcT %s %s)" % (S(s[1]), OS(s[2]))
    return "(SrcQ %s %s)" % (coq_sel(s[1]), OS(s[2]))


def coq_wc(w):
    if w[0] == "t":
        return "(WT %s)" % coq_term(w[1])
    if w[0] == "in":
        return "(WIn %s %s %s)" % (coq_term(w[1]), coq_sel(w[2]), B(w[3]))
    return "(WAnd %s %s)" % (coq_wc(w[1]), coq_wc(w[2]))


def coq_owc(w):
    return "WNone" if w is None else "(WSome %s)" % coq_wc(w)


def coq_sel(s):
    return "(Sel %s %s %s %s %s %s %s %s %s %s)" % (
        B(s["distinct"]), L([coq_term(c) for c in s["cols"]]), coq_src(s["from"]),
        L(["(Jn %s %s %s)" % (S(h), coq_src(it), coq_wc(on)) for h, it, on in s["joins"]]),
        coq_owc(s["where"]), L([coq_term(g_) for g_ in s["groupby"]]), coq_owc(s["having"]), coq_ord(s["orderby"]),
        OZ(s["limit"]), OZ(s["offset"]))


def coq_stmt(st, dialect):
    k = st[0]
    if k == "select":
        return "(SSelect %s)" % coq_sel(st[1])
    if k == "insert":
        return "(SInsert %s %s %s)" % (S(st[1]), L([S(c) for c in st[2]]), L([L([coq_term(v) for v in row]) for row in st[3]]))
    if k == "insertsel":
        return "(SInsertSel %s %s %s)" % (S(st[1]), L([S(c) for c in st[2]]), coq_sel(st[3]))
    if k == "update":
        sets = []
        for name, (mode, v) in st[2]:
            if mode == "raw":
                sets.append(P(S(name), "(SVal %s)" % coq_term(raw_leaf_term(v, dialect == "sqlite"))))
            else:
                sets.append(P(S(name), "(SWrap %s)" % coq_term(v)))
        return "(SUpdate %s %s %s)" % (S(st[1]), L(sets), coq_owc(st[3]))
    if k == "delete":
        return "(SDelete %s %s)" % (S(st[1]), coq_owc(st[2]))
    if k == "setop":
        return "(SSetOp %s %s %s %s %s %s)" % (B(st[1]), coq_sel(st[2]), L([P(S(op), coq_sel(s2)) for op, s2 in st[3]]),
                                             coq_ord(st[4]), OZ(st[5]), OZ(st[6]))
    raise ValueError(k)


# ----------------------------------------------------------------------------------------------
# implementation
# ----------------------------------------------------------------------------------------------
def tag_value(v):
    if isinstance(v, bool):
        return ["b", v]
    if isinstance(v, int):
        return ["i", v]
    if isinstance(v, float):
        return ["f", repr(v)]
    if isinstance(v, str):
        return ["s", v]
    if v is None:
        return ["n", None]
    if isinstance(v, Decimal):
        return ["d", str(v)]
    return ["o", type(v).__name__, str(v)]


def untag(tv):
    return {"b": lambda: bool(tv[1]), "i": lambda: int(tv[1]), "f": lambda: float(tv[1]), "s": lambda: tv[1],
            "n": lambda: None, "d": lambda: Decimal(tv[1]), "o": lambda: tv[2]}[tv[0]]()


def _collector(style, gen=None):
    import pypika.terms as T
    if style == "inline":
        return None
    cls = getattr(T, STYLE_CLS[style])
    return cls(CUSTOM_GENS[gen]) if gen else cls()


def _render(case, style):
    """(text | "!Exc", collected as [[key, tagged value]])"""
    global _SHARE, _PVW_STYLE
    p = _collector(style, case.get("gen"))
    _PVW_STYLE = case["sty"]
    _SHARE = {} if case.get("share") else None
    try:
        if case["kind"] == "term":
            obj = build_term(case["t"])
            kw = tf.ctx_kwargs(case["c"])
        elif case["kind"] == "vendor":
            obj = build_vendor(case)
            kw = {}
        else:
            obj = build_stmt(case["s"], case["dialect"])
            kw = {}
        if p is not None:
            kw["parameter"] = p
        text = obj.get_sql(**kw)
    except Exception as e:  # noqa
        _SHARE = None
        return "!" + type(e).__name__, []
    _SHARE = None
    if p is None:
        return text, []
    p.get_parameters()           # "log the values, then execute": reading a collector must not consume it (seeded/C06-22)
    got = p.get_parameters()
    if isinstance(got, dict):
        params = [[str(k), tag_value(v)] for k, v in got.items()]
    else:
        params = [["", tag_value(v)] for v in got]
    return text, params


def run_impl(case):
    if case["kind"] == "inventory":
        return run_inventory(case["cls"])
    text, params = _render(case, case["sty"])
    inline, _ = _render(case, "inline")
    return {"text": text, "params": params, "inline": inline}


def coq_pval(tv):
    if tv[0] == "s":
        return "(VStr %s)" % S(tv[1])
    if tv[0] == "i":
        return "(VInt %s)" % Zc(tv[1])
    if tv[0] == "b":
        return "(VBool %s)" % B(tv[1])
    if tv[0] == "f":
        return "(VFloat %s)" % S(tv[1])
    if tv[0] == "n":
        return "VNone"
    return "(VStr %s)" % S("!other:" + str(tv[1]))     # not a value the model's collector can hold


def case_spec(case):
    return case["t"] if case["kind"] == "term" else (case["s"] if case["kind"] == "stmt" else [])


def to_coq(case, outcome):
    if case["kind"] in ("vendor", "inventory"):
        return None      # vendor clauses are outside Param.v: judged by the oracle only
    spec = case_spec(case)
    if case.get("gen") or has_pvw(spec):
        return None      # custom placeholder generators / ParameterValueWrapper: judged by the oracle only
    fl = floats_of(spec)
    if set(fl) & set(decimals_of(spec)):
        return None      # a float and a Decimal with the same text in one case: the model's classifier cannot tell them apart
    m = "None" if case["sty"] == "inline" else "(Some %s)" % STYLE_OF[case["sty"]]
    params = L([P(S(k), coq_pval(v)) for k, v in outcome["params"]])
    fls = L([S(x) for x in fl])
    if case["kind"] == "term":
        return "(PTerm %s %s %s %s %s %s)" % (fls, m, tf.ctx_coq(case["c"]), coq_term(case["t"]), S(outcome["text"]), params)
    return "(PStmt %s %s %s %s %s %s)" % (fls, m, B(case["dialect"] == "sqlite"), coq_stmt(case["s"], case["dialect"]),
                                         S(outcome["text"]), params)


# ----------------------------------------------------------------------------------------------
# generation
# ----------------------------------------------------------------------------------------------
COLS = ["a", "b", "c", "col", "x1"]
TBLS = ["t", "u", "v"]


class PGen(tf.Gen):
    """terms_family generator with the value palette of this property and a restricted set of field tables"""

    def __init__(self, rng, allowed=None, p_none=0.03, **kw):
        super().__init__(rng, **kw)
        self.allowed = allowed        # None: terms_family's own tables; else list of table specs (possibly empty)
        self.p_none = p_none

    def table(self):
        if self.allowed is None:
            return super().table()
        if not self.allowed or self.r.random() >= self.p_table:
            return None
        return self.r.choice(self.allowed)

    def value(self):
        r = self.r.random()
        if r < 0.34:
            return ["vali", self.r.choice([0, 1, 2, 7, 10, -1, -5, 10 ** 12, -(10 ** 9)]), self.alias()]
        if r < 0.62:
            return ["vals", self.string(), self.alias()]
        if r < 0.70:
            return ["valb", self.r.random() < 0.5, self.r.random() < 0.3, self.alias()]
        if r < 0.78:
            return ["valf", self.r.choice(["1.5", "-2.25", "0.1", "1e+20"]), self.alias()]
        if r < 0.80:
            return ["vald", self.r.choice(["1.50", "-0.001", "7"]), self.alias()]
        if r < 0.90:
            return ["vdate", self.r.choice(["2020-01-01", "1999-12-31"]), self.alias()]
        if r < 0.94:
            return ["vuuid", "12345678-1234-5678-1234-567812345678", self.alias()]
        if r < 0.94 + self.p_none:
            return ["valnone", self.alias()]
        return ["vali", 3, self.alias()]

    def num_leaf(self):
        r = self.r.random()
        if r < 0.35:
            return self.field()
        if r < 0.86:
            v = self.value()
            while v[0] in ("vals", "vdate", "vuuid") and self.r.random() < 0.6:
                v = self.value()
            return v
        if r < 0.91:
            return ["param", self.r.choice(["?", "%s", ":1", ":name", "%(nm)s", ":2"])]
        if r < 0.96:
            return ["null", self.alias()]
        return ["lit", self.r.choice(["CURRENT_DATE", "x.y"]), self.alias()]

    def strv(self, d):
        if self.r.random() < 0.7:
            return self.r.choice([["vals", self.string(), self.alias()], self.value()])
        return self.field()


def _tspec(src):
    """the table spec a Field must carry to refer to a FROM / JOIN table item"""
    return [src[1], [], src[2]]


def gen_sel(rng, depth, ncols=None, tier="quick", p_param=True):
    """a SELECT builder spec"""
    def mk_src(names):
        if depth > 0 and rng.random() < 0.22:
            return ["q", gen_sel(rng, depth - 1, tier=tier), rng.choice(["sq0", "sub", "my sub"])]
        return ["t", rng.choice(names), rng.choice([None, None, None, "ta"])]
    frm = mk_src(TBLS)
    joins = []
    nj = rng.choice([0, 0, 0, 1, 1, 2])
    avail = [_tspec(frm)] if frm[0] == "t" else []
    used = {frm[1]} if frm[0] == "t" else set()
    d = rng.choice([1, 2, 2, 3] if tier == "quick" else [1, 2, 3, 4])
    for _ in range(nj):
        names = [n for n in TBLS if n not in used]
        if not names or not avail:
            break
        it = ["t", rng.choice(names), rng.choice([None, None, "ja"])] if rng.random() < 0.8 or depth <= 0 else \
            ["q", gen_sel(rng, depth - 1, tier=tier), "jq%d" % len(joins)]
        if it[0] == "t":
            used.add(it[1])
            new = _tspec(it)
            left = ["field", rng.choice(COLS), rng.choice(avail), None]
            right = ["field", rng.choice(COLS), new, None]
            on_t = ["basic", "eq", left, right, None]
            avail2 = avail + [new]
        else:
            # joined sub-query: the ON criterion only refers to the tables already available
            on_t = ["basic", rng.choice(["eq", "gt"]), ["field", rng.choice(COLS), rng.choice(avail), None],
                    PGen(rng, allowed=avail, p_alias=0.0, p_table=1.0).value(), None]
            avail2 = avail
        g_on = PGen(rng, allowed=avail2, p_alias=0.0, p_table=1.0, hostile=0.2)
        r = rng.random()
        if r < 0.4:
            on = ["t", on_t]
        elif r < 0.7:
            on = ["t", ["cplx", "and", on_t, g_on.boolean(1), None]]
        elif r < 0.85 and depth > 0:
            on = ["and", ["t", on_t], ["in", g_on.num(1), gen_sel(rng, depth - 1, ncols=1, tier=tier), rng.random() < 0.3]]
        else:
            on = ["and", ["t", on_t], ["t", g_on.boolean(1)]]
        joins.append([rng.choice(["", "", "LEFT", "RIGHT", "FULL OUTER"]), it, on])
        avail = avail2
    g = PGen(rng, allowed=avail, p_alias=0.0, p_table=(0.6 if joins else 0.25), hostile=0.25, with_sub=True)
    ga = PGen(rng, allowed=avail, p_alias=0.35, p_table=(0.6 if joins else 0.25), hostile=0.25, with_sub=True)

    def wc(dd):
        r = rng.random()
        if r < 0.62 or dd <= 0:
            return ["t", g.boolean(d)]
        if r < 0.8 and depth > 0:
            return ["in", g.num(1), gen_sel(rng, depth - 1, ncols=1, tier=tier), rng.random() < 0.3]
        return ["and", wc(dd - 1), wc(dd - 1)]

    n = ncols if ncols is not None else rng.choice([1, 1, 2, 3])
    cols = []
    for _ in range(n):
        c = ga.any(d - 1)
        while c[0] == "star":
            c = ga.any(d - 1)
        cols.append(c)
    where = wc(2) if rng.random() < 0.75 else None
    groupby = [rng.choice([g.field(), g.num(1), rng.choice(cols)]) for _ in range(rng.choice([0, 0, 0, 1, 2]))]
    having = (["t", g.boolean(1)] if rng.random() < 0.85 else wc(1)) if rng.random() < 0.3 else None
    orderby = [[rng.choice([g.field(), g.num(1), ga.value(), rng.choice(cols)]), rng.choice([None, True, False])]
               for _ in range(rng.choice([0, 0, 1, 1, 2]))]
    groupby = [x for x in groupby if x[0] != "star"]
    orderby = [x for x in orderby if x[0][0] != "star"]
    return {"distinct": rng.random() < 0.15, "cols": cols, "from": frm, "joins": joins, "where": where, "groupby": groupby,
            "having": having, "orderby": orderby, "limit": rng.choice([None, None, None, 0, 1, 10]),
            "offset": rng.choice([None, None, None, 0, 2])}


def gen_stmt(rng, tier):
    r = rng.random()
    depth = rng.choice([0, 1, 1, 2] if tier == "quick" else [0, 1, 2, 2])
    g = PGen(rng, allowed=[], p_alias=0.0, p_table=0.0, hostile=0.3, p_none=0.0)
    ga = PGen(rng, allowed=[], p_alias=0.15, p_table=0.0, hostile=0.3, p_none=0.0)

    def wc():
        rr = rng.random()
        if rr < 0.7:
            return ["t", g.boolean(rng.choice([1, 2, 3]))]
        if rr < 0.85:
            return ["in", g.num(1), gen_sel(rng, 0, ncols=1, tier=tier), rng.random() < 0.3]
        return ["and", ["t", g.boolean(1)], ["t", g.boolean(2)]]
    if r < 0.45:
        return ["select", gen_sel(rng, depth, tier=tier)]
    if r < 0.60:
        ncol = rng.choice([1, 2, 3])
        cols = rng.sample(COLS, ncol) if rng.random() < 0.6 else []
        rows = [[rng.choice([ga.value(), ga.value(), g.num(1), ["null", None]]) for _ in range(ncol)]
                for _ in range(rng.choice([1, 1, 2, 3]))]
        return ["insert", rng.choice(TBLS), cols, rows]
    if r < 0.65:
        ncol = rng.choice([1, 2])
        return ["insertsel", rng.choice(TBLS), rng.sample(COLS, ncol) if rng.random() < 0.6 else [],
                gen_sel(rng, 0, ncols=ncol, tier=tier)]
    if r < 0.82:
        sets = []
        for name in rng.sample(COLS, rng.choice([1, 2, 3])):
            rr = rng.random()
            if rr < 0.7:
                v = PGen(rng, allowed=[], p_alias=0.0, p_none=0.12).value()
                sets.append([name, ["raw", v[:2] + [None] if v[0] != "valb" else ["valb", v[1], False, None]]])
            else:
                e = g.num(rng.choice([1, 2]))
                while e[0] in VALUE_KINDS:
                    e = g.num(2)
                sets.append([name, ["wrap", e]])
        return ["update", rng.choice(TBLS), sets, wc() if rng.random() < 0.7 else None]
    if r < 0.88:
        return ["delete", rng.choice(TBLS), wc() if rng.random() < 0.8 else None]
    n = rng.choice([1, 2])
    base = gen_sel(rng, min(depth, 1), ncols=n, tier=tier)
    ops = [[rng.choice(list(SETOPS)), gen_sel(rng, 0, ncols=n, tier=tier)] for _ in range(rng.choice([1, 1, 2]))]
    ordby = [[rng.choice([g.field(), ga.value()]), rng.choice([None, True, False])] for _ in range(rng.choice([0, 0, 1]))]
    if rng.random() < 0.35:
        # ordered by a select EXPRESSION of the base query itself: aliased (the ORDER BY then only names the alias: nothing
        # may be collected for it) or not (rendered, and collected, again)
        x = ["arith", rng.choice(["add", "mul", "sub"]), g.field(), g.value(), rng.choice(["x", "x", "my alias", None])]
        base["cols"][0] = x
        ordby = [[x, rng.choice([None, True, False])]] + ordby[:1]
    return ["setop", rng.random() < 0.6, base, ops, ordby, rng.choice([None, None, 5]), rng.choice([None, None, 0, 1])]


SQLITE_CMP_OK = {"eq", "ne", "gt", "gte", "lt", "lte", "like", "not_like", "glob"}


ALIASED_KINDS = (tf.KINDS | {"vdate", "vuuid"}) - {"param", "neg", "star", "empty"}


def sqlite_friendly(x, in_container=False):
    """same shape, restricted to what SQLite can execute (so that the execution oracle gets to judge the statement):
    no XOR / ILIKE / REGEX, known functions with at least one argument, no explicit placeholders, no arrays, no aliases
    inside expressions, no bare sub-query operands (other properties' business), HAVING only with GROUP BY, OFFSET only
    with LIMIT, set-operation members unwrapped, INSERT with a column list"""
    if isinstance(x, dict):
        d = {k: sqlite_friendly(v) for k, v in x.items()}
        if "having" in d:       # a SELECT spec
            if d["having"] is not None and not d["groupby"]:
                d["groupby"] = [d["cols"][0]] if d["cols"][0][0] not in VALUE_KINDS else [["field", "a", None, None]]
            if d["limit"] is None:
                d["offset"] = None
        return d
    if not isinstance(x, list):
        return x
    if x and isinstance(x[0], str):
        k = x[0]
        if k in ALIASED_KINDS and len(x) >= 2 and (x[-1] is None or isinstance(x[-1], str)) and k != "field":
            x = x[:-1] + [None]
        elif k == "field" and len(x) == 4:
            x = x[:3] + [None]
        if k == "basic" and len(x) == 5 and x[1] not in SQLITE_CMP_OK:
            return ["basic", "like", sqlite_friendly(x[2]), sqlite_friendly(x[3]), x[4]]
        if k == "cplx" and len(x) == 5 and x[1] == "xor":
            return ["cplx", "and", sqlite_friendly(x[2]), sqlite_friendly(x[3]), x[4]]
        if k == "func" and len(x) == 4:
            args = [sqlite_friendly(a) for a in x[2]] or [["vali", 1, None]]
            return ["func", "ABS", args[:1], x[3]] if x[1] != "COALESCE" or len(args) < 2 else ["func", "COALESCE", args, x[3]]
        if k == "param" and len(x) == 2:
            return ["vali", 4, None]
        if k == "array" and len(x) == 3:
            return ["tuple", [sqlite_friendly(a) for a in x[1]] or [["vali", 1, None]], x[2]]
        if k == "tuple" and len(x) == 3 and not x[1]:
            return ["tuple", [["vali", 1, None]], x[2]]
        if k == "lit" and len(x) == 3:
            return ["lit", "CURRENT_DATE", x[2]]
        if k == "sub" and len(x) == 2 and not in_container:
            return ["vali", 6, None]
        if k == "in" and len(x) == 5 and isinstance(x[2], list) and x[2] and x[2][0] == "sub":
            return ["in", sqlite_friendly(x[1]), sqlite_friendly(x[2], True), x[3], x[4]]
        if k == "vals" and isinstance(x[1], str) and "\x00" in x[1]:
            return ["vals", "nul", x[2]]
        if k == "setop" and len(x) == 7:
            return ["setop", False] + [sqlite_friendly(y) for y in x[2:]]
        if k == "insert" and len(x) == 4 and not x[2]:
            return ["insert", x[1], COLS[:len(x[3][0])], sqlite_friendly(x[3])]
    return [sqlite_friendly(y) for y in x]


def gen_shared(rng, tier):
    """statements in which ONE object occurs at several places (built shared, see build_term / build_sel)"""
    g = PGen(rng, allowed=[], p_alias=0.0, p_table=0.0, hostile=0.2, p_none=0.0)
    r = rng.random()
    d = rng.choice([1, 2])
    if r < 0.12:
        # a set operation ordered by the (aliased) select expression OBJECT of its base query
        x = ["arith", rng.choice(["add", "mul"]), g.field(), g.value(), rng.choice(["x", "n", None])]
        y = ["case", [[["basic", "gt", g.field(), g.value(), None], g.value()]], g.value(), rng.choice(["k", None])]
        a = gen_sel(rng, 0, ncols=2, tier=tier)
        b = gen_sel(rng, 0, ncols=2, tier=tier)
        a["cols"] = [x, y]
        ordby = rng.choice([[[x, True]], [[y, None]], [[x, False], [y, True]], [[y, None], [x, None]]])
        return ["setop", rng.random() < 0.5, a, [[rng.choice(["UNION", "UNION ALL"]), b]], ordby, rng.choice([None, 5]), None]
    if r < 0.35:
        # the same query object as several set-operation operands: a+b+b, a+a, a+b+a
        a = gen_sel(rng, 0, ncols=1, tier=tier)
        b = gen_sel(rng, 0, ncols=1, tier=tier)
        for x in (a, b):
            if x["where"] is None:
                x["where"] = ["t", ["basic", "eq", g.field(), g.value(), None]]
        shape = rng.choice([[a, b, b], [a, a], [a, b, a], [b, a, a]])
        ops = [[rng.choice(["UNION", "UNION ALL", "UNION ALL", "INTERSECT"]), x] for x in shape[1:]]
        return ["setop", rng.random() < 0.5, shape[0], ops, [], rng.choice([None, 5]), None]
    if r < 0.55:
        # the same sub-query object in FROM and as the container of IN
        sub = gen_sel(rng, 0, ncols=1, tier=tier)
        sub["where"] = ["t", ["basic", rng.choice(["gt", "lt", "eq"]), g.field(), g.value(), None]]
        outer = gen_sel(rng, 0, tier=tier)
        outer["from"] = ["q", sub, "sq0"]
        outer["joins"] = []
        outer["cols"] = [g.field(), g.value()]
        outer["groupby"], outer["orderby"], outer["having"] = [], [], None
        w = ["in", g.field(), sub, rng.random() < 0.3]
        outer["where"] = w if rng.random() < 0.5 else ["and", ["t", g.boolean(1)], w]
        return ["select", outer]
    if r < 0.8:
        # the same term object (with literals) in the select list and in ORDER BY / GROUP BY / HAVING
        x = g.num(d)
        while not [l for l in walk_leaves(x, []) if l[0] in VALUE_KINDS]:
            x = ["arith", "add", g.field(), g.value(), None]
        y = ["basic", rng.choice(["gt", "lte"]), g.field(), g.value(), None]
        s_ = gen_sel(rng, 0, tier=tier)
        s_["joins"], s_["from"] = [], ["t", rng.choice(TBLS), None]
        s_["cols"] = [x, y, g.field()]
        s_["groupby"] = [x] if rng.random() < 0.6 else []
        s_["having"] = ["t", y] if rng.random() < 0.6 else None
        s_["orderby"] = [[x, rng.choice([None, True, False])]] + ([[y, None]] if rng.random() < 0.4 else [])
        s_["where"] = rng.choice([None, ["t", y], ["t", ["cplx", "and", y, g.boolean(1), None]]])
        return ["select", s_]
    # the same criterion object in WHERE and inside a CASE of the select list
    c = g.boolean(d)
    while not [l for l in walk_leaves(c, []) if l[0] in VALUE_KINDS]:
        c = ["basic", "eq", g.field(), g.value(), None]
    s_ = gen_sel(rng, 0, tier=tier)
    s_["joins"], s_["from"] = [], ["t", rng.choice(TBLS), None]
    s_["cols"] = [["case", [[c, g.value()]], g.value() if rng.random() < 0.5 else None, None], g.field()]
    s_["where"] = ["t", c]
    s_["groupby"], s_["having"], s_["orderby"] = [], None, []
    return ["select", s_]


GEN_NAMES = ["status", "s", "ss", "owners", "x", "params", "s1s", "p_s", "class", "sp", "ps", "a1", "sss", "ms"]
CLASH_NAMES = ["param1", "param2", "param3"]


def gen_named(rng, tier):
    """explicitly named placeholders (ParameterValueWrapper) mixed with literals; custom placeholder generators"""
    g = PGen(rng, allowed=[], p_alias=0.0, p_table=0.0, hostile=0.2, p_none=0.0)
    names = rng.sample(GEN_NAMES, 4)
    if rng.random() < 0.08:
        names[rng.randrange(4)] = rng.choice(CLASH_NAMES)

    def val():
        v = g.value()
        while v[0] in ("vald", "valnone"):
            v = g.value()
        return [v[0], v[1], None] if v[0] != "valb" else ["valb", v[1], False, None]

    def pv(i):
        return ["pvw", names[i], val()]

    def crit(i):
        r = rng.random()
        if r < 0.5:
            return ["basic", rng.choice(["eq", "gt", "lte", "ne"]), g.field(), pv(i), None]
        if r < 0.7:
            return ["between", g.field(), pv(i), g.value(), None]
        if r < 0.85:
            return ["basic", "eq", g.field(), ["arith", "add", pv(i), g.value(), None], None]
        return ["in", g.field(), ["tuple", [g.value(), pv(i), g.value()], None], False, None]
    n = rng.choice([1, 2, 2, 3])
    c = crit(0)
    for i in range(1, n):
        c = ["cplx", rng.choice(["and", "and", "or"]), c, rng.choice([crit(i), g.boolean(1)]), None]
    if rng.random() < 0.5:
        c = ["cplx", "and", g.boolean(1), c, None]
    r = rng.random()
    if r < 0.25:
        return {"kind": "term", "t": c, "c": dict(tf.STR_CTX)}
    if r < 0.75:
        s_ = _sel([g.field(), g.value()], frm=rng.choice(TBLS), where=["t", c])
        if rng.random() < 0.4:
            s_["having"] = ["t", ["basic", "gt", g.field(), pv(3), None]]
            s_["groupby"] = [g.field()]
        return {"kind": "stmt", "s": ["select", s_], "dialect": "sqlite"}
    if r < 0.9:
        return {"kind": "stmt", "s": ["delete", rng.choice(TBLS), ["t", c]], "dialect": "sqlite"}
    return {"kind": "stmt", "s": ["insert", rng.choice(TBLS), ["a", "b", "c"], [[pv(0), g.value(), pv(1)], [g.value(), pv(2), g.value()]]],
            "dialect": "sqlite"}


def gen_cases(rng, tier):
    n = 520 if tier == "quick" else 7000
    out = []
    for i in range(n):
        sty = rng.choice(STYLE_NAMES + STYLE_NAMES + ["inline"])
        r = rng.random()
        d = rng.choice([1, 2, 3, 3] if tier == "quick" else [2, 3, 4, 5])
        if r < 0.30:
            g = PGen(rng, p_alias=0.15, p_table=0.3, hostile=0.3, with_sub=True, p_none=0.02)
            t = rng.choice([g.boolean, g.num, g.any])(d)
            c = dict(tf.STR_CTX) if rng.random() < 0.6 else tf.gen_ctx(rng)
            out.append({"kind": "term", "t": t, "c": c, "sty": sty})
        elif r < 0.36:
            g = PGen(rng, p_alias=0.1, p_table=0.2, hostile=0.2)
            t = g.malformed(d)
            if rng.random() < 0.5:
                t = ["between", g.value(), t, g.value(), None]      # values collected before the failure
            out.append({"kind": "term", "t": t, "c": dict(tf.STR_CTX), "sty": sty})
        elif r < 0.44:
            c = gen_named(rng, tier)
            c["sty"] = rng.choice(["named", "pyformat", "named", "pyformat", "qmark", "format", "inline"])
            out.append(c)
        elif r < 0.47:
            # a custom placeholder generator on the collector
            st = gen_stmt(rng, tier)
            out.append({"kind": "stmt", "s": sqlite_friendly(st), "dialect": "sqlite", "sty": rng.choice(["named", "pyformat"]),
                        "gen": rng.choice(["vs", "s", "k", "sp"])})
        elif r < 0.56:
            st = gen_shared(rng, tier)
            dialect = rng.choice(["generic", "sqlite", "sqlite"])
            if dialect == "sqlite" and rng.random() < 0.7:
                st = sqlite_friendly(st)
            out.append({"kind": "stmt", "s": st, "dialect": dialect, "sty": sty, "share": True})
        else:
            st = gen_stmt(rng, tier)
            dialect = rng.choice(["generic", "sqlite", "sqlite"])
            if dialect == "sqlite" and rng.random() < 0.7:
                st = sqlite_friendly(st)
            c = {"kind": "stmt", "s": st, "dialect": dialect, "sty": sty}
            if rng.random() < 0.3:
                c["share"] = True       # structurally equal parts, if any, become one object
            out.append(c)
    out += gen_vendor(rng, tier)
    for c in out:
        _normalise_raw(c)
    return out


def _normalise_raw(case):
    if case["kind"] == "stmt" and case["s"][0] == "update":
        for pair in case["s"][2]:
            mode, v = pair[1]
            if mode == "raw":
                if v[0] == "valnone":
                    pair[1] = ["raw", ["valnone", None]]
                elif v[0] == "valb":
                    pair[1] = ["raw", ["valb", bool(v[1]), False, None]]
                else:
                    pair[1] = ["raw", [v[0], v[1], None]]


# ---- corpus: a witness per known finding, plus the shapes the mutations of design.d/C06.md touch ----
def _sel(cols, frm="t", where=None, **kw):
    s = {"distinct": False, "cols": cols, "from": ["t", frm, None], "joins": [], "where": where, "groupby": [], "having": None,
         "orderby": [], "limit": None, "offset": None}
    s.update(kw)
    return s


F = lambda n, tb=None: ["field", n, tb, None]     # noqa: E731
I = lambda n: ["vali", n, None]                   # noqa: E731
Sv = lambda s: ["vals", s, None]                  # noqa: E731


def corpus():
    out = []
    sc = dict(tf.STR_CTX)
    T_, U_ = ["t", [], None], ["u", [], None]
    for sty in STYLE_NAMES:
        # known findings
        out.append({"kind": "stmt", "dialect": "sqlite", "sty": sty,
                    "s": ["update", "t", [["a", ["raw", ["valnone", None]]], ["b", ["raw", ["vals", "x", None]]]],
                          ["t", ["basic", "eq", F("c"), I(2), None]]]})
        out.append({"kind": "stmt", "dialect": "sqlite", "sty": sty,
                    "s": ["update", "t", [["a", ["wrap", ["arith", "add", F("b"), I(1), None]]]], None]})
        out.append({"kind": "stmt", "dialect": "sqlite", "sty": sty,
                    "s": ["select", _sel([F("a")], where=["t", ["basic", "gt", F("b"), ["vald", "1.50", None], None]])]})
        out.append({"kind": "term", "c": sc, "sty": sty, "t": ["basic", "eq", F("a"), ["valnone", None], None]})
        out.append({"kind": "term", "c": sc, "sty": sty, "t": ["basic", "eq", F("a"), ["vald", "-0.001", None], None]})
        expl = {"qmark": "?", "numeric": ":1", "format": "%s", "named": ":param1", "pyformat": "%(param1)s"}[sty]
        out.append({"kind": "term", "c": sc, "sty": sty,
                    "t": ["cplx", "and", ["basic", "eq", F("a"), ["param", expl], None], ["basic", "eq", F("b"), I(5), None], None]})
        # order-sensitive shapes
        out.append({"kind": "term", "c": sc, "sty": sty, "t": ["between", F("a"), I(1), I(9), None]})
        out.append({"kind": "term", "c": sc, "sty": sty,
                    "t": ["case", [[["basic", "eq", F("a"), I(1), None], Sv("one")], [["basic", "eq", F("a"), I(2), None], Sv("two")]],
                          Sv("many"), None]})
        out.append({"kind": "term", "c": sc, "sty": sty,
                    "t": ["in", F("a"), ["tuple", [I(1), Sv("it's"), ["valb", True, False, None]], None], False, None]})
        out.append({"kind": "term", "c": sc, "sty": sty,
                    "t": ["basic", "eq", ["func", "COALESCE", [F("a"), I(7)], None], I(8), None]})
        out.append({"kind": "stmt", "dialect": "sqlite", "sty": sty,
                    "s": ["select", _sel([F("a", T_), ["arith", "add", F("b", T_), I(1), "bb"]],
                                         joins=[["", ["t", "u", None], ["t", ["cplx", "and", ["basic", "eq", F("a", T_), F("a", U_), None],
                                                                               ["basic", "gt", F("c", U_), I(2), None], None]]]],
                                         where=["and", ["t", ["basic", "eq", F("b", T_), Sv("w"), None]],
                                                ["in", F("c", T_), _sel([F("a")], frm="v", where=["t", ["basic", "lt", F("b"), I(3), None]]), False]],
                                         groupby=[F("a", T_)], having=["t", ["basic", "gt", F("a", T_), I(4), None]],
                                         orderby=[[["arith", "add", F("a", T_), I(5), None], True]], limit=6)]})
        out.append({"kind": "stmt", "dialect": "sqlite", "sty": sty,
                    "s": ["insert", "t", ["a", "b"], [[I(1), Sv("x")], [I(2), ["valb", False, True, None]], [["null", None], Sv("z")]]]})
        out.append({"kind": "stmt", "dialect": "sqlite", "sty": sty,
                    "s": ["setop", False, _sel([F("a")], where=["t", ["basic", "eq", F("b"), I(1), None]]),
                          [["UNION", _sel([F("a")], frm="u", where=["t", ["basic", "eq", F("b"), I(2), None]])],
                           ["UNION ALL", _sel([F("a")], frm="v", where=["t", ["basic", "eq", F("b"), I(3), None]])]],
                          [[F("a"), True]], 5, None]})
        out.append({"kind": "stmt", "dialect": "generic", "sty": sty,
                    "s": ["select", _sel([F("a")], where=["t", ["basic", "eq", F("b"), I(0), None]],
                                         **{"from": ["q", _sel([F("a"), F("b")], where=["t", ["basic", "eq", F("c"), Sv("in"), None]]), "sq0"]})]})
        out.append({"kind": "stmt", "dialect": "sqlite", "sty": sty,
                    "s": ["delete", "t", ["t", ["between", F("a"), I(1), I(3), None]]]})
        # OBJECT SHARING: a + b + b (same operand object twice); same sub-query in FROM and IN; same term in select list,
        # GROUP BY, HAVING and ORDER BY; same criterion in WHERE and CASE
        qa = _sel([F("a")], where=["t", ["basic", "eq", F("b"), Sv("a"), None]])
        qb = _sel([F("a")], frm="u", where=["t", ["basic", "gt", F("c"), I(2), None]])
        out.append({"kind": "stmt", "dialect": "sqlite", "sty": sty, "share": True,
                    "s": ["setop", False, qa, [["UNION ALL", qb], ["UNION ALL", qb]], [[F("a"), True]], None, None]})
        out.append({"kind": "stmt", "dialect": "generic", "sty": sty, "share": True,
                    "s": ["setop", True, qa, [["UNION", qa], ["INTERSECT", qb]], [], None, None]})
        out.append({"kind": "stmt", "dialect": "sqlite", "sty": sty, "share": True,
                    "s": ["select", _sel([F("a"), I(7)], where=["in", F("a"), qb, False], **{"from": ["q", qb, "sq0"]})]})
        xs = ["arith", "add", F("a"), I(5), None]
        ys = ["basic", "gt", F("b"), I(1), None]
        out.append({"kind": "stmt", "dialect": "sqlite", "sty": sty, "share": True,
                    "s": ["select", _sel([xs, ys], where=["t", ys], groupby=[xs], having=["t", ys], orderby=[[xs, False]])]})
        out.append({"kind": "stmt", "dialect": "sqlite", "sty": sty, "share": True,
                    "s": ["select", _sel([["case", [[ys, Sv("big")]], Sv("small"), None]], where=["t", ys])]})
        # operand evaluation order (regression fbde87c..b4f5fc0: the right operand was rendered, and collected, first) and the
        # sign-protecting parentheses ("a"-(-1) inline, "a"-? parameterised; -(-1) / -?; "a"-(-1*"b") / "a"-?*"b")
        out.append({"kind": "term", "c": sc, "sty": sty,
                    "t": ["arith", "sub", ["arith", "add", I(1), F("a"), None], I(2), None]})
        out.append({"kind": "stmt", "dialect": "sqlite", "sty": sty,
                    "s": ["select", _sel([["arith", "sub", ["arith", "add", I(1), F("a"), None], I(2), None]],
                                         where=["t", ["basic", "gt", ["arith", "mul", I(3), F("b"), None], ["arith", "sub", I(10), I(4), None], None]])]})
        out.append({"kind": "term", "c": sc, "sty": sty, "t": ["arith", "sub", F("a"), I(-1), None]})
        out.append({"kind": "term", "c": sc, "sty": sty, "t": ["neg", I(-1)]})
        out.append({"kind": "term", "c": sc, "sty": sty, "t": ["arith", "sub", F("a"), ["arith", "mul", I(-1), F("b"), None], None]})
        out.append({"kind": "term", "c": sc, "sty": sty, "t": ["arith", "sub", F("a"), ["valf", "-2.25", None], None]})
        # explicitly named placeholders (the red-team demo: names ending in the delimiter character s) and custom generators
        if sty in ("named", "pyformat"):
            wq = ["cplx", "and", ["cplx", "and", ["basic", "eq", F("col"), ["pvw", "status", Sv("abc")], None],
                                  ["basic", "eq", F("a"), ["pvw", "s", I(2)], None], None],
                  ["basic", "gte", F("b"), I(1), None], None]
            out.append({"kind": "stmt", "dialect": "sqlite", "sty": sty, "s": ["select", _sel([F("a")], where=["t", wq], orderby=[[F("a"), True]])]})
            out.append({"kind": "term", "c": sc, "sty": sty,
                        "t": ["between", F("a"), ["pvw", "ss", I(1)], ["pvw", "owners", I(9)], None]})
            for gname in ("vs", "s", "sp"):
                out.append({"kind": "stmt", "dialect": "sqlite", "sty": sty, "gen": gname,
                            "s": ["select", _sel([F("a")], where=["t", ["cplx", "and", ["basic", "eq", F("col"), Sv("abc"), None],
                                                                       ["between", F("b"), I(0), I(7), None], None]])]})
            # an explicit name that is also the collector's next automatic name: the later assignment overwrites the earlier
            out.append({"kind": "term", "c": sc, "sty": sty,
                        "t": ["cplx", "and", ["basic", "eq", F("a"), ["pvw", "param2", Sv("x")], None], ["basic", "eq", F("b"), I(5), None], None]})
        # a set operation (and a plain SELECT) ordered by the aliased select expression object itself: ORDER BY names the alias,
        # the literal inside the expression is collected once (for the select list), not again for ORDER BY
        xo = ["arith", "add", F("a"), I(10), "x"]
        for shr in (True, False):
            out.append({"kind": "stmt", "dialect": "sqlite", "sty": sty, "share": shr,
                        "s": ["setop", False, _sel([xo], where=["t", ["basic", "eq", F("b"), I(1), None]]),
                              [["UNION ALL", _sel([F("a")], frm="u", where=["t", ["basic", "eq", F("b"), I(2), None]])]],
                              [[xo, True]], 5, None]})
            out.append({"kind": "stmt", "dialect": "generic", "sty": sty, "share": shr,
                        "s": ["select", _sel([xo, F("b")], where=["t", ["basic", "gt", F("c"), I(3), None]], orderby=[[xo, False]],
                                             groupby=[xo])]})
        # vendor clauses: two clauses with constants in one statement (evaluation order must be text order)
        out.append({"kind": "vendor", "cls": "PostgreSQLQuery", "stmt": "insert", "base": "values", "sty": sty,
                    "features": ["on_conflict_update", "returning"]})
        out.append({"kind": "vendor", "cls": "PostgreSQLQuery", "stmt": "insert", "base": "values", "sty": sty,
                    "features": ["on_conflict_target_where", "on_conflict_update_where", "returning"]})
        out.append({"kind": "vendor", "cls": "MySQLQuery", "stmt": "insert", "base": "values", "sty": sty,
                    "features": ["more_rows", "dup_update"]})
        out.append({"kind": "vendor", "cls": "ClickHouseQuery", "stmt": "select", "base": "plain", "sty": sty,
                    "features": ["prewhere", "where", "limit_by", "distinct_on"]})
        # ORDER BY of a set operation repeating a result column that contains a literal
        e1 = ["arith", "add", F("a"), I(1), None]
        out.append({"kind": "stmt", "dialect": "sqlite", "sty": sty,
                    "s": ["setop", False, _sel([e1]), [["UNION", _sel([e1], frm="u")]], [[e1, True]], None, None]})
        # an integer constant in ORDER BY / GROUP BY: select-list position inline, constant when bound
        out.append({"kind": "stmt", "dialect": "sqlite", "sty": sty,
                    "s": ["select", _sel([I(0), I(2), ["basic", "gte", I(2), F("x1"), None]], frm="u", orderby=[[I(3), False]])]})
        out.append({"kind": "stmt", "dialect": "sqlite", "sty": sty,
                    "s": ["select", _sel([I(0), I(2), ["basic", "gte", I(2), F("x1"), None]], frm="u", groupby=[I(3)])]})
    for c in out:
        _normalise_raw(c)
    return out


# ----------------------------------------------------------------------------------------------
# vendor clauses (oracle only): every clause renderer of the ten query classes, with literals, alone and in pairs
# ----------------------------------------------------------------------------------------------
QCLASSES = ["Query", "MySQLQuery", "VerticaQuery", "OracleQuery", "PostgreSQLQuery", "RedshiftQuery", "MSSQLQuery",
            "ClickHouseQuery", "SQLLiteQuery", "SnowflakeQuery"]


def qclass(name):
    import pypika
    import pypika.dialects as D
    return getattr(pypika, name, None) or getattr(D, name)


class _Vals:
    """distinct literals, so that a permutation of the collected values shows"""

    def __init__(self, start=0):
        self.n = 100 + start

    def __call__(self, kind=None):
        self.n += 1
        k = kind or ("i" if self.n % 2 else "s")
        return self.n if k == "i" else "v%d" % self.n


def _tbl():
    from pypika import Table
    return Table("t"), Table("u")


# feature: (statement kinds, classes or None, function(q, V) -> q)
def _f_where(q, V):
    t, _ = _tbl()
    return q.where(t.a == V())


def _f_where2(q, V):
    t, _ = _tbl()
    return q.where(t.b.between(V("i"), V("i")) | t.c.isin([V(), V()]))


def _f_prewhere(q, V):
    t, _ = _tbl()
    return q.prewhere(t.c != V())


def _f_having(q, V):
    from pypika import functions as fn
    t, _ = _tbl()
    return q.groupby(t.a).having(fn.Count(t.b) > V("i"))


def _f_groupby_expr(q, V):
    t, _ = _tbl()
    return q.groupby(t.b + V("i"))


def _f_orderby_expr(q, V):
    from pypika import Order
    t, _ = _tbl()
    return q.orderby(t.c + V("i"), order=Order.desc)


def _f_select_case(q, V):
    from pypika import Case
    t, _ = _tbl()
    return q.select(Case().when(t.a == V(), V()).when(t.b > V("i"), V()).else_(V()).as_("k"))


def _f_select_window(q, V):
    from pypika import analytics as an
    t, _ = _tbl()
    return q.select(an.Sum(t.a + V("i")).over(t.b).orderby(t.c).rows(an.Preceding(2), an.CURRENT_ROW).as_("w"))


def _f_select_filter(q, V):
    from pypika import functions as fn
    t, _ = _tbl()
    return q.select(fn.Sum(t.a).filter(t.b == V()).as_("f"), t.c * V("i"))


def _f_join_on(q, V):
    t, u = _tbl()
    return q.join(u).on((t.a == u.a) & (u.b == V()))


def _f_join_sub(q, V):
    t, u = _tbl()
    sub = type(q).QUERY_CLS.from_(u).select(u.a, u.b).where(u.c == V()).as_("sj")
    return q.join(sub).on((t.a == sub.a) & (sub.b > V("i")))


def _f_limit(q, V):
    return q.limit(7).offset(3)


def _f_distinct(q, V):
    return q.distinct()


def _f_for_update(q, V):
    return q.for_update()


def _f_indexes(q, V):
    return q.force_index("ix1").use_index("ix2")


def _f_distinct_on(q, V):
    t, _ = _tbl()
    return q.distinct_on(t.a + V("i"), t.b)


def _f_limit_by(q, V):
    t, _ = _tbl()
    return q.limit_by(2, t.a + V("i"))


def _f_limit_offset_by(q, V):
    t, _ = _tbl()
    return q.limit_offset_by(2, 1, t.b * V("i"))


def _f_sample(q, V):
    return q.sample(10, 5)


def _f_final(q, V):
    return q.final()


def _f_top(q, V):
    return q.top(5)


def _f_modifier(q, V):
    return q.modifier("SQL_CALC_FOUND_ROWS")


def _f_hint(q, V):
    return q.hint("lbl")


def _f_rollup(q, V):
    t, _ = _tbl()
    return q.rollup(t.a, t.b, vendor="mysql")


def _f_union(q, V):
    t, u = _tbl()
    other = type(q).QUERY_CLS.from_(u).select(u.a, *[V() for _ in q._selects[1:]]).where(u.b == V())
    return q.union(other).orderby(t.a)


def _f_select_into(q, V):
    from pypika import Table
    return q.into(Table("arch"))


# INSERT
def _f_on_conflict_update(q, V):
    return q.on_conflict("a").do_update("b", V())


def _f_on_conflict_target_where(q, V):
    from pypika import Field
    return q.on_conflict("a").where(Field("c") > V("i")).do_update("b", V())


def _f_on_conflict_update_where(q, V):
    from pypika import Field
    return q.on_conflict("a").do_update("b", V()).do_update("c").where(Field("b") != V())


def _f_on_conflict_nothing(q, V):
    return q.on_conflict("a").do_nothing()


def _f_returning(q, V):
    t, _ = _tbl()
    return q.returning(t.a, t.b + V("i"), V())


def _f_dup_update(q, V):
    return q.on_duplicate_key_update("b", V()).on_duplicate_key_update("c", V("i"))


def _f_dup_ignore(q, V):
    return q.on_duplicate_key_ignore()


def _f_ignore(q, V):
    return q.ignore()


def _f_more_rows(q, V):
    return q.insert(V("i"), V(), V("i"))


# UPDATE
def _f_set_more(q, V):
    t, _ = _tbl()
    return q.set("c", V()).set(t.b, t.b + V("i"))


def _f_update_from(q, V):
    t, u = _tbl()
    return q.from_(u).where(t.a == u.a).where(u.b == V())


def _f_update_join(q, V):
    t, u = _tbl()
    return q.join(u).on((t.a == u.a) & (u.c == V()))


# DELETE
def _f_using(q, V):
    t, u = _tbl()
    return q.using(u).where(t.a == u.a).where(u.b == V())


SEL, INS, UPD, DEL = "select", "insert", "update", "delete"
PG = ("PostgreSQLQuery",)
FEATURES = {
    "where": ((SEL, UPD, DEL), None, _f_where),
    "where2": ((SEL, UPD, DEL), None, _f_where2),
    "prewhere": ((SEL,), None, _f_prewhere),
    "having": ((SEL,), None, _f_having),
    "groupby_expr": ((SEL,), None, _f_groupby_expr),
    "orderby_expr": ((SEL,), None, _f_orderby_expr),
    "select_case": ((SEL,), None, _f_select_case),
    "select_window": ((SEL,), None, _f_select_window),
    "select_filter": ((SEL,), None, _f_select_filter),
    "join_on": ((SEL,), None, _f_join_on),
    "join_sub": ((SEL,), None, _f_join_sub),
    "limit": ((SEL, UPD), None, _f_limit),
    "distinct": ((SEL,), None, _f_distinct),
    "for_update": ((SEL,), None, _f_for_update),
    "indexes": ((SEL,), None, _f_indexes),
    "distinct_on": ((SEL,), ("PostgreSQLQuery", "ClickHouseQuery"), _f_distinct_on),
    "limit_by": ((SEL,), ("ClickHouseQuery",), _f_limit_by),
    "limit_offset_by": ((SEL,), ("ClickHouseQuery",), _f_limit_offset_by),
    "sample": ((SEL,), ("ClickHouseQuery",), _f_sample),
    "final": ((SEL,), ("ClickHouseQuery",), _f_final),
    "top": ((SEL,), ("MSSQLQuery",), _f_top),
    "modifier": ((SEL,), ("MySQLQuery",), _f_modifier),
    "hint": ((SEL,), ("VerticaQuery",), _f_hint),
    "rollup": ((SEL,), None, _f_rollup),
    "union": ((SEL,), None, _f_union),
    "select_into": ((SEL,), None, _f_select_into),
    "on_conflict_update": ((INS,), PG, _f_on_conflict_update),
    "on_conflict_target_where": ((INS,), PG, _f_on_conflict_target_where),
    "on_conflict_update_where": ((INS,), PG, _f_on_conflict_update_where),
    "on_conflict_nothing": ((INS,), PG, _f_on_conflict_nothing),
    "returning": ((INS, UPD, DEL), PG, _f_returning),
    "dup_update": ((INS,), ("MySQLQuery",), _f_dup_update),
    "dup_ignore": ((INS,), ("MySQLQuery",), _f_dup_ignore),
    "ignore": ((INS,), None, _f_ignore),
    "more_rows": ((INS,), None, _f_more_rows),
    "set_more": ((UPD,), None, _f_set_more),
    "update_from": ((UPD,), None, _f_update_from),
    "update_join": ((UPD,), None, _f_update_join),
    "using": ((DEL,), PG, _f_using),
}
# features that change the shape of the whole statement and therefore come last / exclude others
LAST = ("union",)
BASES = {
    SEL: ["plain", "with", "temporal", "subquery_from"],
    INS: ["values", "replace", "insert_select", "or_replace", "with"],
    UPD: ["plain", "with"],
    DEL: ["plain", "with"],
}
# renderers that no DML statement reaches, with the reason (anything else that is not exercised fails the check)
EXEMPT_RENDERERS = {
    "_temporal_sql": (None, "Table._temporal_sql is not part of get_sql (used by __hash__/__eq__ helpers only)"),
    "_using_sql": ([c for c in QCLASSES if c != "PostgreSQLQuery"],
                   "only PostgreSQLQueryBuilder has a public method (using) that fills _using"),
    "_distinct_sql": (["MySQLQuery", "MSSQLQuery"], "their own _select_sql writes DISTINCT itself"),
}


def exempt_for(cls):
    return {n for n, (classes, _) in EXEMPT_RENDERERS.items() if classes is None or cls in classes}
# `_*_sql` methods of classes that take no parameter collector at all (DDL, LOAD / COPY); a new name here fails closed
NON_DML_RENDERERS = {"_as_select_sql", "_body_sql", "_create_table_sql", "_table_options_sql", "_preserve_rows_sql",
                     "_into_table_sql", "_load_file_sql", "_options_sql", "_copy_table_sql", "_from_file_sql"}


def vendor_base(cls, kind, base, V):
    from pypika import AliasedQuery
    from pypika import SYSTEM_TIME
    Q = qclass(cls)
    t, u = _tbl()
    if kind != SEL and base == "with":
        # a WITH query (holding a literal) in front of INSERT / UPDATE / DELETE
        sub = Q.from_(u).select(u.a, u.b).where(u.c == V())
        w = Q.with_(sub, "w")
        if kind == INS:
            return w.into(t).columns("a", "b", "c").insert(V("i"), V(), V())
        if kind == UPD:
            return w.update(t).set("a", V())
        return w.from_(t).delete()
    if kind == SEL:
        if base == "with":
            sub = Q.from_(u).select(u.a, u.b).where(u.c == V())
            w = AliasedQuery("w")
            return Q.with_(sub, "w").from_(t).join(w).on(t.a == w.a).select(t.a, w.b)
        if base == "temporal":
            return Q.from_(t.for_(SYSTEM_TIME.between(V(), V()))).select(t.a)
        if base == "subquery_from":
            sub = Q.from_(u).select(u.a, u.b).where(u.c == V()).as_("sq0")
            return Q.from_(sub).select(sub.a, V("i"))
        return Q.from_(t).select(t.a, V())
    if kind == INS:
        if base == "replace":
            return Q.into(t).columns("a", "b", "c").replace(V("i"), V(), V())
        if base == "or_replace":
            return Q.into(t).columns("a", "b", "c").insert_or_replace(V("i"), V(), V())
        if base == "insert_select":
            return Q.into(t).columns("a", "b").from_(u).select(u.a, V()).where(u.c == V())
        return Q.into(t).columns("a", "b", "c").insert(V("i"), V(), V())
    if kind == UPD:
        return Q.update(t).set("a", V())
    return Q.from_(t).delete()


def build_vendor(case):
    V = _Vals()
    q = vendor_base(case["cls"], case["stmt"], case["base"], V)
    for f in case["features"]:
        q = FEATURES[f][2](q, V)
    return q


def feature_ok(cls, kind, f):
    kinds, classes, _ = FEATURES[f]
    return kind in kinds and (classes is None or cls in classes)


def vendor_buildable(case):
    try:
        q = build_vendor(case)
        q.get_sql()
        return True
    except Exception:  # noqa  (the class does not offer the method / rejects the combination)
        return False


def renderer_inventory(cls):
    """every `_*_sql` method on the MRO of the class's builder, on Table and on _SetOperation (as harness/props/C07.py does),
    and the ones of all other classes of the two modules"""
    import inspect
    import pypika.queries as PQ
    import pypika.dialects as PD
    own, other = set(), set()
    b = qclass(cls)._builder()
    mro = set(type(b).__mro__) | {PQ.Table, PQ._SetOperation}
    for mod in (PQ, PD):
        for _, k in inspect.getmembers(mod, inspect.isclass):
            if k.__module__ != mod.__name__:
                continue
            names = {m for m in vars(k) if re.match(r"_\w+_sql$", m)}
            (own if k in mro else other).update(names)
    return own, other


def traced_renderers(q):
    """names of the `_*_sql` functions of pypika that run while q is rendered"""
    import sys
    seen = set()

    def prof(frame, event, arg):
        if event == "call":
            n = frame.f_code.co_name
            if n.endswith("_sql") and n.startswith("_") and "pypika" in frame.f_code.co_filename:
                seen.add(n)
    old = sys.getprofile()
    sys.setprofile(prof)
    try:
        q.get_sql()
    finally:
        sys.setprofile(old)
    return seen


def all_vendor_singles(cls):
    out = []
    for kind, bases in BASES.items():
        for base in bases:
            c0 = {"kind": "vendor", "cls": cls, "stmt": kind, "base": base, "features": []}
            if vendor_buildable(c0):
                out.append(c0)
        for f in FEATURES:
            if feature_ok(cls, kind, f):
                c = {"kind": "vendor", "cls": cls, "stmt": kind, "base": BASES[kind][0], "features": [f]}
                if vendor_buildable(c):
                    out.append(c)
    return out


def run_inventory(cls):
    own, other = renderer_inventory(cls)
    seen = set()
    for c in all_vendor_singles(cls):
        seen |= traced_renderers(build_vendor(c))
    return {"uncovered": sorted(own - seen - exempt_for(cls)), "unknown": sorted(other - own - NON_DML_RENDERERS - _all_dml_names())}


def _all_dml_names():
    names = set()
    for c in QCLASSES:
        names |= renderer_inventory(c)[0]
    return names


def gen_vendor(rng, tier):
    """singles for every class, all pairs for the INSERT/UPDATE/DELETE kinds, sampled pairs/triples for SELECT"""
    out = []
    classes = QCLASSES
    for cls in classes:
        for c in all_vendor_singles(cls):
            out.append(dict(c, sty=rng.choice(STYLE_NAMES)))
        for kind in (INS, UPD, DEL, SEL):
            fs = [f for f in FEATURES if feature_ok(cls, kind, f)]
            pairs = [(a, b) for i, a in enumerate(fs) for b in fs[i + 1:]]
            if kind == SEL:
                pairs = rng.sample(pairs, min(len(pairs), 10 if tier == "quick" else 120))
            elif tier == "quick" and cls not in ("PostgreSQLQuery", "MySQLQuery"):
                pairs = rng.sample(pairs, min(len(pairs), 4))
            for a, b in pairs:
                feats = [a, b]
                if rng.random() < 0.3:
                    extra = rng.choice(fs)
                    if extra not in feats:
                        feats.append(extra)
                feats.sort(key=lambda f: f in LAST)
                if rng.random() < 0.5:
                    nl = [f for f in feats if f not in LAST]
                    rng.shuffle(nl)
                    feats = nl + [f for f in feats if f in LAST]
                c = {"kind": "vendor", "cls": cls, "stmt": kind, "base": rng.choice(BASES[kind]), "features": feats}
                if not vendor_buildable(c):
                    c["base"] = BASES[kind][0]
                    if not vendor_buildable(c):
                        continue
                # positional classes show a permutation; the named ones show a wrong name
                for sty in (["qmark", rng.choice(["numeric", "named", "pyformat", "format"])] if tier == "quick" else STYLE_NAMES):
                    out.append(dict(c, sty=sty))
    for cls in classes:
        out.append({"kind": "inventory", "cls": cls, "sty": "qmark"})
    return out


# ----------------------------------------------------------------------------------------------
# oracle (implementation only): lexer, placeholder bookkeeping, substitution, SQLite execution
# ----------------------------------------------------------------------------------------------
PH_RE = {
    "qmark": re.compile(r"\?"),
    "numeric": re.compile(r":\d+"),
    "format": re.compile(r"%s"),
    "named": re.compile(r":[A-Za-z_][A-Za-z_0-9]*"),
    "pyformat": re.compile(r"%\([A-Za-z_0-9]+\)s"),
}
ANY_PH = re.compile(r"\?|:\d+|%s|:[A-Za-z_][A-Za-z_0-9]*|%\([A-Za-z_0-9]+\)s")
NUM_RE = re.compile(r"(\d+\.\d*|\.\d+|\d+)([eE][+-]?\d+)?")
WORD_RE = re.compile(r"[A-Za-z_][A-Za-z_0-9$]*")
OPS2 = ("<>", "<=", ">=", "<<", ">>", "!=", "||")
CLAUSE_WORDS = {"SELECT": "select", "FROM": "from", "ON": "on", "WHERE": "where", "GROUP": "group by", "HAVING": "having",
                "ORDER": "order by", "SET": "set", "VALUES": "values", "LIMIT": "limit"}


class LexError(Exception):
    pass


def lex(text):
    """-> list of (kind, value, start, end); kinds: str, id, ph, num, word, op"""
    out = []
    i, n = 0, len(text)
    while i < n:
        ch = text[i]
        if ch in " \t\r\n":
            i += 1
            continue
        if ch == "'":
            j, buf = i + 1, []
            while True:
                if j >= n:
                    raise LexError("unterminated string literal at %d" % i)
                if text[j] == "'":
                    if j + 1 < n and text[j + 1] == "'":
                        buf.append("'")
                        j += 2
                        continue
                    break
                buf.append(text[j])
                j += 1
            out.append(("str", "".join(buf), i, j + 1))
            i = j + 1
            continue
        if ch in '"`':
            j = i + 1
            while True:
                if j >= n:
                    raise LexError("unterminated quoted identifier at %d" % i)
                if text[j] == ch:
                    if j + 1 < n and text[j + 1] == ch:
                        j += 2
                        continue
                    break
                j += 1
            out.append(("id", text[i:j + 1], i, j + 1))
            i = j + 1
            continue
        m = ANY_PH.match(text, i)
        if m:
            out.append(("ph", m.group(0), i, m.end()))
            i = m.end()
            continue
        m = NUM_RE.match(text, i)
        if m:
            out.append(("num", m.group(0), i, m.end()))
            i = m.end()
            continue
        m = WORD_RE.match(text, i)
        if m:
            out.append(("word", m.group(0), i, m.end()))
            i = m.end()
            continue
        if text[i:i + 2] in OPS2:
            out.append(("op", text[i:i + 2], i, i + 2))
            i += 2
            continue
        out.append(("op", ch, i, i + 1))
        i += 1
    return out


def num_value(s):
    try:
        return int(s)
    except ValueError:
        return float(s)


def literal_tokens(v):
    """the tokens of the SQL literal of a collected Python value (kind, value) -- compared BY VALUE"""
    if isinstance(v, bool):
        return [("bool", v)]
    if isinstance(v, int):
        return ([("op", "-")] if v < 0 else []) + [("numv", abs(v))]
    if isinstance(v, float):
        r = repr(v)
        neg = r.startswith("-")
        return ([("op", "-")] if neg else []) + [("numv", abs(v))]
    if isinstance(v, str):
        return [("str", v)]
    if v is None:
        return [("null", None)]
    if isinstance(v, Decimal):
        return ([("op", "-")] if v < 0 else []) + [("decv", abs(v))]
    return [("other", repr(v))]


def tok_matches(lit, tok):
    """does the literal token (from a collected value) denote the same value as the inline token?"""
    k, v = lit
    if k == "str":
        return tok[0] == "str" and tok[1] == v
    if k == "numv":
        return tok[0] == "num" and num_value(tok[1]) == v and isinstance(num_value(tok[1]), type(v))
    if k == "bool":
        return (tok[0] == "word" and tok[1].lower() == ("true" if v else "false")) or \
               (tok[0] == "num" and tok[1] == ("1" if v else "0"))
    if k == "op":
        return tok[0] == "op" and tok[1] == v
    if k == "null":
        return tok[0] == "word" and tok[1].lower() == "null"
    if k == "decv":
        return tok[0] == "num" and Decimal(tok[1]) == v
    return False


def explicit_params(spec):
    return [x[1] for x in walk_leaves(spec, []) if x[0] == "param"]


def _positions(toks, base):
    """clause position of every token: last clause keyword seen at the current parenthesis depth (stack)"""
    pos, cur, stack = [], base, []
    for t in toks:
        if t[0] == "op" and t[1] == "(":
            stack.append(cur)
        elif t[0] == "op" and t[1] == ")":
            if stack:
                cur = stack.pop()
        elif t[0] == "word" and t[1].upper() in CLAUSE_WORDS:
            cur = CLAUSE_WORDS[t[1].upper()]
        pos.append(cur)
    return pos


def judgeable(case):
    """the lexer understands single-quoted strings only"""
    if case["kind"] == "term":
        c = case["c"]
        return c.get("sq") == "'" and c.get("q") in ('"', "`", None) and c.get("aq") in (None, '"', "`")
    return True


def resolve(style, params, text, n):
    """value the placeholder `text`, being the n-th collector placeholder of the statement, stands for (or KeyError)"""
    if style in ("qmark", "format"):
        return untag(params[n][1])
    if style == "numeric":
        k = int(text[1:])
        if k < 1:
            raise KeyError(text)
        return untag(params[k - 1][1])
    key = text[1:] if style == "named" else text[2:-2]
    for kk, v in params:
        if kk == key:
            return untag(v)
    raise KeyError(key)


def oracle(case, outcome):
    if case["kind"] == "inventory":
        out = []
        if outcome.get("uncovered"):
            out.append({"signature": ["C06", "inventory", case["cls"], "renderer-not-exercised"],
                        "what": "clause renderers of %s that no vendor case exercises (add a feature with a literal to harness/props/C06.py, "
                                "or exempt it with a reason): %s" % (case["cls"], outcome["uncovered"])})
        if outcome.get("unknown"):
            out.append({"signature": ["C06", "inventory", case["cls"], "unknown-renderer"],
                        "what": "`_*_sql` methods on classes this check does not know: %s" % outcome["unknown"]})
        return out
    V = _oracle(case, outcome)
    spec = case_spec(case)
    if V and case["sty"] in ("named", "pyformat") and not case.get("gen"):
        names = [n for n in pvw_names(spec) if n is not None]
        total = len(names) + len([x for x in walk_leaves(spec, []) if x[0] in VALUE_KINDS])
        autos = {"param%d" % (i + 1) for i in range(total)}
        if autos & set(names):
            # an explicit name equal to one of the collector's automatic names: one dict entry serves two placeholders
            return [{"signature": ["C06", "ParameterValueWrapper", case["sty"], "explicit-name-clash"],
                     "what": "an explicitly named placeholder uses a name the collector also generates (%s): %s"
                             % (sorted(autos & set(names)), V[0]["what"])}]
    return V


def _oracle(case, outcome):
    sty = case["sty"]
    if sty == "inline" or "harness_exc" in outcome:
        return []
    text, params, inline = outcome["text"], outcome["params"], outcome["inline"]
    base = "term" if case["kind"] == "term" else "statement"
    V = []

    def viol(vtype, position, what, msg):
        V.append({"signature": ["C06", vtype, position, what],
                  "what": "%s [class %s] parameterised: %r %r; inline: %r" % (msg, STYLE_CLS[sty], text, [p[1] for p in params], inline)})
        return V
    if text.startswith("!") or inline.startswith("!"):
        if text != inline:
            return viol("exception", base, "outcome-differs", "one rendering raises, the other does not")
        return []
    if not judgeable(case):
        return []
    try:
        P_, I_ = lex(text), lex(inline)
    except LexError:
        return []
    ppos = _positions(P_, base)
    ph_re = PH_RE[sty]
    i = j = 0
    n_auto = 0
    auto_texts, explicit_toks = [], []
    # The inline renderer parenthesises an operand whose TEXT starts with a minus sign ("a"-(-1), -(-1), "a"-(-1*"b")); with a
    # placeholder in front the text does not, so these parentheses are absent from the parameterised text ("a"-?).  They are
    # skipped on the inline side: `guards` holds the inline parenthesis depth at which such a parenthesis was opened, its mate
    # is the ')' that returns to that depth.
    guards, idepth = [], 0

    def consume(k):
        nonlocal j, idepth
        for t in I_[j:j + k]:
            if t[0] == "op" and t[1] == "(":
                idepth += 1
            elif t[0] == "op" and t[1] == ")":
                idepth -= 1
        j += k

    def skip_guard_closes():
        nonlocal j, idepth
        while guards and j < len(I_) and I_[j][0] == "op" and I_[j][1] == ")" and idepth - 1 == guards[-1]:
            guards.pop()
            idepth -= 1
            j += 1

    def value_fits(v, jj):
        lits = literal_tokens(v)
        seg = I_[jj:jj + len(lits)]
        if len(seg) == len(lits) and all(tok_matches(a, b) for a, b in zip(lits, seg)):
            return "ok", len(lits)
        if isinstance(v, str) and jj < len(I_) and I_[jj][0] == "word" and I_[jj][1].lower() == "null" and v == "null":
            return "none", 1
        if isinstance(v, str) and _lex_eq(v, I_, jj):
            return ("number" if _is_number_text(v) else "expr"), _lex_eq(v, I_, jj)
        return None, 0

    def starts_negative(v):
        return (isinstance(v, (int, float, Decimal)) and not isinstance(v, bool) and v < 0) or (isinstance(v, str) and v.startswith("-"))

    while i < len(P_):
        skip_guard_closes()
        tk = P_[i]
        is_style_ph = tk[0] == "ph" and ph_re.fullmatch(tk[1]) is not None
        same_inline = is_style_ph and j < len(I_) and I_[j][0] == "ph" and I_[j][1] == tk[1]
        if is_style_ph:
            pos = ppos[i]
            # which reading fits: a collector placeholder standing for the next collected value, or (when the very same
            # placeholder stands in the inline text) an explicit Parameter
            v, how, adv, guard = None, None, 0, False
            try:
                v = resolve(sty, params, tk[1], n_auto)
                how, adv = value_fits(v, j)
                if how is None and starts_negative(v) and j < len(I_) and I_[j][0] == "op" and I_[j][1] == "(":
                    how, adv = value_fits(v, j + 1)
                    guard = how is not None
                resolved = True
            except (KeyError, IndexError, ValueError):
                resolved = False
            if how is None and same_inline:
                explicit_toks.append((tk[1], pos))
                i += 1
                consume(1)
                continue
            if sty == "numeric" and tk[1] != ":%d" % (n_auto + 1):
                return viol("placeholder", pos, "numbering", "placeholder #%d is %s" % (n_auto + 1, tk[1]))
            if not resolved:
                return viol("placeholder", pos, "unresolved", "placeholder %s (#%d) has no collected value" % (tk[1], n_auto + 1))
            if sty in ("named", "pyformat"):
                # its name maps to the n-th collected value
                if n_auto >= len(params) or params[n_auto][0] != (tk[1][1:] if sty == "named" else tk[1][2:-2]):
                    return viol("placeholder", pos, "order", "placeholder #%d %s is not the key of entry #%d" % (n_auto + 1, tk[1], n_auto + 1))
            auto_texts.append(tk[1])
            n_auto += 1
            if how == "none":
                viol("NoneType", pos, "type-changed", "None is collected as the string 'null' where the inline text has the keyword null")
            elif how == "number":
                viol("numeric-as-text", pos, "type-changed", "a numeric payload is collected as the string %r where the inline text has a number" % v)
            elif how == "expr":
                viol("Term", pos, "expression-collected-as-text",
                     "a wrapped expression is collected as the string %r where the inline text has the expression itself" % v)
            elif how is None:
                return viol(type(v).__name__, pos, "value-differs",
                            "substituting %r for placeholder #%d does not reproduce the inline token(s) %r" % (v, n_auto, [t[1] for t in I_[j:j + 2]]))
            if guard:
                guards.append(idepth)
                consume(1)
            consume(adv)
            i += 1
            continue
        if j >= len(I_) or (tk[0], tk[1]) != (I_[j][0], I_[j][1]):
            return viol("text", ppos[i], "text-differs", "token %r of the parameterised text has no counterpart (inline has %r)"
                        % (tk[1], I_[j][1] if j < len(I_) else None))
        i += 1
        consume(1)
    skip_guard_closes()
    if j != len(I_):
        return viol("text", base, "text-differs", "inline text continues with %r" % (I_[j][1],))
    if n_auto != len(params):
        return viol("count", base, "count-differs", "%d collector placeholders in the text, %d collected values" % (n_auto, len(params)))
    if sty in ("named", "pyformat") and len({k for k, _ in params}) != len(params):
        return viol("placeholder", base, "duplicate-key", "duplicate keys")
    # explicit placeholders that cannot be told from the collector's
    for etxt, epos in explicit_toks:
        if sty in ("qmark", "format") or etxt in auto_texts:
            viol("Parameter", sty, "explicit-placeholder-clash",
                 "an explicit Parameter(%r) is indistinguishable from the collector's placeholders" % etxt)
            break
    if V:
        return V
    # execution
    if case["kind"] == "stmt" and case["dialect"] == "sqlite":
        d = exec_differs(case, sty, text, P_, params, inline)
        if d:
            pos = positional_ints(case["s"])
            if "does not match any column in the result set" in d:
                # ORDER BY of a compound select must repeat a result column: `"a"+1 ... ORDER BY "a"+1` does, `"a"+? ... ORDER BY "a"+?` does not
                viol("expression", "order by", "identity-lost-in-compound-select",
                     "the ORDER BY expression of a set operation equals a result column inline, but not once its literals are placeholders: " + d)
            elif pos:
                # SQL reads a literal integer in ORDER BY / GROUP BY as a select-list position; a bound parameter is a constant
                viol("int", pos[0], "positional-reference", "an integer constant in %s is a column position inline but a constant "
                     "expression when bound: %s" % (pos[0].upper(), d))
            else:
                viol("execution", case["s"][0], "result-differs", d)
    return V


def positional_ints(x, acc=None):
    """clauses (order by / group by) of any SELECT of the statement that hold a bare integer constant"""
    acc = [] if acc is None else acc
    if isinstance(x, dict):
        for t, _ in x.get("orderby", []):
            if t[0] == "vali" and "order by" not in acc:
                acc.append("order by")
        for t in x.get("groupby", []):
            if t[0] == "vali" and "group by" not in acc:
                acc.append("group by")
        for v in x.values():
            positional_ints(v, acc)
    elif isinstance(x, list):
        if x and x[0] == "setop" and len(x) == 7:
            for t, _ in x[4]:
                if t[0] == "vali" and "order by" not in acc:
                    acc.append("order by")
        for v in x:
            positional_ints(v, acc)
    return acc


def _is_number_text(v):
    return re.fullmatch(r"-?(\d+\.\d*|\.\d+|\d+)([eE][+-]?\d+)?", v) is not None


def _lex_eq(v, I_, j):
    """number of inline tokens from position j that spell the SQL text v (0 if they do not)"""
    try:
        ts = lex(v)
    except LexError:
        return 0
    seg = I_[j:j + len(ts)]
    if ts and len(seg) == len(ts) and all((a[0], a[1]) == (b[0], b[1]) for a, b in zip(ts, seg)):
        return len(ts)
    return 0


# ---- SQLite ------------------------------------------------------------------------------------
SEED_ROWS = [(1, 2, 3, "x", 5), (2, 1, 0, "abc", 7), (3, 3, 3, "it's", -1), (7, 10, 1, "v%", 2), (0, -5, 2, "w", 10),
             (10, 1, 1.5, "2020-01-01", 1)]


def fresh_db():
    db = sqlite3.connect(":memory:")
    for tb in TBLS:
        db.execute('CREATE TABLE "%s" ("a", "b", "c", "col", "x1")' % tb)
        db.executemany('INSERT INTO "%s" VALUES (?,?,?,?,?)' % tb, SEED_ROWS)
    return db


def _sqlite_value(tv):
    v = untag(tv)
    return float(v) if isinstance(v, Decimal) else v      # sqlite3 has no Decimal adapter


def to_sqlite(sty, text, toks, params):
    """(text, parameters) in a form sqlite3 accepts; placeholders rewritten token-wise"""
    ph_re = PH_RE[sty]
    if sty == "qmark":
        return text, [_sqlite_value(v) for _, v in params]
    out, last = [], 0
    for k, v, s, e in toks:
        if k == "ph" and ph_re.fullmatch(v):
            out.append(text[last:s])
            out.append({"numeric": lambda: "?" + v[1:], "format": lambda: "?", "named": lambda: v,
                        "pyformat": lambda: ":" + v[2:-2]}[sty]())
            last = e
    out.append(text[last:])
    if sty in ("named", "pyformat"):
        return "".join(out), {k: _sqlite_value(v) for k, v in params}
    return "".join(out), [_sqlite_value(v) for _, v in params]


def _dump(db):
    st = []
    for tb in TBLS:
        st.append(db.execute('SELECT *, typeof("a"), typeof("b"), typeof("c"), typeof("col"), typeof("x1") FROM "%s" ORDER BY rowid' % tb).fetchall())
    return st


def _has_comment_intro(toks):
    """adjacent operator tokens spelling -- or /* (C02/C03 matter: the engine would read a comment)"""
    for a, b in zip(toks, toks[1:]):
        if a[0] == "op" and b[0] == "op" and a[3] == b[2] and (a[1] + b[1]).startswith(("--", "/*")):
            return True
    return any(t[0] == "op" and t[1] == "#" for t in toks)


def exec_differs(case, sty, text, toks, params, inline):
    try:
        if _has_comment_intro(lex(inline)) or _has_comment_intro(toks):
            return None
    except LexError:
        return None
    db1 = fresh_db()
    try:
        cur = db1.execute(inline)
        r1 = cur.fetchall()
    except (sqlite3.Error, OverflowError):
        return None            # the inline text itself is not executable on SQLite: not judged
    d1 = _dump(db1)
    db2 = fresh_db()
    ptext, pvals = to_sqlite(sty, text, toks, params)
    try:
        r2 = db2.execute(ptext, pvals).fetchall()
    except (sqlite3.Error, OverflowError) as e:
        if str(e).startswith(("ambiguous column name", "no such column", "no such table")):
            # name resolution depends on identifiers only, and those are token-identical in both texts (checked above):
            # SQLite prunes `x AND 0` / `x OR 1` with literal constants at parse time, before resolving the names in x,
            # so only the inline text gets away with an unresolvable name.  Not a property of the rendering: not judged.
            return None
        return "inline text executes, (text, parameters) fails: %s" % e
    d2 = _dump(db2)
    sel = case["s"][0] in ("select", "setop")
    ordered = "ORDER BY" in inline or "LIMIT" in inline
    k = (lambda rows: rows) if ordered else (lambda rows: sorted(rows, key=repr))
    if sel and (k(r1) != k(r2) or [[type(x) for x in row] for row in k(r1)] != [[type(x) for x in row] for row in k(r2)]):
        return "result sets differ: inline %r, parameterised %r" % (r1[:5], r2[:5])
    if d1 != d2:
        return "table state differs after execution"
    return None


# ----------------------------------------------------------------------------------------------
# evidence helpers, targeted search
# ----------------------------------------------------------------------------------------------
def nontrivial_key(case):
    if case["kind"] == "vendor":
        return json.dumps([case["cls"], case["stmt"], case["base"], case["features"], case["sty"]]) if case["features"] else None
    if case["kind"] == "inventory":
        return None
    spec = case_spec(case)
    vals = [x for x in walk_leaves(spec, []) if x[0] in VALUE_KINDS]
    if case["sty"] != "inline" and len(vals) >= 2:
        return json.dumps([spec, case["sty"], case.get("c"), case.get("dialect"), bool(case.get("share"))], sort_keys=True)
    return None


def histogram(cases):
    h = {}

    def bump(k, n=1):
        h[k] = h.get(k, 0) + n
    for c in cases:
        bump("class=" + c["sty"])
        if c["kind"] in ("vendor", "inventory"):
            bump("kind=" + c["kind"])
            if c["kind"] == "vendor":
                bump("vendor class=" + c["cls"])
                for f in c["features"]:
                    bump("vendor feature=" + f)
            continue
        if c["kind"] == "term":
            bump("kind=term")
            spec = c["t"]
        else:
            bump("kind=stmt/" + c["s"][0])
            if c.get("share"):
                bump("objects shared")
            bump("dialect=" + c["dialect"])
            spec = c["s"]
        for x in walk_leaves(spec, []):
            bump(x[0])
        txt = json.dumps(spec)
        for tag in ('"q"', '"in"', '"and"', '"wrap"', '"raw"'):
            if '[' + tag in txt:
                bump("has " + tag.strip('"'))
    return h


def targeted_search(rng, broken, mism_cases):
    """all classes on every disagreeing case and on its statement parts; all classes on the corpus shapes; a denser batch"""
    out = []
    for c in mism_cases:
        for sty in STYLE_NAMES:
            d = dict(c)
            d["sty"] = sty
            out.append(d)
            d2 = dict(d)
            d2["share"] = True
            out.append(d2)
        if c["kind"] == "stmt" and c["s"][0] == "select":
            s = c["s"][1]
            for key in ("where", "having"):
                if s.get(key) is not None:
                    for sty in STYLE_NAMES:
                        out.append({"kind": "stmt", "dialect": c["dialect"], "sty": sty,
                                    "s": ["select", _sel([F("a")], **{key: s[key]})]})
    out += corpus()
    out += gen_vendor(rng, "thorough")
    for _ in range(1500):
        sty = rng.choice(STYLE_NAMES)
        if rng.random() < 0.4:
            g = PGen(rng, p_alias=0.1, p_table=0.2, hostile=0.2, p_none=0.0)
            out.append({"kind": "term", "t": rng.choice([g.boolean, g.num])(3), "c": dict(tf.STR_CTX), "sty": sty})
        else:
            out.append({"kind": "stmt", "s": gen_shared(rng, "quick") if rng.random() < 0.4 else gen_stmt(rng, "quick"),
                        "dialect": "sqlite", "sty": sty, "share": True})
    for c in out:
        _normalise_raw(c)
    return out
