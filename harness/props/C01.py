"""C01 — builder calls never change any object that already exists (model: coq/Heap.v, table: coq/gen/C01Table.v)."""
import json
import os

from harness import lib
from harness.lib import S, L, P, B, N

ID = "C01"
COQ_PROP = "props/C01.v"
CORR_REQUIRE = ["Heap", "gen.C01Table", "HeapCorr"]
CORR_CHECK = "check_case"
CORR_SHOW = "show_case"
CORR_PREAMBLE = ["Close Scope string_scope. Close Scope list_scope. Open Scope list_scope. Open Scope string_scope.",
                 "Notation A := IAtom (only parsing). Notation R := IRef (only parsing). Notation K := mkCell (only parsing).",
                 "Notation D := mkD (only parsing). Notation C := mkC (only parsing)."]
GEN_FILES = ["gen/C01Table.v"]
SHARD = 40
SHARD_TIMEOUT = 600
RULE = ("branching call histories on real objects of every builder class (generic + 9 dialect query builders, CREATE/"
        "CREATE INDEX/DROP/LOAD/COPY builders, set operations, Case, aggregate/analytic/window functions, Table, terms, "
        "Joiner), receivers drawn from all live objects, arguments include live tables/sub-queries; a share of histories runs "
        "on immutable=False builders with an immutable twin; a history is non-trivial when some receiver is used at least "
        "twice and at least one in-place effect fired; distinct by the sequence of (receiver, class.method)")
TRUSTED = [
    "harness/c01/extract.py: fail-closed ast recogniser that classifies every attribute write of every @builder method "
    "(rebind / in place / nested / argument write) and reads the __copy__ lists; cross-checked on every run by the histories family",
    "harness/c01/run.py + world.py: executes the history on pypika, reports container identity (`is`) and identity-labelled contents",
    "objects that are not tracked (fields, criteria, join objects, tuples) are treated as immutable atoms identified by identity",
]
ASSUMPTIONS = [
    "rendering (get_sql/__str__) of an object reads only state reachable from it (C09 covers the absence of rendering side effects)",
    "untracked term objects stored inside containers are not mutated by builder calls (their own builder methods are rows of the table)",
    "KNested effects (x.a[-1].b mutated) are over-approximated as writes to the cell of x.a; none exists in the current sources",
]
ALLOWED_AXIOMS = []

_TAB = None


def _table():
    global _TAB
    if _TAB is None:
        from harness.c01 import extract as ex, run
        try:
            raw = ex.build_table(lib.REPO)
        except ex.ExtractError:
            # extract() has already failed closed (table poisoned, proof broken); keep a lenient table so that
            # histories can still be generated and run under the oracle to find the failing input
            raw = ex.build_table(lib.REPO, strict=False)
        _TAB = (raw, run.table_index(raw))
    return _TAB


def extract():
    from harness.c01 import extract as ex
    raw = ex.build_table(lib.REPO)
    return {"gen/C01Table.v": ex.emit_coq(raw)}


# ---- cases -----------------------------------------------------------------------------------
def _call(recv, m, *args, **kw):
    return ["call", recv, m, list(args), dict(kw)]


def _s(v):
    return {"k": "str", "v": v}


def _r(i):
    return {"k": "ref", "i": i}


def _crit(n, t=None):
    f = {"k": "field", "n": n}
    if t is not None:
        f["t"] = _r(t)
    return {"k": "crit", "f": f, "op": "eq", "v": {"k": "int", "v": 1}}


def corpus():
    """witnesses of the known findings, then small regression histories (branching on each repaired class)"""
    cs = []
    # F1 from_(subquery) writes subquery.alias
    cs.append({"steps": [["new", "Table:t1"], ["new", "QueryBuilder"], _call(1, "from_", _r(0)), _call(2, "select", _s("a")),
                         ["new", "QueryBuilder"], _call(4, "from_", _r(3))], "theme": "corpus", "twin": False, "repeats": []})
    # F2 join(subquery) writes subquery.alias
    cs.append({"steps": [["new", "Table:t1"], ["new", "Table:t2"], ["new", "QueryBuilder"], _call(2, "from_", _r(0)),
                         _call(3, "select", _s("a")), ["new", "MySQLQueryBuilder"], _call(5, "from_", _r(1)),
                         _call(6, "select", _s("b")), _call(7, "join", _r(4))], "theme": "corpus", "twin": False, "repeats": []})
    # F3 joining the FROM table again un-aliased renames the caller's Table object (do_join)
    cs.append({"steps": [["new", "Table:t1"], ["new", "QueryBuilder"], _call(1, "from_", _r(0)), _call(2, "select", _s("a")),
                         _call(3, "join", _r(0)), _call(5, "on", _crit("a", 0))], "theme": "corpus", "twin": False, "repeats": []})
    for m, args in (("on_field", [_s("a")]), ("using", [_s("a")]), ("cross", [])):
        cs.append({"steps": [["new", "Table:t1"], ["new", "QueryBuilder"], _call(1, "from_", _r(0)), _call(2, "select", _s("a")),
                             _call(3, "join", _r(0)), _call(5, m, *args)], "theme": "corpus", "twin": False, "repeats": []})
    # F4 one Joiner used twice: both results are the same, mutated, query object
    for m, a1, a2 in (("on", [_crit("a", 1)], [_crit("b", 1)]), ("on_field", [_s("a")], [_s("b")]),
                      ("using", [_s("a")], [_s("b")]), ("cross", [], [])):
        cs.append({"steps": [["new", "Table:t1"], ["new", "Table:t2"], ["new", "QueryBuilder"], _call(2, "from_", _r(0)),
                             _call(3, "select", _s("a")), _call(4, "join", _r(1)), _call(6, m, *a1), _call(6, m, *a2)],
                   "theme": "corpus", "twin": False, "repeats": []})
    # ... and a statement that uses the first result as a sub-query follows it
    for m, a1, a2 in (("on", [_crit("a", 1)], [_crit("b", 1)]), ("on_field", [_s("a")], [_s("b")]),
                      ("using", [_s("a")], [_s("b")]), ("cross", [], [])):
        cs.append({"steps": [["new", "Table:t1"], ["new", "Table:t2"], ["new", "QueryBuilder"], _call(2, "from_", _r(0)),
                             _call(3, "select", _s("a")), _call(4, "join", _r(1)), _call(6, m, *a1),
                             ["new", "QueryBuilder"], _call(7, "from_", _r(5)), _call(8, "select", _s("*")), _call(6, m, *a2)],
                   "theme": "corpus", "twin": False, "repeats": []})
    # both at once: the Joiner's private query was handed out (j.query used as a WITH source) before j.X() renames the table
    for m, a in (("on", [_crit("a", 0)]), ("on_field", [_s("a")]), ("using", [_s("a")]), ("cross", [])):
        cs.append({"steps": [["new", "Table:t3"], ["new", "QueryBuilder"], _call(1, "from_", _r(0)), _call(2, "select", _s("*")),
                             _call(3, "join", _r(0)), _call(3, "with_", _r(4), _s("w")), _call(5, m, *a)],
                   "theme": "corpus", "twin": False, "repeats": []})
    # a sub-query shown in a SELECT list re-renders when from_/join tag it (bystander and receiver)
    sel_sub = [["new", "QueryBuilder"], _call(0, "from_", _s("u")), _call(1, "select", _s("x")),      # 2 = sub
               ["new", "QueryBuilder"], _call(3, "from_", _s("t")), _call(4, "select", _r(2)),          # 5 = q showing sub
               ["new", "QueryBuilder"], _call(6, "from_", _s("v")), _call(7, "select", _s("y"))]        # 8 = other query
    cs.append({"steps": sel_sub + [_call(8, "from_", _r(2))], "theme": "corpus", "twin": False, "repeats": []})
    cs.append({"steps": sel_sub + [_call(5, "from_", _r(2))], "theme": "corpus", "twin": False, "repeats": []})
    cs.append({"steps": sel_sub + [_call(8, "join", _r(2))], "theme": "corpus", "twin": False, "repeats": []})
    cs.append({"steps": sel_sub + [_call(5, "join", _r(2))], "theme": "corpus", "twin": False, "repeats": []})
    # the chained form q.join(x).on(...) as one call: same two argument writes, nothing else
    cs.append({"steps": [["new", "Table:t1"], ["new", "QueryBuilder"], _call(1, "from_", _r(0)), _call(2, "select", _s("a")),
                         ["call", 3, "join>on", [_r(0)], {}, [_crit("a", 0)], {}],
                         ["call", 3, "join>using", [_r(0)], {}, [_s("a")], {}]], "theme": "corpus", "twin": False, "repeats": []})
    cs.append({"steps": [["new", "Table:t1"], ["new", "Table:t2"], ["new", "QueryBuilder"], _call(2, "from_", _r(0)),
                         _call(3, "select", _s("a")), ["new", "QueryBuilder"], _call(5, "from_", _r(1)), _call(6, "select", _s("b")),
                         ["call", 4, "join>on_field", [_r(7)], {}, [_s("a")], {}],
                         ["call", 4, "join>cross", [_r(1)], {}, [], {}], ["call", 4, "join>on", [_r(1)], {}, [_crit("b", 1)], {}]],
               "theme": "corpus", "twin": False, "repeats": []})
    # a criterion object kept by the user and used inside a statement, then negated (negate is a chaining call)
    for kind in ("ContainsCriterion", "ExistsCriterion"):
        cs.append({"steps": [["new", kind], ["new", "QueryBuilder"], _call(1, "from_", _s("t1")), _call(2, "select", _s("a")),
                             _call(3, "where", _r(0)), _call(0, "negate"), _call(0, "negate"), _call(5, "negate")],
                   "theme": "corpus", "twin": False, "repeats": []})
    # FOR UPDATE OF lists, branching (MySQL and PostgreSQL keep them in a list)
    for kind in ("PostgreSQLQueryBuilder", "MySQLQueryBuilder"):
        of = lambda *n: {"k": "tuple", "v": [_s(x) for x in n]}
        cs.append({"steps": [["new", kind], _call(0, "from_", _s("t1")), _call(1, "select", _s("a")),
                             ["call", 2, "for_update", [], {"of": of("t1")}], ["call", 2, "for_update", [], {"of": of("t2", "t3")}],
                             ["call", 3, "for_update", [], {"of": of("t3")}], ["call", 3, "for_update", [], {"nowait": {"k": "bool", "v": True}, "of": of("t1", "t2")}]],
                   "theme": "corpus", "twin": False, "repeats": []})
    # replace_table on a statement with a WITH clause whose query mentions the replaced table (and on a sibling)
    cs.append({"steps": [["new", "Table:t1"], ["new", "Table:t2"], ["new", "Table:t3"],
                         ["new", "QueryBuilder"], _call(3, "from_", _r(0)), _call(4, "select", {"k": "field", "n": "a", "t": _r(0)}),   # 5 = cte body
                         ["new", "QueryBuilder"], _call(6, "from_", _r(1)), _call(7, "select", _s("x")), _call(8, "with_", _r(5), _s("w")),  # 9
                         _call(9, "replace_table", _r(0), _r(2)), _call(9, "where", _crit("x", 1)), _call(9, "replace_table", _r(0), _r(1)),
                         _call(10, "replace_table", _r(2), _r(1))], "theme": "corpus", "twin": False, "repeats": []})
    # argument objects shared between statements (round-3 red team): nothing is written at HEAD in these circumstances
    #  - a sub-query that already carries its automatic name (FROM of another statement) joined into a statement whose own
    #    FROM sub-query has the same automatic name
    shared = [["new", "QueryBuilder"], _call(0, "from_", _s("u")), _call(1, "select", _s("x")),          # 2 = sub
              ["new", "QueryBuilder"], _call(3, "from_", _s("v")), _call(4, "select", _s("y")),          # 5 = active
              ["new", "QueryBuilder"], _call(6, "from_", _r(2)), _call(7, "select", _s("x")),            # 8 = report (sub = sq0)
              ["new", "QueryBuilder"], _call(9, "from_", _r(5)), _call(10, "select", _s("y"))]           # 11 = base (active = sq0)
    cs.append({"steps": shared + [["call", 11, "join>on", [_r(2)], {}, [_crit("y")], {}]], "theme": "corpus", "twin": False, "repeats": []})
    cs.append({"steps": shared + [_call(11, "join", _r(2)), _call(13, "using", _s("x"))], "theme": "corpus", "twin": False, "repeats": []})
    cs.append({"steps": shared + [_call(11, "from_", _r(2))], "theme": "corpus", "twin": False, "repeats": []})
    #  - an un-aliased table that shares only its NAME with the FROM table (other schema / temporal variant)
    for other in (["new", "Table:a.t1"], None):
        pre = [["new", "Table:t1"], other or ["new", "Table:t1"]]
        if other is None:
            pre += [_call(1, "for_", {"k": "system_time", "a": "2020-01-01", "b": None})]       # 2 = t1 FOR SYSTEM_TIME ...
        o = 1 if other else 2
        n = len(pre)
        steps = pre + [["new", "QueryBuilder"], _call(n, "from_", _r(o)), _call(n + 1, "select", _s("id")),      # statement built earlier
                       ["new", "QueryBuilder"], _call(n + 3, "from_", _r(0)), _call(n + 4, "select", _s("id"))]
        for m, a in (("on", [_crit("id", 0)]), ("using", [_s("id")]), ("cross", [])):
            cs.append({"steps": steps + [["call", n + 5, "join>" + m, [_r(o)], {}, a, {}]], "theme": "corpus", "twin": False, "repeats": []})
        cs.append({"steps": steps + [_call(n + 5, "join", _r(o)), _call(n + 7, "on_field", _s("id"))],
                   "theme": "corpus", "twin": False, "repeats": []})
    # each chained form on its own fresh table: the write, the receiver and a bystander query re-render
    for m, a in (("on", [_crit("a", 0)]), ("on_field", [_s("a")]), ("using", [_s("a")]), ("cross", [])):
        cs.append({"steps": [["new", "Table:t1"], ["new", "QueryBuilder"], _call(1, "from_", _r(0)), _call(2, "select", _s("a")),
                             ["new", "QueryBuilder"], _call(4, "from_", _r(0)), _call(5, "select", _s("b")),
                             ["call", 3, "join>" + m, [_r(0)], {}, a, {}]], "theme": "corpus", "twin": False, "repeats": []})
    # regression: branching on every class whose sharing was repaired (C01-fixed-*)
    cs.append({"steps": [["new", "Case"], _call(0, "when", _crit("a"), _s("x")), _call(0, "when", _crit("b"), _s("y")),
                         _call(1, "else_", _s("e")), _call(1, "when", _crit("c"), _s("z"))], "theme": "corpus", "twin": False, "repeats": []})
    cs.append({"steps": [["new", "Table:t1"], ["new", "QueryBuilder"], _call(1, "from_", _r(0)), _call(2, "select", _s("a")),
                         ["new", "QueryBuilder"], _call(4, "from_", _s("t2")), _call(5, "select", _s("b")),
                         _call(3, "union", _r(6)), _call(8, "union", _r(6)), _call(8, "orderby", _s("a")),
                         _call(8, "intersect", _r(3))], "theme": "corpus", "twin": False, "repeats": []})
    cs.append({"steps": [["new", "fn.Sum"], _call(0, "filter", _crit("a")), _call(0, "filter", _crit("b")),
                         ["new", "an.Sum"], _call(3, "over", {"k": "field", "n": "a"}), _call(3, "over", {"k": "field", "n": "b"}),
                         _call(4, "orderby", {"k": "field", "n": "c"}), _call(4, "orderby", {"k": "field", "n": "d"})],
               "theme": "corpus", "twin": False, "repeats": []})
    cs.append({"steps": [["new", "CreateQueryBuilder"], _call(0, "create_table", _s("t")), _call(1, "columns", _s("a")),
                         _call(1, "columns", _s("b")), _call(1, "unique", _s("a")), _call(1, "period_for", _s("p"), _s("a"), _s("b")),
                         ["new", "CreateIndexBuilder"], _call(6, "columns", _s("a")), _call(6, "columns", _s("b"))],
               "theme": "corpus", "twin": False, "repeats": []})
    cs.append({"steps": [["new", "MySQLQueryBuilder"], _call(0, "from_", _s("t")), _call(1, "select", _s("a")),
                         _call(2, "modifier", _s("HIGH_PRIORITY")), _call(2, "modifier", _s("SQL_CALC_FOUND_ROWS")),
                         ["new", "PostgreSQLQueryBuilder"], _call(5, "from_", _s("t")), _call(6, "select", _s("a")),
                         _call(7, "distinct_on", _s("a")), _call(7, "distinct_on", _s("b")), _call(7, "using", _s("u")),
                         _call(7, "using", _s("v")), ["new", "ClickHouseQueryBuilder"], _call(12, "from_", _s("t")),
                         _call(13, "select", _s("a")), _call(14, "distinct_on", _s("a")), _call(14, "distinct_on", _s("b"))],
               "theme": "corpus", "twin": False, "repeats": []})
    cs.append({"steps": [["new", "QueryBuilder"], _call(0, "from_", _s("t")), _call(1, "select", _s("a")),
                         _call(2, "rollup", {"k": "field", "n": "a"}), _call(3, "rollup", {"k": "field", "n": "b"}),
                         _call(3, "rollup", {"k": "field", "n": "c"})], "theme": "corpus", "twin": False, "repeats": []})
    # replace_table on every term class that keeps a list, branching (the receiver and the first result must stay put)
    for kind in ("Tuple", "Array", "Function", "fn.Sum", "an.Sum", "TupleIn", "Rollup"):
        cs.append({"steps": [["new", "Table:t1"], ["new", "Table:t2"], ["new", "Table:t3"], ["new", kind],
                             _call(3, "replace_table", _r(0), _r(2)), _call(3, "replace_table", _r(0), _r(1)),
                             _call(4, "replace_table", _r(2), _r(1))], "theme": "corpus", "twin": False, "repeats": []})
    cs.append({"steps": [["new", "Table:t1"], ["new", "Table:t2"], ["new", "Tuple"], ["new", "QueryBuilder"],
                         _call(3, "from_", _r(0)), _call(4, "select", _r(2)), _call(5, "replace_table", _r(0), _r(1)),
                         _call(5, "replace_table", _r(0), _r(1))], "theme": "corpus", "twin": False, "repeats": []})
    # the undecorated dialect overrides of replace_table (copy obtained from super().replace_table), branching + mutable twin
    def fld(n, t):
        return {"k": "field", "n": n, "t": _r(t)}
    for kind, prep in (("MySQLQueryBuilder", [("into", [_r(0)], {}), ("insert", [{"k": "int", "v": 1}], {}),
                                              ("on_duplicate_key_update", [fld("a", 0), {"k": "int", "v": 2}], {})]),
                       ("PostgreSQLQueryBuilder", [("into", [_r(0)], {}), ("insert", [{"k": "int", "v": 1}], {}),
                                                   ("on_conflict", [fld("a", 0)], {}), ("do_update", [fld("b", 0), {"k": "int", "v": 3}], {}),
                                                   ("returning", [fld("c", 0)], {})]),
                       ("PostgreSQLQueryBuilder", [("from_", [_r(0)], {}), ("select", [fld("a", 0)], {}), ("distinct_on", [fld("b", 0)], {})]),
                       ("ClickHouseQueryBuilder", [("from_", [_r(0)], {}), ("select", [fld("a", 0)], {}), ("distinct_on", [fld("b", 0)], {}),
                                                   ("limit_by", [{"k": "int", "v": 1}, fld("c", 0)], {})])):
        for mut in (False, True):
            steps = [["new", "Table:t1"], ["new", "Table:t2"], ["new", "Table:t3"], ["new", ("mutable:" if mut else "") + kind]]
            cur = 3
            for m_, a_, k_ in prep:
                steps.append(["call", cur, m_, a_, k_])
                if not mut:
                    cur += 1                    # one new object (the copy) per call
            steps += [_call(cur, "replace_table", _r(0), _r(1)), _call(cur, "replace_table", _r(0), _r(2))]
            if not mut:
                steps += [_call(cur + 1, "replace_table", _r(1), _r(2))]
            cs.append({"steps": steps, "theme": "twin" if mut else "corpus", "twin": False, "repeats": []})
    # immutable=False through EVERY public entry point of every query class: the option must arrive, every chaining call must
    # return the one object, and the chain must end in the statement of the immutable twin
    from harness.c01.world import ENTRY_POINTS, QUERY_CLASSES
    for kind in QUERY_CLASSES:
        for ep in ENTRY_POINTS:
            calls = [_call(0, "from_", _s("t5"))] if ep in ("_builder", "select", "with_") else []
            calls += [_call(0, "select", _s("a")) if ep not in ("into", "update") else _call(0, "where", _crit("b")),
                      _call(0, "where", _crit("a")), _call(0, "limit", {"k": "int", "v": 5})]
            cs.append({"steps": [["new", "mutable:%s@%s" % (kind, ep)]] + calls, "theme": "twin", "twin": True, "repeats": []})
        cs.append({"steps": [], "probe": kind, "theme": "probe", "twin": False, "repeats": []})
    # DDL targets: an aliased / FOR-clause Table shared with a SELECT is handed to CREATE TABLE, FOREIGN KEY, CREATE INDEX ON
    # and DROP TABLE (they store a stripped COPY, 70f811c): the caller's Table and the SELECT must stay as they are
    ddl = [["new", "Table:t1"], _call(0, "as_", _s("x")),                                                        # 1 = t1 AS x
           _call(0, "for_", {"k": "system_time", "a": "2020-01-01", "b": None}),                              # 2 = t1 FOR SYSTEM_TIME
           ["new", "QueryBuilder"], _call(3, "from_", _r(1)), _call(4, "select", {"k": "field", "n": "a", "t": _r(1)}),   # 5 uses t1 AS x
           ["new", "QueryBuilder"], _call(6, "from_", _r(2)), _call(7, "select", _s("b"))]                     # 8 uses the FOR table
    for t_ in (1, 2):
        cs.append({"steps": ddl + [["new", "CreateQueryBuilder"], _call(9, "create_table", _r(t_)), _call(10, "columns", _s("a")),
                                   ["call", 11, "foreign_key", [{"k": "list", "v": [_s("a")]}, _r(t_), {"k": "list", "v": [_s("id")]}], {}],
                                   _call(9, "create_table", _r(0))], "theme": "corpus", "twin": False, "repeats": []})
        cs.append({"steps": ddl + [["new", "CreateIndexBuilder"], _call(9, "create_index", _s("ix")), _call(10, "columns", _s("a")),
                                   _call(11, "on", _r(t_)), _call(11, "on", _r(0))], "theme": "corpus", "twin": False, "repeats": []})
        cs.append({"steps": ddl + [["new", "DropQueryBuilder"], _call(9, "drop_table", _r(t_)), _call(9, "drop_table", _r(0)),
                                   ["new", "ClickHouseDropQueryBuilder"], _call(12, "drop_table", _r(t_))],
                   "theme": "corpus", "twin": False, "repeats": []})
    # two immutable=False builders of one class side by side: updating one must not show in the other (class-level state)
    from harness.c01.world import QUERY_CLASSES as _QC
    extra = {"ClickHouseQueryBuilder": [_call(0, "distinct_on", _s("b")), ["call", 0, "limit_by", [{"k": "int", "v": 1}, _s("c")], {}], _call(0, "final")],
             "PostgreSQLQueryBuilder": [_call(0, "distinct_on", _s("b")), _call(0, "returning", _s("*"))],
             "MySQLQueryBuilder": [_call(0, "modifier", _s("HIGH_PRIORITY")), ["call", 0, "for_update", [], {"of": {"k": "tuple", "v": [_s("t1")]}}]],
             "MSSQLQueryBuilder": [_call(0, "top", {"k": "int", "v": 3})], "VerticaQueryBuilder": [_call(0, "hint", _s("h"))]}
    for kind in _QC:
        cs.append({"steps": [["new", "mutable:" + kind], ["new", "mutable:" + kind], ["new", kind],
                             _call(1, "from_", _s("t2")), _call(1, "select", _s("z")),
                             _call(0, "from_", _s("t1")), _call(0, "select", _s("a")), _call(0, "where", _crit("a")),
                             _call(0, "groupby", _s("a")), _call(0, "orderby", _s("a"))] + extra.get(kind, [])
                            + [_call(2, "from_", _s("t3")), _call(1, "limit", {"k": "int", "v": 1})],
                   "theme": "twin", "twin": False, "repeats": []})
    # immutable=False chains with REJECTED calls in the middle: the one object must be left as it was by each of them and
    # the chain must still end in the immutable twin's statement (round-4 red team, C01-15)
    bad_on = {"k": "crit", "f": {"k": "field", "n": "y", "t": _r(3)}, "op": "eq", "v": {"k": "int", "v": 1}}     # names t3: not in the statement
    good_on = {"k": "crit", "f": {"k": "field", "n": "y", "t": _r(2)}, "op": "eq", "v": {"k": "int", "v": 1}}
    for kind in ("QueryBuilder", "MySQLQueryBuilder", "PostgreSQLQueryBuilder", "ClickHouseQueryBuilder", "OracleQueryBuilder"):
        cs.append({"steps": [["new", "mutable:" + kind], ["new", "Table:t1"], ["new", "Table:t2"], ["new", "Table:t3"],
                             _call(0, "select", _s("x")),                                             # QueryException: no FROM yet
                             _call(0, "from_", _r(1)), _call(0, "select", {"k": "field", "n": "a", "t": _r(1)}),
                             ["call", 0, "join>on", [_r(2)], {}, [bad_on], {}],                        # JoinException: foreign table
                             ["call", 0, "join>on", [_r(2)], {}, [{"k": "none"}], {}],                 # JoinException: no criterion
                             ["call", 0, "join>using", [_r(2)], {}, [], {}],                           # JoinException: no fields
                             ["call", 0, "join>on", [_r(1)], {}, [bad_on], {}],                        # rejected self-join
                             _call(0, "delete"),                                                       # AttributeError guard
                             _call(0, "insert", {"k": "int", "v": 1}),                                 # AttributeError guard
                             ["call", 0, "rollup", [], {"vendor": _s("mysql")}],                       # RollupException
                             _call(0, "where", _crit("a", 1)),
                             ["call", 0, "join>on", [_r(2)], {}, [good_on], {}],
                             _call(0, "into", _r(3)), _call(0, "limit", {"k": "int", "v": 3})],
                   "theme": "twin", "twin": True, "repeats": []})
    # immutable=False twin
    cs.append({"steps": [["new", "mutable:QueryBuilder"], ["new", "Table:t1"], _call(0, "from_", _r(1)), _call(0, "select", _s("a")),
                         _call(0, "where", _crit("a", 1)), _call(0, "groupby", _s("a")), _call(0, "orderby", _s("a"))],
               "theme": "twin", "twin": True})
    return cs


def gen_cases(rng, tier):
    from harness.c01 import gen
    _, tab = _table()
    n = 220 if tier == "quick" else 2500
    out = []
    for _ in range(n):
        theme = gen.pick_theme(rng)
        ncalls = rng.choice([3, 5, 8, 10, 12] if tier == "quick" else [5, 10, 15, 20, 30])
        out.append(gen.gen_history(rng, tab, theme, ncalls))
    return out


# ---- implementation --------------------------------------------------------------------------
def _twin_run(case, recs, UA):
    """re-run a history whose object 0 is an immutable=False builder on an ordinary (immutable) builder, threading the
    receiver; returns per-step renderings of the immutable chain (None from the point where the two runs stop being
    "the same calls": after a call that raised, or when a call involves another holder of the mutable object)"""
    from harness.c01 import world, run
    steps = case["steps"]
    mapB = {}

    class View:
        pass
    outB = []
    prev_joiner = None
    for st, rec in zip(steps, recs):
        if rec["kind"] == "skip":
            outB.append(None)
            continue
        if st[0] == "new":
            mapB[rec["idx"]] = world.factory(world.strip_immutable(st[1]))
            outB.append(world.render(mapB.get(0)) if 0 in mapB else None)
            continue
        recv, m, aspecs, kspecs = st[1], st[2], st[3], st[4]
        aspecs2, kspecs2 = (st[5], st[6]) if len(st) > 5 else ([], {})
        involved = [i for _, i in rec["args"]] + ([recv] if recv != 0 and recv != prev_joiner else [])
        if recv not in mapB or any(run.reaches_mutable(UA.objs[i]) for i in involved if UA.objs[i] is not None):
            break
        view = View()
        top = max(list(mapB) + [0]) + 1
        view.objs = [mapB.get(i) for i in range(top)]
        try:
            args = [world.build_arg(s, view) for s in aspecs]
            kwargs = {k: world.build_arg(s, view) for k, s in kspecs.items()}
            args2 = [world.build_arg(s, view) for s in aspecs2]
            kwargs2 = {k: world.build_arg(s, view) for k, s in kspecs2.items()}
        except Exception:  # noqa
            break
        try:
            if ">" in m:
                m1, m2 = m.split(">")
                res = getattr(getattr(mapB[recv], m1)(*args, **kwargs), m2)(*args2, **kwargs2)
            else:
                res = getattr(mapB[recv], m)(*args, **kwargs)
            exc = None
        except Exception as e:  # noqa
            res, exc = None, type(e).__name__
        if exc is not None or rec["exc"] is not None:
            if exc != rec["exc"]:
                outB.append("!exception differs: immutable %r, mutable %r" % (exc, rec["exc"]))
                break
            if not rec.get("rejection"):
                break      # a crash on ill-typed input (IndexError, TypeError ...) ends the comparable part of the chain
            # a call REJECTED by pypika: in the immutable run the copy is discarded, i.e. the call did not happen; the one
            # mutable object has to be left as it was, and the two chains go on
            outB.append(world.render(mapB[0]))
            continue
        if rec["ret"] == 0 or (recv == 0 and rec["ret_cls"] == rec["recv_cls"]):
            mapB[0] = res          # the chain: in mutable mode every call on the one object is supposed to return it
        else:
            mapB[rec["ret"]] = res
        prev_joiner = rec["ret"] if rec["ret_cls"] == "queries.Joiner" and recv == 0 else None
        outB.append(world.render(mapB[0]))
    return outB + [None] * (len(steps) - len(outB))


def _probe(kind):
    """constructor options through every entry point: what was asked for vs what the builder holds"""
    from harness.c01 import world
    out = []
    for opt, val in (("immutable", False), ("as_keyword", True), ("wrap_set_operation_queries", False)):
        for ep in world.ENTRY_POINTS:
            try:
                o = world.query_entry(kind, ep, {opt: val})
                got = repr(vars(o).get(opt, "<missing>"))
            except Exception as e:  # noqa  (ClickHouse fixes as_keyword/wrap itself: TypeError, nothing to compare)
                got = "!" + type(e).__name__
            out.append([world.QUERY_CLASSES[kind], ep, opt, repr(val), got])
    return out


def run_impl(case):
    from harness.c01 import run, world
    if case.get("probe"):
        return {"steps": [], "probe": _probe(case["probe"])}
    _, tab = _table()
    r = run.Runner(tab)
    rendA = []
    for st in case["steps"]:
        r.step(st)
        rendA.append(world.render(r.U.objs[0]) if r.U.objs and r.U.objs[0] is not None else None)
    out = {"steps": r.records}
    if case.get("twin"):
        out["twin"] = {"mutable": rendA, "immutable": _twin_run(case, r.records, r.U)}
    return out


# ---- model side ------------------------------------------------------------------------------
def _items(items):
    return L([("A " + S(v)) if k == "a" else ("R %d" % v) for k, v in items])


def _cell(cont, items):
    return "(K %s %s)" % (B(cont), _items(items))


def _delta(delta):
    return L(["D %d %s %s %s" % (o, S(a), "None" if pid is None else "(Some %d)" % pid, _cell(cont, items))
              for o, a, pid, cont, items in delta])


def to_coq(case, outcome):
    if "harness_exc" in outcome:
        raise RuntimeError(outcome["harness_exc"])
    if case.get("probe"):
        return None             # constructor-option probe: oracle only
    cs = []
    for rec in outcome["steps"]:
        if rec["kind"] in ("skip", "untabled"):
            continue
        if rec["kind"] == "new":
            st = "(SNew %s %s)" % (S(rec["cls"]), L([P(S(a), _cell(c, it)) for a, c, it in rec["attrs"]]))
            cs.append("C %s false %d %s" % (st, rec["idx"], _delta(rec["delta"])))
        else:
            st = "(SCall %d %s %s %s %s)" % (
                rec["recv"], S(rec["m"]), L([P(S(p), "R %d" % i) for p, i in rec["args"]]),
                L([P(B(f), _cell(c, it)) for f, c, it in rec["chs"]]),
                L([P(S(a), _cell(c, it)) for a, c, it in rec["wrap"]]))
            cs.append("C %s %s %d %s" % (st, B(rec["exc"] is not None), rec["ret"], _delta(rec["delta"])))
    return L(cs)


# ---- oracle: the property's observable on the implementation, independent of the model -----------
def oracle(case, outcome):
    if "harness_exc" in outcome:
        return [{"signature": ["C01", "harness", "crash"], "what": outcome["harness_exc"]}]
    out = []
    for qn, ep, opt, want, got in outcome.get("probe", []):
        if got != want and not got.startswith("!"):
            out.append({"signature": ["C01", "%s.%s" % (qn, ep), "mutable-mode" if opt == "immutable" else "constructor-option", opt],
                        "what": "%s.%s(..., %s=%s) returns a builder whose %s is %s: the option does not survive this entry point"
                                % (qn, ep, opt, want, opt, got)})
    for k, rec in enumerate(outcome["steps"]):
        if rec["kind"] == "new" and rec.get("requested", {}).get("immutable") is False and rec["observed"].get("immutable") != "False":
            out.append({"signature": ["C01", "%s.%s" % (rec["pyclass"], rec["entry"]), "mutable-mode", "option-dropped"],
                        "what": "step %d: %s constructed with immutable=False holds immutable=%s"
                                % (k, rec["factory"], rec["observed"].get("immutable"))})
        if rec["kind"] == "untabled":
            for ch in rec["changes"]:
                out.append({"signature": ["C01", rec["qualname"], ch["role"], ch["what"]],
                            "what": "step %d: %s(...) (no @builder row in this tree) on object %d changed the %s of live object %s (%s): %s -> %s"
                                    % (k, rec["qualname"], rec["recv"], ch["what"], ch["obj"], ch["cls"], ch["before"], ch["after"])})
            continue
        if rec["kind"] != "call":
            continue
        akinds = [ch.get("akind", "alias") for ch in rec["changes"] if ch["what"] == "alias"]
        alias_written = bool(akinds)
        # the documented alias writes give an un-named object its automatic name; a write that overwrites a name, or that
        # renames a table which is not a row source of the statement, is a different defect (and so are its consequences)
        worst = "alias-overwritten" if "alias-overwritten" in akinds else (
            "alias-other-table" if "alias-other-table" in akinds else "alias")
        returned_changed = any(ch["role"] == "returned-object" for ch in rec["changes"])
        for ch in rec["changes"]:
            what = ch["what"]
            if what == "alias":
                what = ch.get("akind", "alias")
            elif what == "sql" and alias_written:
                what = "sql-via-" + worst               # consequence of an alias write reported for the same call
            elif what == "sql" and returned_changed and ch["role"] != "returned-object":
                what = "sql-via-returned-object"        # consequence of mutating the object that was returned before
            out.append({"signature": ["C01", rec["qualname"], ch["role"], what],
                        "what": "step %d: %s(...) on object %d changed the %s of live object %s (%s, %s): %s -> %s"
                                % (k, rec["qualname"], rec["recv"], ch["what"], ch["obj"], ch["cls"], ch["role"],
                                   ch["before"], ch["after"])})
        if rec.get("mutable_recv") and rec["exc"] is None and rec["same_obj"] is False and rec["ret_cls"] == rec["recv_cls"]:
            out.append({"signature": ["C01", rec["qualname"], "mutable-mode", "returns-new-object"],
                        "what": "step %d: with immutable=False %s returned a different object" % (k, rec["qualname"])})
    # branches never see each other: the same call on the same base gives the same statement whatever was derived in between
    steps = outcome["steps"]
    for i, j in case.get("repeats", []):
        if not (i < j < len(steps)):
            continue
        a, b = steps[i], steps[j]
        if a["kind"] != "call" or b["kind"] != "call" or a.get("mutable_recv") or b.get("mutable_recv"):
            continue
        if any(ch["what"] == "alias" for r_ in steps[i:j + 1] if r_["kind"] == "call" for ch in r_["changes"]):
            continue            # an argument's alias was written in between (reported on its own)
        if any(ch["role"] == "returned-object" for r_ in steps[i:j + 1] if r_["kind"] == "call" for ch in r_["changes"]):
            continue            # a Joiner was reused in between (reported on its own)
        if a.get("res_render") != b.get("res_render") and a.get("res_render") is not None and b.get("res_render") is not None:
            out.append({"signature": ["C01", b["qualname"], "branch", "sibling-visible"],
                        "what": "step %d repeats step %d (%s on object %d, same arguments) but yields %r instead of %r: "
                                "calls made on the base in between are visible" % (j, i, b["qualname"], b["recv"],
                                                                                   b.get("res_render"), a.get("res_render"))})
    tw = outcome.get("twin")
    if tw:
        # a rejected call leaves the one mutable object exactly as it was
        for k, rec in enumerate(outcome["steps"]):
            if rec["kind"] == "call" and rec.get("mutable_recv") and rec.get("rejection") and rec["recv"] == 0 and k > 0 \
                    and tw["mutable"][k - 1] is not None and tw["mutable"][k] != tw["mutable"][k - 1]:
                out.append({"signature": ["C01", rec["qualname"], "mutable-mode", "rejected-call-changed-object"],
                            "what": "step %d: %s raised %s on the immutable=False builder but left it changed: %r -> %r "
                                    "(on an immutable builder the rejected call leaves everything as it was)"
                                    % (k, rec["qualname"], rec["exc"], tw["mutable"][k - 1], tw["mutable"][k])})
    if tw and tw.get("immutable") is not None:
        for k, (a, b) in enumerate(zip(tw["mutable"], tw["immutable"])):
            rec = outcome["steps"][k]
            if rec["kind"] != "call" or a is None or b is None:
                continue
            if a != b:
                out.append({"signature": ["C01", rec["qualname"], "mutable-mode", "statement"],
                            "what": "step %d: immutable=False chain renders %r, the same calls on an immutable builder render %r"
                                    % (k, a, b)})
                break
    return out


# ---- evidence --------------------------------------------------------------------------------
def nontrivial_key(case):
    recvs, seen_twice = {}, False
    for st in case["steps"]:
        if st[0] == "call":
            recvs[st[1]] = recvs.get(st[1], 0) + 1
            if recvs[st[1]] >= 2:
                seen_twice = True
    ncalls = sum(1 for st in case["steps"] if st[0] == "call")
    if seen_twice and ncalls >= 3:
        return json.dumps([[st[1], st[2]] if st[0] == "call" else st[1] for st in case["steps"]])
    return None


def histogram(cases):
    h = {}
    for c in cases:
        h["theme=" + c.get("theme", "?")] = h.get("theme=" + c.get("theme", "?"), 0) + 1
        for st in c["steps"]:
            k = "new" if st[0] == "new" else "call." + st[2]
            h[k] = h.get(k, 0) + 1
    return h


def targeted_search(rng, broken, mism_cases):
    """When the table/proof or the correspondence broke: for every (class, method) row of the CURRENT table that is unsafe
    beyond the known findings, and for every disagreeing history, run dense branching histories on the classes involved."""
    from harness.c01 import gen
    raw, tab = _table()
    out = []
    themes = ["query", "setop", "create", "createindex", "drop", "case", "function", "table", "terms", "joiner", "mixed", "twin"]
    for c in mism_cases:
        st = c["steps"]
        for cut in range(2, len(st) + 1):
            out.append({"steps": st[:cut], "theme": c.get("theme", "?"), "twin": c.get("twin", False)})
            if len(out) > 300:
                break
    for t in themes:
        for _ in range(120):
            out.append(gen.gen_history(rng, tab, t, rng.choice([6, 10, 14])))
    # zero-argument and single-method double calls on every builder class: b.m(); b.m(); compare
    for kind in ["QueryBuilder", "MySQLQueryBuilder", "PostgreSQLQueryBuilder", "ClickHouseQueryBuilder", "MSSQLQueryBuilder",
                 "OracleQueryBuilder", "VerticaQueryBuilder", "SQLLiteQueryBuilder", "SnowflakeQueryBuilder", "RedShiftQueryBuilder"]:
        for _ in range(20):
            out.append(gen.gen_history(rng, tab, "query", 12))
    return out
