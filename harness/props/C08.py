"""C08 — clause placement does not depend on the order of builder calls (model: coq/Builder.v).

A case is a statement prefix (from_/into/update ..., fixing the target) plus a multiset of clause-adding calls.
* correspondence: the calls are executed on pypika in several orders (kind-preserving interleavings and a few
  arbitrary shuffles); for each order the exception class or a dump of every clause slot of the final builder is
  compared with the model's (coq/BuilderCorr.v: check_case).
* oracle (= observe_at): str(query) for every kind-preserving interleaving must be one text; the text must list its
  clauses in the canonical SQL order.
* extract(): the ordered (condition, clause) pairs of QueryBuilder.get_sql / _apply_pagination, read by ast.
"""
import ast
import itertools
import json
import math
import os
import random

from harness.lib import S, OS, Zc, B, N, L, O, P
from harness import lib

ID = "C08"
COQ_PROP = "props/C08.v"
CORR_REQUIRE = ["Builder", "BuilderCorr"]
CORR_CHECK = "check_case"
CORR_SHOW = "show_case"
GEN_FILES = ["gen/C08Table.v"]
SHARD = 60
RULE = ("random statement prefixes (SELECT with 1-3 FROM items incl. sub-queries, UPDATE [FROM], INSERT [.. SELECT], "
        "SELECT..INTO) on all ten dialect classes, followed by a random multiset of 2-8 clause-adding calls of the 17 "
        "kinds (arguments: fields of present/foreign/aliased/same-named tables, WITH names, sub-queries, strings, "
        "constants, stars; string arguments of select/groupby/orderby that coincide with selected aliases or not, in joined / "
        "multi-FROM / plain statements) plus a malformed stream (no FROM, on(None), using(), invalid join criteria, columns without "
        "into, empty criteria); executed in several orders; non-trivial = at least two different kinds and at least one "
        "call that reads call-time state (select/groupby/orderby by name, where/prewhere, join, columns/insert); "
        "distinct by structural hash of prefix+calls")
TRUSTED = [
    "harness/props/C08.py builds the same calls on pypika objects and as Gallina values; an argument object is an "
    "opaque term identified by its position, with its observable facts (tables of its fields, .table, Star/Empty) read "
    "from the pypika object; a fresh object is built per use site (no aliasing between calls)",
    "dump_state (Python) and BuilderCorr.dump (Coq) print the same slots in the same format",
]
ASSUMPTIONS = [
    "value-level model: no aliasing between arguments of different calls (the same Table object is not passed twice); "
    "un-aliased sub-queries are referenced only by the call that adds them",
    "tables without schema; sub-queries with equal alias have equal hash (same FROM)",
    "not modelled (oracle only): on_field joins, PostgreSQL on_conflict/returning, slice/__getitem__, set operations, delete, "
    "replace_table, MySQL on_duplicate_key_*",
]
ALLOWED_AXIOMS = []

CLASSES = ["Query", "MySQLQuery", "VerticaQuery", "OracleQuery", "PostgreSQLQuery", "RedshiftQuery", "MSSQLQuery",
           "ClickHouseQuery", "SQLLiteQuery", "SnowflakeQuery"]
FU_ARGS = ("MySQLQuery", "PostgreSQLQuery")

KIND = {"from": "from", "into": "into", "update": "update", "select": "select", "join": "join", "where": "where",
        "prewhere": "prewhere", "groupby": "groupby", "rollup": "groupby", "having": "having", "orderby": "orderby",
        "limit": "limit", "offset": "offset", "distinct": "distinct", "for_update": "for_update", "with": "with",
        "force_index": "force_index", "use_index": "use_index", "set": "set", "columns": "columns",
        "insert": "insert", "insert_or_replace": "insert", "hint": "hint", "modifier": "modifier", "final": "final",
        "sample": "sample", "limit_by": "limit_by", "distinct_on": "distinct_on", "top": "top", "fetch_next": "limit"}
# dialect-specific clause calls and the classes that have them
ONLY_ON = {"hint": ("VerticaQuery",), "modifier": ("MySQLQuery",), "final": ("ClickHouseQuery",),
           "sample": ("ClickHouseQuery",), "limit_by": ("ClickHouseQuery",),
           "distinct_on": ("ClickHouseQuery", "PostgreSQLQuery"), "insert_or_replace": ("SQLLiteQuery",),
           "top": ("MSSQLQuery",), "fetch_next": ("MSSQLQuery", "OracleQuery")}
TARGET_KINDS = ("from", "into", "update")


def kind(call):
    return KIND[call[0]]


# ==============================================================================================
# building pypika objects from specs (fresh objects on every run)
# ==============================================================================================
class Reg:
    """identity registry: argument objects -> '#<call position>.<n>', sub-query objects -> spec id"""

    def __init__(self):
        self.args, self.subs, self.keep = {}, {}, []

    def arg(self, obj, key):
        self.args[id(obj)] = "#" + key
        self.keep.append(obj)
        return obj

    def sub(self, obj, sid):
        self.subs[id(obj)] = sid
        self.keep.append(obj)
        return obj


def mk_sub(sid, alias, reg):
    from pypika import Query
    if sid.startswith("n"):      # nested: its own _subquery_count is 1
        q = Query.from_(Query.from_("s").select("a")).select("a")
    else:
        q = Query.from_("s").select("a", "c" + sid)
    if alias is not None:
        q = q.as_(alias)
    return reg.sub(q, sid)


def mk_tbl(spec, reg):
    from pypika import Table, AliasedQuery
    if spec is None:
        return None
    if spec[0] == "T":
        t = Table(spec[1])
        return t.as_(spec[2]) if spec[2] is not None else t
    if spec[0] == "W":
        return AliasedQuery(spec[1])
    if spec[0] == "Q":
        return mk_sub(spec[2], spec[1], reg)
    raise ValueError(spec)


def mk_field(fs, reg, shared=None):
    """fs = [name, tblspec|None]; `shared` = (tblspec, object): reuse the join item object inside its own criterion"""
    from pypika import Field
    if fs[1] is None:
        return Field(fs[0])
    if shared is not None and shared[0] == fs[1]:
        return Field(fs[0], table=shared[1])
    return Field(fs[0], table=mk_tbl(fs[1], reg))


def mk_crit(cs, reg, shared=None):
    from pypika import EmptyCriterion
    k = cs[0]
    if k == "empty":
        return EmptyCriterion()
    if k == "cmp":
        a = mk_field(cs[2], reg, shared)
        b = mk_field(cs[3], reg, shared) if isinstance(cs[3], list) else cs[3]
        return {"eq": a == b, "gt": a > b, "lt": a < b, "ne": a != b}[cs[1]]
    if k == "isnull":
        return mk_field(cs[1], reg, shared).isnull()
    if k == "and":
        return mk_crit(cs[1], reg, shared) & mk_crit(cs[2], reg, shared)
    if k == "or":
        return mk_crit(cs[1], reg, shared) | mk_crit(cs[2], reg, shared)
    raise ValueError(cs)


def mk_term(ts, reg):
    from pypika import functions as fn
    from pypika.terms import Star
    k = ts[0]
    if k == "field":
        f = mk_field(ts[1], reg)
        return f.as_(ts[2]) if len(ts) > 2 and ts[2] else f
    if k == "star":
        return Star(mk_tbl(ts[1], reg))
    if k == "fn":
        f = getattr(fn, ts[1])(mk_field(ts[2], reg))
        return f.as_(ts[3]) if len(ts) > 3 and ts[3] else f
    if k == "arith":
        return mk_field(ts[1], reg) + ts[2]
    if k == "const":
        return ts[1]
    raise ValueError(ts)


def how_of(name):
    from pypika import JoinType
    return getattr(JoinType, name)


def order_of(name):
    from pypika import Order
    return None if name is None else getattr(Order, name)


class Built:
    """the Python arguments of one call, built from its spec; `terms` lists (key, object) of registered arguments"""
    pass


def apply_call(q, call, pos, reg, cls_name):
    """execute one call spec on builder q; returns the new builder (raises pypika's exceptions)"""
    k = call[0]
    key = "c%d" % pos
    if k == "from":
        return q.from_(mk_tbl(call[1], reg))
    if k == "into":
        return q.into(mk_tbl(call[1], reg))
    if k == "update":
        return q.update(mk_tbl(call[1], reg))
    if k == "select":
        args = []
        for n, it in enumerate(call[1]):
            if it[0] == "s":
                args.append(it[1])
            elif it[0] == "f":
                args.append(reg.arg(mk_term(it[1], reg), "%s.%d" % (key, n)))
            else:
                t = mk_term(it[1], reg)
                args.append(t if it[1][0] == "const" else reg.arg(t, "%s.%d" % (key, n)))
        return q.select(*args)
    if k == "join":
        item = mk_tbl(call[1], reg)
        j = q.join(item, how_of(call[2]))
        sp = call[3]
        if sp[0] == "on":
            crit = reg.arg(mk_crit(sp[1], reg, shared=(call[1], item)), key + ".0")
            return j.on(crit, collate=sp[2]) if sp[2] else j.on(crit)
        if sp[0] == "on_none":
            return j.on(None)
        if sp[0] == "using":
            return j.using(*sp[1])
        if sp[0] == "on_field":
            return j.on_field(*sp[1])
        if sp[0] == "cross":
            return j.cross()
        raise ValueError(sp)
    if k in ("where", "prewhere", "having"):
        c = reg.arg(mk_crit(call[1], reg), key + ".0")
        return getattr(q, k)(c)
    if k == "groupby":
        args = []
        for n, it in enumerate(call[1]):
            args.append(it[1] if it[0] in ("s", "i") else reg.arg(mk_term(it[1], reg), "%s.%d" % (key, n)))
        return q.groupby(*args)
    if k == "rollup":
        args = [reg.arg(mk_term(t, reg), "%s.%d" % (key, n)) for n, t in enumerate(call[2])]
        return q.rollup(*args, vendor="mysql") if call[1] else q.rollup(*args)
    if k == "orderby":
        args = []
        for n, it in enumerate(call[1]):
            args.append(it[1] if it[0] == "s" else reg.arg(mk_term(it[1], reg), "%s.%d" % (key, n)))
        return q.orderby(*args, order=order_of(call[2])) if call[2] else q.orderby(*args)
    if k == "limit":
        return q.limit(call[1])
    if k == "offset":
        return q.offset(call[1])
    if k == "distinct":
        return q.distinct()
    if k == "for_update":
        if cls_name in FU_ARGS:
            return q.for_update(nowait=call[1], skip_locked=call[2], of=tuple(call[3]))
        return q.for_update()
    if k == "with":
        return q.with_(reg.arg(mk_sub(call[2], None, reg), key + ".0"), call[1])
    if k == "force_index":
        return q.force_index(*call[1])
    if k == "use_index":
        return q.use_index(*call[1])
    if k == "set":
        return q.set(call[1], call[2])
    if k == "columns":
        args = []
        for n, it in enumerate(call[1]):
            args.append(it[1] if it[0] == "s" else reg.arg(mk_term(it[1], reg), "%s.%d" % (key, n)))
        return q.columns(*args)
    if k == "insert":
        rows = [tuple(r) for r in call[2]]
        if call[1]:
            return q.replace(*rows)
        return q.insert(*rows)
    if k == "top":
        return q.top(call[1][1], percent=call[2], with_ties=call[3])
    if k == "fetch_next":
        import warnings
        with warnings.catch_warnings():
            warnings.simplefilter("ignore")
            return q.fetch_next(call[1])
    if k == "insert_or_replace":
        return q.insert_or_replace(*[tuple(r) for r in call[1]])
    if k == "hint":
        return q.hint(call[1])
    if k == "modifier":
        return q.modifier(call[1])
    if k == "final":
        return q.final()
    if k == "sample":
        return q.sample(call[1], call[2]) if call[2] is not None else q.sample(call[1])
    if k in ("limit_by", "distinct_on"):
        args = []
        items = call[3] if k == "limit_by" else call[1]
        for n, it in enumerate(items):
            args.append(it[1] if it[0] == "s" else reg.arg(mk_term(it[1], reg), "%s.%d" % (key, n)))
        if k == "distinct_on":
            return q.distinct_on(*args)
        return q.limit_by(call[1], *args) if call[2] is None else q.limit_offset_by(call[1], call[2], *args)
    raise ValueError(call)


def new_builder(cls_name):
    import pypika
    import pypika.dialects as d
    cls = getattr(pypika, cls_name, None) or getattr(d, cls_name)
    return cls._builder()


def all_calls(case):
    return list(case["prefix"]) + list(case["calls"])


def run_order(case, order, want="text"):
    """run prefix+calls in the given order of positions; returns the text / state dump or '!ExceptionClass'"""
    calls = all_calls(case)
    reg = Reg()
    try:
        q = new_builder(case["cls"])
        for pos in order:
            q = apply_call(q, calls[pos], pos, reg, case["cls"])
        if want == "dump":
            return dump_state(q, reg)
        return str(q)
    except Exception as e:  # noqa
        return "!" + type(e).__name__


# ==============================================================================================
# state dump (format shared with coq/BuilderCorr.v)
# ==============================================================================================
def d_ostr(s):
    return "~" if s is None else str(s)


def desc_tbl(t, reg):
    from pypika import Table, AliasedQuery
    from pypika.queries import QueryBuilder
    if t is None:
        return "None"
    if isinstance(t, Table):
        return "T(%s,%s)" % (t._table_name, d_ostr(t.alias))
    if isinstance(t, AliasedQuery):
        return "W(%s)" % t.name
    if isinstance(t, QueryBuilder):
        return "Q(%s#%s)" % (d_ostr(t.alias), reg.subs.get(id(t), "?"))
    return "?" + type(t).__name__


def desc_term(x, reg):
    from pypika.terms import Field, Star, ComplexCriterion, ValueWrapper, Rollup, Index
    from pypika.enums import Boolean
    if x is None:
        return "None"
    if id(x) in reg.args:
        return reg.args[id(x)]
    if type(x) is Star:
        return "S(*|%s)" % desc_tbl(x.table, reg)
    if type(x) is Field:
        return "F(%s|%s)" % (x.name, desc_tbl(x.table, reg))
    if type(x) is ComplexCriterion and x.comparator == Boolean.and_:
        return "AND(%s,%s)" % (desc_term(x.left, reg), desc_term(x.right, reg))
    if isinstance(x, ValueWrapper):
        return "V(%r)" % (x.value,)
    if type(x) is Rollup:
        return "ROLLUP(%s)" % ",".join(desc_term(a, reg) for a in x.args)
    if type(x) is Index:
        return x.name
    return "?" + type(x).__name__


def d_list(xs):
    return "[" + ";".join(xs) + "]"


def desc_join(j, reg):
    from pypika.queries import JoinOn, JoinUsing
    if isinstance(j, JoinOn):
        return "ON(%s|%s|%s|%s)" % (desc_tbl(j.item, reg), j.how.name, desc_term(j.criterion, reg), d_ostr(j.collate))
    if isinstance(j, JoinUsing):
        return "USING(%s|%s|%s)" % (desc_tbl(j.item, reg), j.how.name, ",".join(f.name for f in j.fields))
    return "CROSS(%s)" % desc_tbl(j.item, reg) if j.how.name == "cross" else "?JOIN"


def dump_state(q, reg):
    v = vars(q)
    T = lambda x: desc_term(x, reg)   # noqa
    lines = [
        "from=" + d_list(desc_tbl(t, reg) for t in v["_from"]),
        "insert_table=" + desc_tbl(v["_insert_table"], reg),
        "update_table=" + desc_tbl(v["_update_table"], reg),
        "with=" + d_list("%s=%s" % (w.name, T(w.query)) for w in v["_with"]),
        "selects=" + d_list(T(t) for t in v["_selects"]),
        "select_star=%s" % v["_select_star"],
        "select_star_tables=" + d_list(sorted((desc_tbl(t, reg) for t in v["_select_star_tables"]),
                                              key=lambda s: s.encode())),
        "joins=" + d_list(desc_join(j, reg) for j in v["_joins"]),
        "wheres=" + T(v["_wheres"]),
        "prewheres=" + T(v["_prewheres"]),
        "havings=" + T(v["_havings"]),
        "groupbys=" + d_list(T(t) for t in v["_groupbys"]),
        "orderbys=" + d_list("%s:%s" % (T(t), d_ostr(o.name if o is not None else None)) for t, o in v["_orderbys"]),
        "limit=%s" % (v["_limit"],),
        "offset=%s" % (v["_offset"],),
        "distinct=%s" % v["_distinct"],
        "for_update=%s" % v["_for_update"],
        "for_update_nowait=%s" % v.get("_for_update_nowait", False),
        "for_update_skip_locked=%s" % v.get("_for_update_skip_locked", False),
        "for_update_of=" + d_list(v.get("_for_update_of", [])),
        "force_indexes=" + d_list(T(t) for t in v["_force_indexes"]),
        "use_indexes=" + d_list(T(t) for t in v["_use_indexes"]),
        "updates=" + d_list("%s=%s" % (T(f), T(x)) for f, x in v["_updates"]),
        "columns=" + d_list(T(t) for t in v["_columns"]),
        "values=" + d_list(d_list(T(t) for t in row) for row in v["_values"]),
        "replace=%s" % v["_replace"],
        "select_into=%s" % v["_select_into"],
        "subquery_count=%s" % v["_subquery_count"],
        "foreign_table=%s" % v["_foreign_table"],
        "mysql_rollup=%s" % v["_mysql_rollup"],
        "hint=" + d_ostr(v.get("_hint")),
        "modifiers=" + d_list(v.get("_modifiers", [])),
        "final=%s" % v.get("_final", False),
        "sample=%s" % (v.get("_sample"),),
        "sample_offset=%s" % (v.get("_sample_offset"),),
        "limit_by=" + ("None" if not v.get("_limit_by") else
                       "%s,%s,%s" % (v["_limit_by"][0], v["_limit_by"][1], d_list(T(t) for t in v["_limit_by"][2]))),
        "distinct_on=" + d_list(T(t) for t in v.get("_distinct_on", [])),
        "insert_or_replace=%s" % v.get("_insert_or_replace", False),
        "top=%s" % (v.get("_top"),),
        "top_percent=%s" % v.get("_top_percent", False),
        "top_with_ties=%s" % v.get("_top_with_ties", False),
    ]
    return " ; ".join(lines)


# ==============================================================================================
# interleavings
# ==============================================================================================
def n_interleavings(kinds):
    n = math.factorial(len(kinds))
    for k in set(kinds):
        n //= math.factorial(kinds.count(k))
    return n


def interleavings(kinds):
    """all orders of positions 0..n-1 that keep the relative order of equal kinds"""
    queues = {}
    for i, k in enumerate(kinds):
        queues.setdefault(k, []).append(i)
    ks = sorted(queues)
    out = []

    def rec(cur, heads):
        if len(cur) == len(kinds):
            out.append(list(cur))
            return
        for k in ks:
            h = heads[k]
            if h < len(queues[k]):
                heads[k] = h + 1
                cur.append(queues[k][h])
                rec(cur, heads)
                cur.pop()
                heads[k] = h
    rec([], {k: 0 for k in ks})
    return out


def random_interleaving(kinds, rng):
    queues = {}
    for i, k in enumerate(kinds):
        queues.setdefault(k, []).append(i)
    labels = list(kinds)
    rng.shuffle(labels)
    heads = {k: 0 for k in queues}
    out = []
    for k in labels:
        out.append(queues[k][heads[k]])
        heads[k] += 1
    return out


def orders_for_oracle(case):
    """kind-preserving orders of the shuffled calls (positions are offsets into prefix+calls); prefix stays first"""
    npre = len(case["prefix"])
    kinds = [kind(c) for c in case["calls"]]
    total = n_interleavings(kinds)
    full = case.get("full")
    cap_all, n_sample = (720, 200) if full else (120, 60)
    if total <= cap_all:
        inner = interleavings(kinds)
    else:
        rng = random.Random("C08-orders-%s" % lib.sha(case))
        inner = [list(range(len(kinds)))]
        seen = {tuple(inner[0])}
        for _ in range(n_sample * 3):
            o = random_interleaving(kinds, rng)
            if tuple(o) not in seen:
                seen.add(tuple(o))
                inner.append(o)
            if len(inner) >= n_sample:
                break
    pre = list(range(npre))
    return [pre + [npre + i for i in o] for o in inner], total


def orders_for_corr(case):
    """identity, 4 random kind-preserving interleavings, 2 arbitrary shuffles of prefix+calls"""
    npre = len(case["prefix"])
    kinds = [kind(c) for c in case["calls"]]
    rng = random.Random("C08-corr-%s" % lib.sha(case))
    pre = list(range(npre))
    n = npre + len(kinds)
    out = [list(range(n))]
    for _ in range(4):
        out.append(pre + [npre + i for i in random_interleaving(kinds, rng)])
    for _ in range(2):
        o = list(range(n))
        rng.shuffle(o)
        out.append(o)
    uniq = []
    for o in out:
        if o not in uniq:
            uniq.append(o)
    return uniq


# ==============================================================================================
# plugin: run_impl / oracle
# ==============================================================================================
def norm(outcome):
    """what the property compares: the rendered statement, or 'no statement' (whatever the exception class)"""
    return "!" if outcome.startswith("!") else outcome


def run_impl(case):
    corr = [[o, run_order(case, o, "dump")] for o in orders_for_corr(case)]
    orders, total = orders_for_oracle(case)
    texts = {}
    for o in orders:
        t = norm(run_order(case, o))
        if t not in texts:
            texts[t] = o
    ref = norm(run_order(case, list(range(len(all_calls(case))))))
    return {"corr": corr, "ref": ref, "texts": [[t, o] for t, o in texts.items()], "orders_run": len(orders),
            "interleavings": total}


KEYWORDS = [("with", "WITH "), ("select", "SELECT "), ("into", " INTO "), ("from", " FROM "),
            ("final", " FINAL"), ("sample", " SAMPLE"),
            ("force_index", " FORCE INDEX "), ("use_index", " USE INDEX "), ("joins", " JOIN "),
            ("prewhere", " PREWHERE "), ("where", " WHERE "), ("group", " GROUP BY "), ("rollup", " WITH ROLLUP"),
            ("having", " HAVING "), ("orderby", " ORDER BY "), ("pagination", None), ("for_update", " FOR UPDATE")]
PAGINATION = [" LIMIT ", " OFFSET ", " FETCH NEXT "]


def top_level(text):
    """the characters outside parentheses and outside '...' / "..." / `...` literals (others blanked)"""
    out, depth, quote = [], 0, None
    for ch in text:
        if quote:
            if ch == quote:
                quote = None
            out.append("_")
        elif ch in "'\"`":
            quote = ch
            out.append("_")
        elif ch == "(":
            depth += 1
            out.append("(" if depth == 1 else "_")
        elif ch == ")":
            out.append(")" if depth == 1 else "_")
            depth = max(0, depth - 1)
        else:
            out.append(ch if depth == 0 else "_")
    return "".join(out)


def clause_positions(text):
    """[(clause, first position, last position)] of the top-level clause keywords of a SELECT statement"""
    import re
    t = top_level(text)
    # ClickHouse  FROM t SAMPLE n OFFSET m : that OFFSET belongs to the FROM item
    t = re.sub(r" SAMPLE \S+ OFFSET \S+", lambda m: " SAMPLE" + "_" * (len(m.group(0)) - 7), t)
    pos = []
    for name, kw in KEYWORDS:
        if name == "pagination":
            ps = [i for k in PAGINATION for i in _find_all(t, k)]
        elif name == "with":
            ps = [0] if t.startswith(kw) else []
        elif name == "select":
            ps = _find_all(t, kw)[:1]
        else:
            ps = _find_all(t, kw)
        if ps:
            pos.append((name, min(ps), max(ps)))
    return pos


def _find_all(t, kw):
    out, i = [], t.find(kw)
    while i >= 0:
        out.append(i)
        i = t.find(kw, i + 1)
    return out


STATEMENT_KEYWORDS = ("SELECT", "INSERT", "UPDATE", "DELETE", "REPLACE")


def hint_violation(case, text):
    """Vertica: the label hint directly follows the keyword of the statement (the first statement keyword at top
    level, after a WITH clause if there is one); a statement that is empty without the hint stays empty"""
    import re
    if case["cls"] != "VerticaQuery" or text.startswith("!") or "/*+label(" not in text:
        return None
    t = top_level(text)
    labels = [m for m in re.finditer(r"/\*\+label\(_*\)\*/", t)]
    if t.strip() == "" or re.fullmatch(r"\s*/\*\+label\(_*\)\*/\s*", t):
        return "empty-statement"
    kws = [m for m in re.finditer(r"(?<![A-Za-z_])(%s)(?![A-Za-z_])" % "|".join(STATEMENT_KEYWORDS), t)]
    if len(labels) != 1:
        return "label-count"
    lab = labels[0]
    if kws and kws[0].end() + 1 == lab.start() and t[kws[0].end()] == " " and t[lab.end():lab.end() + 1] in (" ", ""):
        return None
    if t.startswith("WITH ") and (not kws or lab.start() < kws[0].start()):
        return "with-clause"
    before = t[:lab.start()]
    if before.endswith("REPLACE") or (kws and kws[0].group(1) == "REPLACE"):
        return "replace"
    return "misplaced"


def order_violation(case, text):
    """clauses of a SELECT statement must appear in the canonical SQL order"""
    if text.startswith("!"):
        return None
    hv = hint_violation(case, text)
    if hv:
        return ["hint", hv]
    if not text:
        return None
    calls = all_calls(case)
    if any(c[0] == "into" for c in calls):
        return None    # INSERT statements: covered by the extracted table only
    if any(c[0] == "update" for c in calls):
        # UPDATE t [JOIN ..] SET .. [FROM ..] [WHERE ..] [LIMIT n]   (ClickHouse writes ALTER TABLE .. UPDATE: skipped)
        t = top_level(text)
        if case["cls"] == "ClickHouseQuery" or "UPDATE " not in t:
            return None
        pos = []
        for name, kws in (("update", ["UPDATE "]), ("joins", [" JOIN "]), ("set", [" SET "]), ("from", [" FROM "]),
                          ("where", [" WHERE "]), ("limit", [" LIMIT ", " FETCH NEXT "])):
            ps = [i for k in kws for i in _find_all(t, k)]
            if ps:
                pos.append((name, min(ps), max(ps)))
        for (a, _, amax), (b, bmin, _) in zip(pos, pos[1:]):
            if amax > bmin:
                return [a, b]
        return None
    pos = clause_positions(text)
    for (a, _, amax), (b, bmin, _) in zip(pos, pos[1:]):
        if a == "with" and b == "select":
            continue
        if amax > bmin:
            return [a, b]
    return None


def localise(case, ref_order, ref_out, other):
    """bubble `other` towards ref_order by adjacent transpositions; first transposition that changes the outcome"""
    calls = all_calls(case)
    rank = {p: i for i, p in enumerate(ref_order)}
    cur = list(other)
    cur_out = norm(run_order(case, cur))
    changed = True
    while changed:
        changed = False
        for i in range(len(cur) - 1):
            if rank[cur[i]] > rank[cur[i + 1]]:
                nxt = list(cur)
                nxt[i], nxt[i + 1] = nxt[i + 1], nxt[i]
                nxt_full = run_order(case, nxt)
                nxt_out = norm(nxt_full)
                if nxt_out != cur_out:
                    if nxt_out == "!":
                        nxt_out = nxt_full
                    else:
                        cur_out = run_order(case, cur)
                    ks = sorted([kind(calls[cur[i]]), kind(calls[cur[i + 1]])])
                    what = "exception" if (nxt_out.startswith("!") or cur_out.startswith("!")) else "text"
                    return ks, what, cur, cur_out, nxt, nxt_out
                cur, cur_out = nxt, nxt_out
                changed = True
    return None


def merge_calls(a, b):
    """one call with the arguments of two successive calls of the same method, or None"""
    k = a[0]
    if k != b[0]:
        return None
    if k in ("where", "having", "prewhere"):
        return [k, ["and", a[1], b[1]]]
    if k in ("groupby", "select", "columns", "force_index", "use_index", "distinct_on"):
        return [k, a[1] + b[1]]
    if k == "orderby" and a[2] == b[2]:
        return [k, a[1] + b[1], a[2]]
    return None


def accumulate_violations(case, ref):
    """two calls of one kind = one call with both arguments (AND for filters, concatenation for lists)"""
    if ref.startswith("!"):
        return []
    out, seen = [], set()
    calls = case["calls"]
    for i, a in enumerate(calls):
        if a[0] in seen:
            continue
        for j in range(i + 1, len(calls)):
            if kind(calls[j]) != kind(a):
                continue
            m = merge_calls(a, calls[j])      # the NEXT call of this kind
            if m is None:
                break
            seen.add(a[0])
            merged = dict(case, calls=calls[:i] + [m] + calls[i + 1:j] + calls[j + 1:])
            t = norm(run_order(merged, list(range(len(all_calls(merged))))))
            if t != ref:
                out.append({"signature": ["C08", kind(a), kind(a), "accumulate"],
                            "what": "two %s calls render %r, one call with both arguments renders %r" % (a[0], ref[:300], t[:300])})
            break
    return out


def oracle(case, outcome):
    if "texts" not in outcome:
        return [{"signature": ["C08", "harness", "harness", "crash"], "what": str(outcome)[:300]}]
    out = []
    texts = outcome["texts"]
    if len(texts) > 1:
        ref_order = list(range(len(all_calls(case))))
        ref_out = outcome["ref"]
        other = next(o for t, o in texts if t != ref_out)
        loc = localise(case, ref_order, ref_out, other)
        if loc:
            ks, what, o1, t1, o2, t2 = loc
            out.append({"signature": ["C08", ks[0], ks[1], what],
                        "what": "order %s gives %r, order %s gives %r" % (o1, t1[:300], o2, t2[:300])})
        else:
            out.append({"signature": ["C08", "?", "?", "text"], "what": "interleavings differ: %r" % (texts[:2],)})
    if len(texts) == 1:
        out.extend(accumulate_violations(case, outcome["ref"]))
    for t, o in texts:
        ov = order_violation(case, t)
        if ov:
            what = ("the Vertica label hint is not directly after the statement keyword (%s) in %r" % (ov[1], t[:300])
                    if ov[0] == "hint" else "clause %s is emitted after clause %s in %r" % (ov[0], ov[1], t[:300]))
            out.append({"signature": ["C08", "order", ov[0], ov[1]], "what": what})
            break
    return out


# ==============================================================================================
# model side
# ==============================================================================================
def tbl_coq(spec):
    if spec[0] == "T":
        return "(Tab %s %s)" % (S(spec[1]), OS(spec[2]))
    if spec[0] == "W":
        return "(Wq %s)" % S(spec[1])
    return "(Sub %s %s)" % (OS(spec[1]), S(spec[2]))


def otbl_coq(spec):
    return "None" if spec is None else "(Some %s)" % tbl_coq(spec)


def obj_tbl_coq(t, reg):
    from pypika import Table, AliasedQuery
    if t is None:
        return "None"
    if isinstance(t, Table):
        if t._schema is not None:
            raise NotModelled("schema")
        return "(Some (Tab %s %s))" % (S(t._table_name), OS(t.alias))
    if isinstance(t, AliasedQuery):
        return "(Some (Wq %s))" % S(t.name)
    return "(Some (Sub %s %s))" % (OS(t.alias), S(reg.subs[id(t)]))


class NotModelled(Exception):
    pass


def arg_coq(obj, key, reg):
    """CArg with the facts the model may observe of an argument object"""
    from pypika.terms import Star, EmptyCriterion, Term
    tabs, ftabs = [], []
    if isinstance(obj, Term):
        from pypika.terms import Field
        tabs = [obj_tbl_coq(f.table, reg) for f in obj.fields_()]          # _validate_table
        ftabs = [obj_tbl_coq(f.table, reg) for f in obj.find_(Field)]      # JoinOn.validate
    tab = "None"
    if hasattr(obj, "table"):
        tab = "(Some %s)" % obj_tbl_coq(obj.table, reg)
    return "(CArg %s %s %s %s %s %s)" % (S("#" + key), L(tabs), L(ftabs), tab, B(isinstance(obj, Star)),
                                       B(isinstance(obj, EmptyCriterion)))


def const_coq(v):
    return "(CArg %s [] [] None false false)" % S("V(%r)" % (v,))


def unaliased_sub_refs(cs):
    """does a criterion spec mention an un-aliased sub-query?"""
    if not isinstance(cs, list):
        return False
    if len(cs) == 3 and cs[0] == "Q" and cs[1] is None:
        return True
    return any(unaliased_sub_refs(x) for x in cs)


def call_coq(call, pos, cls_name):
    reg = Reg()
    k = call[0]
    key = "c%d" % pos
    if k == "from":
        sc = 0
        if call[1][0] == "Q":
            sc = mk_sub(call[1][2], None, reg)._subquery_count
        return "(CFrom _ %s %s)" % (tbl_coq(call[1]), Zc(sc))
    if k == "into":
        return "(CInto _ %s)" % tbl_coq(call[1])
    if k == "update":
        return "(CUpdate _ %s)" % tbl_coq(call[1])
    if k == "select":
        items = []
        for n, it in enumerate(call[1]):
            if it[0] == "s":
                items.append("(SStr _ %s)" % S(it[1]))
            elif it[1][0] == "const":
                items.append("(SOther _ %s)" % const_coq(it[1][1]))
            else:
                from pypika.terms import Field
                obj = mk_term(it[1], reg)      # select() dispatches on the type of the argument
                items.append("(%s _ %s)" % ("SField" if isinstance(obj, Field) else "SOther",
                                             arg_coq(obj, "%s.%d" % (key, n), reg)))
        return "(CSelect _ %s)" % L(items)
    if k == "join":
        sp = call[3]
        if sp[0] == "on":
            item = mk_tbl(call[1], reg)
            crit = mk_crit(sp[1], reg, shared=(call[1], item))
            spec = "(JSOn _ %s %s)" % (arg_coq(crit, key + ".0", reg), OS(sp[2]))
        elif sp[0] == "on_none":
            spec = "(JSOnNone _)"
        elif sp[0] == "using":
            spec = "(JSUsing _ %s)" % L([S(x) for x in sp[1]])
        elif sp[0] == "cross":
            spec = "(JSCross _)"
        else:
            raise NotModelled(sp[0])
        return "(CJoin _ %s %s %s)" % (tbl_coq(call[1]), S(call[2]), spec)
    if k in ("where", "prewhere", "having"):
        if unaliased_sub_refs(call[1]):
            raise NotModelled("un-aliased sub-query referenced outside its own join")
        c = arg_coq(mk_crit(call[1], reg), key + ".0", reg)
        return "(%s _ %s)" % ({"where": "CWhere", "prewhere": "CPrewhere", "having": "CHaving"}[k], c)
    if k == "groupby":
        items = []
        for n, it in enumerate(call[1]):
            if it[0] == "s":
                items.append("(GStr _ %s)" % S(it[1]))
            elif it[0] == "i":
                items.append("(GInt _ %s)" % Zc(it[1]))
            else:
                items.append("(GTerm _ %s)" % arg_coq(mk_term(it[1], reg), "%s.%d" % (key, n), reg))
        return "(CGroupby _ %s)" % L(items)
    if k == "rollup":
        ts = [arg_coq(mk_term(t, reg), "%s.%d" % (key, n), reg) for n, t in enumerate(call[2])]
        return "(CRollup _ %s %s)" % (B(call[1]), L(ts))
    if k == "orderby":
        items = []
        for n, it in enumerate(call[1]):
            if it[0] == "s":
                items.append("(OStr _ %s)" % S(it[1]))
            else:
                items.append("(OTerm _ %s)" % arg_coq(mk_term(it[1], reg), "%s.%d" % (key, n), reg))
        return "(COrderby _ %s %s)" % (L(items), OS(call[2]))
    if k == "limit":
        return "(CLimit _ %s)" % Zc(call[1])
    if k == "offset":
        return "(COffset _ %s)" % Zc(call[1])
    if k == "distinct":
        return "(CDistinct _)"
    if k == "for_update":
        if cls_name in FU_ARGS:
            return "(CForUpdate _ (Some (%s, %s, %s)))" % (B(call[1]), B(call[2]), L([S(x) for x in call[3]]))
        return "(CForUpdate _ None)"
    if k == "with":
        return "(CWith _ %s (CArg %s [] [] None false false))" % (S(call[1]), S("#" + key + ".0"))
    if k == "force_index":
        return "(CForceIndex _ %s)" % L([S(x) for x in call[1]])
    if k == "use_index":
        return "(CUseIndex _ %s)" % L([S(x) for x in call[1]])
    if k == "set":
        return "(CSet _ (CArg %s [] [] None false false) %s)" % (S("F(%s|None)" % call[1]), const_coq(call[2]))
    if k == "columns":
        items = []
        for n, it in enumerate(call[1]):
            if it[0] == "s":
                items.append("(ColStr _ %s)" % S(it[1]))
            else:
                items.append("(ColTerm _ %s)" % arg_coq(mk_term(it[1], reg), "%s.%d" % (key, n), reg))
        return "(CColumns _ %s)" % L(items)
    if k == "insert":
        rows = [L([const_coq(v) for v in r]) for r in call[2]]
        return "(CInsert _ %s %s)" % (B(call[1]), L(rows))
    def cols(items):
        out = []
        for n, it in enumerate(items):
            if it[0] == "s":
                out.append("(ColStr _ %s)" % S(it[1]))
            else:
                out.append("(ColTerm _ %s)" % arg_coq(mk_term(it[1], reg), "%s.%d" % (key, n), reg))
        return L(out)
    if k == "top":
        v = call[1]
        arg = "(TopInt %s)" % Zc(v[1]) if v[0] == "i" else ("(TopStr %s)" % S(v[1]) if v[0] == "s" else "TopFraction")
        return "(CTop _ %s %s %s)" % (arg, B(call[2]), B(call[3]))
    if k == "fetch_next":
        return "(CLimit _ %s)" % Zc(call[1])
    if k == "insert_or_replace":
        return "(CInsertOrReplace _ %s)" % L([L([const_coq(v) for v in r]) for r in call[1]])
    if k == "hint":
        return "(CHint _ %s)" % S(call[1])
    if k == "modifier":
        return "(CModifier _ %s)" % S(call[1])
    if k == "final":
        return "(CFinal _)"
    if k == "sample":
        return "(CSample _ %s %s)" % (Zc(call[1]), "None" if call[2] is None else "(Some %s)" % Zc(call[2]))
    if k == "limit_by":
        return "(CLimitBy _ %s %s %s)" % (Zc(call[1]), Zc(call[2] or 0), cols(call[3]))
    if k == "distinct_on":
        return "(CDistinctOn _ %s)" % cols(call[1])
    raise NotModelled(k)


def to_coq(case, outcome):
    if "corr" not in outcome:
        return None
    try:
        calls = [call_coq(c, i, case["cls"]) for i, c in enumerate(all_calls(case))]
    except NotModelled:
        return None
    orders = [P(L([N(i) for i in o]), S(t)) for o, t in outcome["corr"]]
    return P(L(calls), L(orders))


# ==============================================================================================
# generator
# ==============================================================================================
POOL = [["T", "a", None], ["T", "b", None], ["T", "c", None], ["T", "b", "bb"], ["T", "d", None]]
COLS = ["x", "y", "z", "id", "total"]
# aliases given to selected terms: mostly names that are ALSO used as string arguments of select/groupby/orderby
# (the str -> Field resolution at call time must not look at what has been selected so far)
ALIASES = ["x", "y", "total", "total", "id", "al", "n"]
WNAMES = ["w", "v"]
HOWS = ["inner", "left", "right", "outer", "left_outer", "cross", "hash"]


class G:
    def __init__(self, rng):
        self.r = rng
        self.present = []    # table specs usable in criteria (FROM / UPDATE / joined)
        self.nsub = 0

    def col(self):
        return self.r.choice(COLS)

    def tbl_ref(self, p_foreign=0.12):
        r = self.r
        if self.present and r.random() > p_foreign:
            return r.choice(self.present)
        return r.choice(POOL + [["W", r.choice(WNAMES)], None])

    def field(self, p_foreign=0.12):
        return [self.col(), self.tbl_ref(p_foreign)]

    def crit(self, depth=1, p_foreign=0.12):
        r = self.r
        x = r.random()
        if depth > 0 and x < 0.25:
            return [r.choice(["and", "or"]), self.crit(depth - 1, p_foreign), self.crit(depth - 1, p_foreign)]
        if x < 0.35:
            return ["isnull", self.field(p_foreign)]
        if x < 0.7:
            return ["cmp", r.choice(["eq", "gt", "lt", "ne"]), self.field(p_foreign), r.choice([1, 7, "k"])]
        return ["cmp", r.choice(["eq", "gt"]), self.field(p_foreign), self.field(p_foreign)]

    def term(self, alias_p=0.35):
        r = self.r
        x = r.random()
        al = r.choice(ALIASES) if r.random() < alias_p else None
        if x < 0.55:
            return ["field", self.field(), al]
        if x < 0.8:
            return ["fn", r.choice(["Count", "Sum", "Max"]), self.field(), al]
        return ["arith", self.field(), r.choice([1, 2])]

    def sub(self, aliased):
        self.nsub += 1
        sid = ("n%d" if self.r.random() < 0.2 else "%d") % self.nsub
        return ["Q", ("x" + sid) if aliased else None, sid]

    def join_item(self):
        r = self.r
        x = r.random()
        if x < 0.55:
            return r.choice(POOL)
        if x < 0.7 and self.present:
            t = r.choice(self.present)
            if t[0] == "T":
                return ["T", t[1], None]       # same-named table: auto alias
        if x < 0.82:
            return ["W", r.choice(WNAMES)]
        return self.sub(r.random() < 0.5)

    def call(self, k, malformed=False):
        r = self.r
        if k == "select":
            items = []
            for _ in range(r.choice([1, 1, 2, 3])):
                x = r.random()
                if x < 0.35:
                    items.append(["s", r.choice(COLS + ["*"] if r.random() < 0.3 else COLS)])
                elif x < 0.6:
                    items.append(["f", ["field", self.field(), r.choice(ALIASES) if r.random() < 0.3 else None]])
                elif x < 0.7:
                    items.append(["f", ["star", self.tbl_ref(0.1)]])
                elif x < 0.9:
                    items.append(["o", self.term()])
                else:
                    items.append(["o", ["const", r.choice([1, 5])]])
            return ["select", items]
        if k == "join":
            item = self.join_item()
            how = r.choice(HOWS)
            x = r.random()
            if malformed and x < 0.3:
                return ["join", item, how, r.choice([["on_none"], ["using", []]])]
            if x < 0.12:
                sp = ["using", [self.col()]]
            elif x < 0.2:
                sp = ["cross"]
            elif x < 0.27:
                sp = ["on_field", [self.col()]]
            else:
                left = self.field(0.35 if malformed else 0.04)
                if r.random() < 0.25:
                    left = [self.col(), ["W", r.choice(WNAMES)]]      # a WITH name in the criterion
                c = ["cmp", "eq", left, [self.col(), item]]
                if r.random() < 0.2:
                    c = ["and", c, self.crit(0, 0.05)]
                sp = ["on", c, "utf8_bin" if r.random() < 0.1 else None]
            self.present.append(item)
            return ["join", item, how, sp]
        if k in ("where", "prewhere", "having"):
            if malformed and r.random() < 0.4:
                return [k, ["empty"]]
            return [k, self.crit(1, 0.2)]
        if k == "groupby":
            items = []
            for _ in range(r.choice([1, 1, 2])):
                x = r.random()
                items.append(["s", self.col()] if x < 0.45 else (["i", r.choice([1, 2])] if x < 0.55 else ["t", self.term()]))
            return ["groupby", items]
        if k == "rollup":
            return ["rollup", r.random() < 0.7, [self.term(0) for _ in range(r.choice([0, 1, 2]))]]
        if k == "orderby":
            items = [(["s", self.col()] if r.random() < 0.5 else ["t", self.term()]) for _ in range(r.choice([1, 1, 2]))]
            return ["orderby", items, r.choice([None, "asc", "desc"])]
        if k == "limit":
            return ["limit", r.choice([0, 1, 10, 25])]
        if k == "offset":
            return ["offset", r.choice([0, 3, 5, 50])]
        if k == "distinct":
            return ["distinct"]
        if k == "for_update":
            return ["for_update", r.random() < 0.3, r.random() < 0.3, r.choice([[], ["a"], ["a", "b", "a"]])]
        if k == "with":
            self.nsub += 1
            name = r.choice(WNAMES)
            if r.random() < 0.15:       # a name that can collide with do_join's automatic alias <table><k>
                name = r.choice(["a", "b", "c"]) + r.choice(["2", "2", "3"])
            return ["with", name, "%d" % self.nsub]
        if k in ("force_index", "use_index"):
            return [k, [r.choice(["i1", "i2", "i3"]) for _ in range(r.choice([1, 1, 2]))]]
        if k == "set":
            return ["set", self.col(), r.choice([1, 2, "v"])]
        if k == "columns":
            return ["columns", [(["s", self.col()] if r.random() < 0.7 else ["t", ["field", [self.col(), None], None]])
                                for _ in range(r.choice([1, 2, 3]))]]
        if k == "top":
            v = r.choice([["i", 5], ["i", 10], ["i", 0], ["i", 100], ["s", "5"], ["i", 150]])
            if malformed or r.random() < 0.08:
                v = r.choice([["s", "abc"], ["f", 5.7], ["s", "5.7"], ["i", -1]])
            return ["top", v, r.random() < 0.3, r.random() < 0.3]
        if k == "fetch_next":
            return ["fetch_next", r.choice([1, 10, 25])]
        if k == "hint":
            return ["hint", r.choice(["h", "lbl"])]
        if k == "modifier":
            return ["modifier", r.choice(["SQL_CALC_FOUND_ROWS", "HIGH_PRIORITY"])]
        if k == "final":
            return ["final"]
        if k == "sample":
            return ["sample", r.choice([10, 100]), r.choice([None, None, 5])]
        if k in ("limit_by", "distinct_on"):
            items = [(["s", self.col()] if r.random() < 0.6 else ["t", ["field", self.field(), None]])
                     for _ in range(r.choice([1, 1, 2]))]
            return ["limit_by", r.choice([1, 3]), r.choice([None, None, 2]), items] if k == "limit_by" else ["distinct_on", items]
        if k == "insert_or_replace":
            n = r.choice([1, 2])
            return ["insert_or_replace", [[r.choice([1, 2, "s"]) for _ in range(n)] for _ in range(r.choice([1, 1, 2]))]]
        if k == "insert":
            n = r.choice([1, 2])
            return ["insert", r.random() < 0.15, [[r.choice([1, 2, "s"]) for _ in range(n)] for _ in range(r.choice([0, 1, 1, 2]))]]
        raise ValueError(k)


SELECT_KINDS = (["select"] * 4 + ["join"] * 4 + ["where"] * 4 + ["groupby"] * 3 + ["having"] * 3 + ["orderby"] * 3 +
                ["limit"] * 2 + ["offset"] * 2 + ["distinct"] * 2 + ["for_update"] * 2 + ["with"] * 3 + ["prewhere"] +
                ["force_index", "use_index", "rollup"])
UPDATE_KINDS = ["set"] * 4 + ["where"] * 3 + ["join"] * 3 + ["with"] * 2 + ["limit"] * 2 + ["select", "orderby", "offset"]
INSERT_KINDS = ["columns"] * 3 + ["insert"] * 4 + ["with"] * 2 + ["select"] * 2 + ["where", "join", "limit", "distinct"]


def gen_case(rng, max_calls=6):
    g = G(rng)
    cls = rng.choice(CLASSES) if rng.random() < 0.8 else rng.choice(FU_ARGS)
    x = rng.random()
    malformed = rng.random() < 0.12
    prefix = []
    if x < 0.70:
        stmt = "select"
        if not (malformed and rng.random() < 0.3):
            t0 = rng.choice(POOL[:3])
            if rng.random() < 0.1:
                t0 = g.sub(rng.random() < 0.5)
            prefix.append(["from", t0])
            g.present.append(t0)
            if rng.random() < 0.3:
                t1 = rng.choice([t for t in POOL if t != t0] + [g.sub(rng.random() < 0.5)])
                prefix.append(["from", t1])
                g.present.append(t1)
        if rng.random() < 0.06 and prefix:
            prefix.append(g.call("select"))
            prefix.append(["into", ["T", "arch", None]])
        kinds = SELECT_KINDS
    elif x < 0.85:
        stmt = "update"
        t0 = rng.choice(POOL[:3])
        prefix.append(["update", t0])
        g.present.append(t0)
        if rng.random() < 0.25:
            t1 = rng.choice([t for t in POOL if t != t0])
            prefix.append(["from", t1])
            g.present.append(t1)
        kinds = UPDATE_KINDS
    else:
        stmt = "insert"
        if not (malformed and rng.random() < 0.4):
            prefix.append(["into", rng.choice(POOL[:3])])
        if rng.random() < 0.35:
            t1 = rng.choice(POOL[:3])
            prefix.append(["from", t1])
            g.present.append(t1)
        kinds = INSERT_KINDS
    n = rng.choice([2, 3, 3, 4, 4, 5, 5, 6, 7, 8][:max_calls + 2])
    calls = []
    own = [k for k, classes in ONLY_ON.items() if cls in classes
           and (k != "insert_or_replace" or stmt == "insert")
           and (k not in ("final", "sample", "limit_by", "distinct_on", "modifier", "top", "fetch_next") or stmt == "select")]
    for _ in range(n):
        if own and rng.random() < 0.3:
            calls.append(g.call(rng.choice(own), malformed))
            continue
        k = rng.choice(kinds if rng.random() < 0.93 else SELECT_KINDS + UPDATE_KINDS + INSERT_KINDS)
        calls.append(g.call(k, malformed))
    rng.shuffle(calls)
    return {"cls": cls, "prefix": prefix, "calls": calls, "stmt": stmt, "malformed": malformed}


def gen_cases(rng, tier):
    n = 260 if tier == "quick" else 4000
    out = [gen_case(rng, 6 if tier == "quick" else 8) for _ in range(n)]
    out += gen_alias_family(rng, 70 if tier == "quick" else 700)
    out += gen_with_family(rng, 50 if tier == "quick" else 500)
    out += gen_dialect_family(rng, 80 if tier == "quick" else 800)
    for c in out:
        c["full"] = tier == "thorough"
    # directed pairs: every unordered pair of different kinds at least once, on a two-table SELECT
    g_kinds = ["select", "join", "where", "prewhere", "groupby", "having", "orderby", "limit", "offset", "distinct",
               "for_update", "with", "force_index", "use_index"]
    pairs = list(itertools.combinations(g_kinds, 2))
    rng.shuffle(pairs)
    for a, b in pairs[: (40 if tier == "quick" else len(pairs))]:
        g = G(rng)
        g.present = [["T", "a", None], ["T", "b", None]]
        pre = [["from", ["T", "a", None]], ["from", ["T", "b", None]]] if rng.random() < 0.5 else [["from", ["T", "a", None]]]
        g.present = [p[1] for p in pre]
        calls = [g.call(a), g.call(b), g.call(a), g.call(b)]
        if "select" not in (a, b):
            calls.append(["select", [["s", "x"]]])
        out.append({"cls": rng.choice(CLASSES), "prefix": pre, "calls": calls, "stmt": "select", "malformed": False})
    return out


def gen_alias_family(rng, n):
    """string arguments of select/groupby/orderby whose name is (or is not) the alias of a selected term, in statements
    that qualify their columns (join / second FROM / sub-query FROM / foreign reference) and in plain ones"""
    out = []
    a, b = ["T", "a", None], ["T", "b", None]
    for _ in range(n):
        g = G(rng)
        alias = rng.choice(["total", "x", "y", "id"])
        other = rng.choice([c for c in COLS if c != alias])
        shape = rng.choice(["join", "join", "join", "from2", "subfrom", "foreign", "plain"])
        pre = [["from", a]]
        g.present = [a]
        calls = []
        if shape == "from2":
            pre.append(["from", b]); g.present.append(b)
        elif shape == "subfrom":
            pre = [["from", ["Q", "x1", "1"]]]; g.present = [["Q", "x1", "1"]]
        elif shape == "join":
            calls.append(["join", b, rng.choice(["inner", "left"]), ["on", ["cmp", "eq", ["id", g.present[0]], ["id", b]], None]])
        elif shape == "foreign":
            calls.append(["where", ["cmp", "eq", ["id", g.present[0]], ["id", ["T", "d", None]]]])
        t0 = g.present[0]
        aliased = rng.choice([["o", ["fn", rng.choice(["Sum", "Count", "Max"]), [other, rng.choice(g.present)], alias]],
                              ["f", ["field", [other, rng.choice(g.present)], alias]],
                              ["o", ["arith", [other, t0], 1]]])          # the last one: no alias at all
        calls.append(["select", [["f", ["field", ["id", t0], None]], aliased]])
        name = alias if rng.random() < 0.7 else other                     # coincides with the alias / does not
        for k in rng.sample(["orderby", "groupby", "select", "having", "limit", "distinct"], rng.choice([2, 3, 4])):
            if k == "orderby":
                calls.append(["orderby", [["s", name]], rng.choice([None, "desc"])])
            elif k == "groupby":
                calls.append(["groupby", [["s", name]]])
            elif k == "select":
                calls.append(["select", [["s", name]]])
            else:
                calls.append(g.call(k))
        rng.shuffle(calls)
        out.append({"cls": rng.choice(CLASSES), "prefix": pre, "calls": calls, "stmt": "select", "malformed": False,
                    "family": "alias"})
    return out


def gen_with_family(rng, n):
    """criteria of where/prewhere/join that mention a WITH query which is attached by a with_() call of the same list
    (or by none), in statements with and without joins: nothing with_() writes may be read by another call"""
    out = []
    a, b = ["T", "a", None], ["T", "b", None]
    for _ in range(n):
        g = G(rng)
        w = ["W", rng.choice(WNAMES)]
        stmt = rng.choice(["select", "select", "select", "update"])
        pre = [["from", a]] if stmt == "select" else [["update", a]]
        g.present = [a]
        calls = [["with", w[1], "1"]] if rng.random() < 0.85 else []
        kinds = rng.sample(["where", "prewhere", "join", "join_w", "where2", "groupby", "limit"], rng.choice([2, 3, 4]))
        for k in kinds:
            if k in ("where", "prewhere"):
                if stmt == "update" and k == "prewhere":
                    continue
                calls.append([k, ["cmp", "eq", [g.col(), a], [g.col(), w]]])
            elif k == "where2":
                calls.append(["where", ["cmp", "gt", [g.col(), a], 1]])
            elif k == "join":
                calls.append(["join", b, "inner", ["on", ["cmp", "eq", [g.col(), rng.choice([a, w])], [g.col(), b]], None]])
            elif k == "join_w":
                calls.append(["join", w, "left", ["on", ["cmp", "eq", [g.col(), a], [g.col(), w]], None]])
            else:
                calls.append(g.call(k))
        calls.append(["select", [["s", g.col()]]] if stmt == "select" else ["set", g.col(), 1])
        rng.shuffle(calls)
        out.append({"cls": rng.choice(CLASSES), "prefix": pre, "calls": calls, "stmt": stmt, "malformed": False,
                    "family": "with"})
    return out


def gen_dialect_family(rng, n):
    """the dialect-specific clause calls (Vertica hint, MySQL modifier, ClickHouse final/sample/limit_by/distinct_on,
    PostgreSQL distinct_on, SQLite insert_or_replace) on every statement shape their class can build: plain and WITH
    SELECT, SELECT..INTO, INSERT VALUES / INSERT SELECT / REPLACE, UPDATE, and a statement that stays empty"""
    out = []
    a, b = ["T", "a", None], ["T", "b", None]
    for _ in range(n):
        k = rng.choice(list(ONLY_ON) + ["hint", "hint", "top", "top"])
        cls = rng.choice(ONLY_ON[k])
        g = G(rng)
        shapes = ["select", "with_select", "select_join", "empty"]
        if k == "hint":
            shapes += ["insert", "insert_select", "replace", "update", "with_update", "with_insert", "select_into"]
        if k == "insert_or_replace":
            shapes = ["insert", "with_insert"]
        shape = rng.choice(shapes)
        pre, calls = [], []
        g.present = [a]
        if shape in ("select", "with_select", "select_join", "empty", "select_into"):
            pre = [["from", a]]
            if shape != "empty":
                calls.append(["select", [["s", g.col()]]])
            if shape == "with_select":
                calls.append(["with", rng.choice(WNAMES), "1"])
            if shape == "select_join":
                calls.append(["join", b, "inner", ["on", ["cmp", "eq", ["id", a], ["id", b]], None]])
            if shape == "select_into":
                pre = [["from", a], ["select", [["s", "id"]]], ["into", ["T", "arch", None]]]
            for extra in rng.sample(["where", "orderby", "limit", "offset", "groupby", "distinct"], rng.choice([0, 1, 2])):
                calls.append(g.call(extra))
        elif shape in ("insert", "with_insert", "replace", "insert_select"):
            pre = [["into", a]]
            if shape == "insert_select":
                pre.append(["from", b]); g.present = [b]
                calls.append(["select", [["s", g.col()]]])
            elif k != "insert_or_replace":
                calls.append(["insert", shape == "replace", [[1, "s"]]])
            if shape == "with_insert":
                calls.append(["with", rng.choice(WNAMES), "1"])
            if rng.random() < 0.5:
                calls.append(["columns", [["s", "x"], ["s", "y"]]])
        else:
            pre = [["update", a]]
            calls.append(["set", g.col(), 1])
            if shape == "with_update":
                calls.append(["with", rng.choice(WNAMES), "1"])
            if rng.random() < 0.5:
                calls.append(["where", ["cmp", "eq", ["x", a], 1]])
        calls.append(g.call(k))
        if rng.random() < 0.3:
            calls.append(g.call(k))
        if k in ("top", "fetch_next"):
            # TOP / FETCH NEXT next to every spelling of the pagination calls
            for extra in rng.sample(["limit", "offset", "fetch_next", "top", "orderby"], rng.choice([1, 2, 3])):
                if extra in ("limit", "offset", "orderby") or cls in ONLY_ON[extra]:
                    calls.append(g.call(extra))
        rng.shuffle(calls)
        out.append({"cls": cls, "prefix": pre, "calls": calls, "stmt": shape, "malformed": False, "family": "dialect"})
    return out


def corpus():
    a, b, v = ["T", "a", None], ["T", "b", None], ["T", "v", None]
    sel = ["select", [["s", "x"]]]
    cs = [
        # repaired finding (10401de -> 2def80d): the automatic alias a<k> of a same-named join must not depend on
        # whether WITH a2 is attached before or after the join (regression witness)
        {"cls": "Query", "prefix": [["from", a]],
         "calls": [["with", "a2", "1"], ["join", a, "inner", ["on", ["cmp", "eq", ["x", a], ["y", a]], None]], sel]},
        # repaired finding (160d589): a join criterion may name a WITH query attached later (regression witness)
        {"cls": "Query", "prefix": [["from", a]],
         "calls": [["with", "w", "1"], ["join", v, "inner", ["on", ["cmp", "eq", ["x", ["W", "w"]], ["x", v]], None]], sel]},
        # call-time flags: where on a table joined later / before
        {"cls": "Query", "prefix": [["from", a]],
         "calls": [["where", ["cmp", "eq", ["x", b], 1]], ["join", b, "left", ["on", ["cmp", "eq", ["x", a], ["x", b]], None]], sel]},
        {"cls": "MySQLQuery", "prefix": [["from", a], ["from", b]],
         "calls": [["groupby", [["s", "x"]]], ["orderby", [["s", "y"]], "desc"], ["select", [["s", "z"], ["s", "*"]]],
                   ["having", ["cmp", "gt", ["x", a], 1]], ["having", ["cmp", "lt", ["y", a], 7]]]},
        {"cls": "PostgreSQLQuery", "prefix": [["from", a]],
         "calls": [["limit", 10], ["offset", 5], ["distinct"], ["distinct"], ["for_update", True, False, ["a", "b", "a"]], sel,
                   ["orderby", [["s", "x"]], None]]},
        {"cls": "OracleQuery", "prefix": [["from", a]],
         "calls": [["offset", 5], ["limit", 10], sel, ["where", ["cmp", "eq", ["x", a], 1]], ["where", ["isnull", ["y", a]]]]},
        {"cls": "Query", "prefix": [["update", a]],
         "calls": [["set", "x", 1], ["set", "y", "v"], ["where", ["cmp", "eq", ["x", a], 1]],
                   ["join", b, "inner", ["on", ["cmp", "eq", ["x", a], ["x", b]], None]], ["limit", 1]]},
        # C14 neighbour: un-qualified field in an UPDATE join criterion (accepted since the C14 fix, in every order)
        {"cls": "Query", "prefix": [["update", a]],
         "calls": [["join", b, "inner", ["on", ["cmp", "eq", ["x", None], ["y", b]], None]], ["set", "x", 1]]},
        {"cls": "SQLLiteQuery", "prefix": [["into", a]],
         "calls": [["columns", [["s", "x"], ["s", "y"]]], ["insert", False, [[1, "s"]]], ["insert", False, [[2, "t"]]]]},
        {"cls": "Query", "prefix": [["into", a], ["from", b]],
         "calls": [["columns", [["s", "x"]]], sel, ["where", ["cmp", "gt", ["x", b], 1]], ["with", "w", "1"]]},
        # same-named join (auto alias), sub-query joins (tagging)
        {"cls": "Query", "prefix": [["from", a]],
         "calls": [["join", a, "inner", ["on", ["cmp", "eq", ["x", a], ["y", a]], None]],
                   ["join", ["Q", None, "1"], "left", ["on", ["cmp", "eq", ["a", ["Q", None, "1"]], ["x", a]], None]],
                   ["where", ["cmp", "eq", ["x", a], 1]], sel]},
        {"cls": "ClickHouseQuery", "prefix": [["from", ["Q", None, "n1"]]],
         "calls": [["prewhere", ["cmp", "eq", ["x", b], 1]], ["where", ["cmp", "eq", ["y", b], 2]], sel,
                   ["join", ["Q", None, "2"], "inner", ["using", ["x"]]]]},
        {"cls": "MySQLQuery", "prefix": [["from", a]],
         "calls": [["groupby", [["s", "x"], ["i", 1]]], ["rollup", True, []], sel, ["force_index", ["i1"]], ["use_index", ["i2"]]]},
        {"cls": "Query", "prefix": [["from", a], ["select", [["s", "x"]]], ["into", ["T", "arch", None]]],
         "calls": [["select", [["s", "y"]]], ["where", ["cmp", "eq", ["x", a], 1]]]},
        # where on the table of the SECOND join; MySQL for_update flags
        {"cls": "Query", "prefix": [["from", a]],
         "calls": [["join", b, "inner", ["on", ["cmp", "eq", ["x", a], ["x", b]], None]],
                   ["join", ["T", "c", None], "left", ["on", ["cmp", "eq", ["x", a], ["x", ["T", "c", None]]], None]],
                   ["where", ["cmp", "eq", ["y", ["T", "c", None]], 1]], sel]},
        {"cls": "MySQLQuery", "prefix": [["from", a]],
         "calls": [["for_update", False, True, ["a"]], sel, ["limit", 5]]},
        # Vertica label hint on statements that do not start with a six-letter keyword (repaired finding: regression)
        {"cls": "VerticaQuery", "prefix": [["from", a]], "calls": [["with", "w", "1"], sel, ["hint", "h"]]},
        {"cls": "VerticaQuery", "prefix": [["into", a]], "calls": [["insert", True, [[1]]], ["hint", "h"]]},
        {"cls": "VerticaQuery", "prefix": [["from", a]], "calls": [["hint", "h"], ["where", ["cmp", "eq", ["x", a], 1]]]},
        {"cls": "VerticaQuery", "prefix": [["update", a]], "calls": [["with", "w", "1"], ["set", "x", 1], ["hint", "h"]]},
        {"cls": "VerticaQuery", "prefix": [["into", a], ["from", b]], "calls": [sel, ["hint", "h"], ["columns", [["s", "x"]]]]},
        {"cls": "ClickHouseQuery", "prefix": [["from", a]],
         "calls": [["final"], ["sample", 10, 5], ["limit_by", 1, None, [["s", "x"]]], ["distinct_on", [["s", "y"]]], sel,
                   ["limit", 5], ["offset", 2], ["where", ["cmp", "eq", ["x", a], 1]]]},
        # a foreign-table reference in where() and a purely local prewhere(): the flag is only ever raised
        {"cls": "ClickHouseQuery", "prefix": [["from", a]],
         "calls": [["where", ["cmp", "eq", ["x", a], ["id", ["T", "d", None]]]], ["prewhere", ["cmp", "eq", ["y", a], 1]], sel,
                   ["limit", 1]]},
        # MSSQL TOP next to limit / offset / fetch_next: every interleaving builds the same statement
        {"cls": "MSSQLQuery", "prefix": [["from", a]],
         "calls": [["top", ["i", 5], False, True], ["limit", 10], ["offset", 3], sel, ["orderby", [["s", "x"]], None]]},
        {"cls": "MSSQLQuery", "prefix": [["from", a]],
         "calls": [["fetch_next", 7], ["top", ["s", "50"], True, False], sel, ["distinct"]]},
        {"cls": "MSSQLQuery", "prefix": [["from", a]], "calls": [["top", ["f", 5.7], False, False], sel, ["limit", 1]]},
        {"cls": "MySQLQuery", "prefix": [["from", a]],
         "calls": [["modifier", "SQL_CALC_FOUND_ROWS"], ["distinct"], sel, ["modifier", "HIGH_PRIORITY"]]},
        {"cls": "SQLLiteQuery", "prefix": [["into", a]],
         "calls": [["insert_or_replace", [[1, "s"]]], ["columns", [["s", "x"], ["s", "y"]]], ["insert_or_replace", [[2, "t"]]]]},
        {"cls": "PostgreSQLQuery", "prefix": [["from", a]],
         "calls": [["distinct_on", [["s", "x"]]], sel, ["distinct_on", [["t", ["field", ["y", a], None]]]], ["distinct"]]},
        # where() on a column of a WITH query, no join: _validate_table must not count the WITH queries present so far
        {"cls": "Query", "prefix": [["from", a]],
         "calls": [["with", "w", "1"], ["where", ["cmp", "eq", ["x", a], ["x", ["W", "w"]]]], sel]},
        {"cls": "ClickHouseQuery", "prefix": [["from", a]],
         "calls": [["prewhere", ["cmp", "eq", ["x", a], ["x", ["W", "v"]]]], ["with", "v", "1"], sel, ["limit", 3]]},
        # call-time str -> Field resolution must not consult the aliases selected so far (joined statement)
        {"cls": "Query", "prefix": [["from", a]],
         "calls": [["join", b, "inner", ["on", ["cmp", "eq", ["id", a], ["id", b]], None]],
                   ["select", [["f", ["field", ["x", a], None]], ["o", ["fn", "Sum", ["y", b], "total"]]]],
                   ["groupby", [["s", "x"]]], ["orderby", [["s", "total"]], None]]},
        {"cls": "MySQLQuery", "prefix": [["from", a], ["from", b]],
         "calls": [["select", [["f", ["field", ["y", b], "x"]]]], ["groupby", [["s", "x"]]], ["select", [["s", "x"]]],
                   ["orderby", [["s", "x"]], "desc"]]},
        # malformed: no FROM
        {"cls": "Query", "prefix": [], "calls": [sel, ["where", ["cmp", "eq", ["x", a], 1]]]},
        {"cls": "Query", "prefix": [["from", a]],
         "calls": [["select", [["f", ["star", a]], ["f", ["field", ["x", a], None]], ["f", ["field", ["y", b], None]]]],
                   ["select", [["f", ["field", ["z", a], None]], ["o", ["const", 5]]]], ["limit", 3]]},
    ]
    for c in cs:
        c.setdefault("stmt", "select")
        c.setdefault("malformed", False)
        c["full"] = True
    return cs


# ==============================================================================================
# evidence helpers
# ==============================================================================================
STATEFUL = {"select", "groupby", "orderby", "where", "prewhere", "join", "columns", "insert"}


def nontrivial_key(case):
    ks = {kind(c) for c in case["calls"]}
    if len(ks) >= 2 and ks & STATEFUL:
        return lib.sha({"p": case["prefix"], "c": case["calls"], "cls": case["cls"]})
    return None


def histogram(cases):
    h = {}

    def inc(k):
        h[k] = h.get(k, 0) + 1
    for c in cases:
        inc("cls=" + c["cls"])
        inc("stmt=" + c.get("stmt", "?"))
        inc("calls=%d" % len(c["calls"]))
        if c.get("malformed"):
            inc("malformed")
        if c.get("family"):
            inc("family=" + c["family"])
        sel_aliases = {it[1][-1] for x in c["calls"] + c["prefix"] if x[0] == "select" for it in x[1]
                       if it[0] in ("f", "o") and it[1][0] in ("field", "fn") and len(it[1]) > 2 and it[1][-1]}
        for x in c["calls"]:
            if x[0] in ("orderby", "groupby", "select"):
                for it in x[1]:
                    if it[0] == "s":
                        inc("str-arg:%s:%s" % (x[0], "is-selected-alias" if it[1] in sel_aliases else "other"))
        for x in c["calls"]:
            inc("call=" + x[0])
        inc("interleavings<=%d" % (10 ** len(str(n_interleavings([kind(x) for x in c["calls"]])))))
    return h


def targeted_search(rng, broken, mism_cases):
    out = []
    # every pair of calls of a disagreeing case on its own prefix
    for c in mism_cases[:10]:
        for x, y in itertools.combinations(c["calls"], 2):
            if kind(x) != kind(y):
                out.append(dict(c, calls=[x, y, ["select", [["s", "x"]]]], full=True))
    # a denser batch with full interleaving enumeration
    for _ in range(600):
        c = gen_case(rng, 5)
        c["full"] = True
        out.append(c)
    return out


# ==============================================================================================
# extraction: the (condition, clause) table of get_sql / _apply_pagination, by ast (fail closed)
# ==============================================================================================
def _clause_name(node):
    """name of the clause an expression emits, or None"""
    names = []
    for n in ast.walk(node):
        if isinstance(n, ast.Call) and isinstance(n.func, ast.Attribute) and isinstance(n.func.value, ast.Name) \
                and n.func.value.id == "self":
            a = n.func.attr
            if a == "_apply_pagination":
                names.append("pagination")
            elif a.startswith("_") and a.endswith("_sql"):
                names.append(a[1:-4])
        if isinstance(n, ast.Attribute) and n.attr == "_joins" and isinstance(n.value, ast.Name) and n.value.id == "self":
            names.append("joins")
    names = list(dict.fromkeys(names))
    if len(names) > 1:
        raise ValueError("statement emits several clauses: %s" % names)
    return names[0] if names else None


def _walk(stmts, conds, out, acc):
    for st in stmts:
        if isinstance(st, ast.If):
            test = ast.unparse(st.test)
            _walk(st.body, conds + [test], out, acc)
            if st.orelse:
                _walk(st.orelse, conds + ["not (%s)" % test], out, acc)
        elif isinstance(st, (ast.Assign, ast.AugAssign)):
            tgt = st.targets[0] if isinstance(st, ast.Assign) else st.target
            if isinstance(tgt, ast.Name) and tgt.id == acc:
                name = _clause_name(st.value)
                if name is not None:
                    out.append((" and ".join(conds), name))
                elif not (isinstance(st.value, ast.Constant) or
                          (isinstance(st.value, ast.Call) and ast.unparse(st.value.func).endswith(".format"))):
                    raise ValueError("unrecognised assignment to the query text: " + ast.unparse(st))
            elif isinstance(tgt, ast.Subscript) or isinstance(tgt, ast.Name):
                continue
            else:
                raise ValueError("unexpected assignment target: " + ast.unparse(st))
        elif isinstance(st, ast.Return):
            out.append((" and ".join(conds), "RETURN"))
        elif isinstance(st, ast.Expr):
            continue
        else:
            raise ValueError("unexpected statement in get_sql: " + type(st).__name__)


def _accumulator(fn):
    """name of the local that accumulates the query text: the variable returned at the end"""
    last = fn.body[-1]
    if not (isinstance(last, ast.Return) and isinstance(last.value, ast.Name)):
        raise ValueError("%s does not end in `return <name>`" % fn.name)
    return last.value.id


def _method(tree, cls, name):
    for n in tree.body:
        if isinstance(n, ast.ClassDef) and n.name == cls:
            for m in n.body:
                if isinstance(m, ast.FunctionDef) and m.name == name:
                    return m
    raise ValueError("%s.%s not found" % (cls, name))


def extract():
    qsrc = open(os.path.join(lib.REPO, "pypika", "queries.py")).read()
    dsrc = open(os.path.join(lib.REPO, "pypika", "dialects.py")).read()
    qt, dt = ast.parse(qsrc), ast.parse(dsrc)
    tables = {}
    for label, tree, cls, meth in [("get_sql", qt, "QueryBuilder", "get_sql"),
                                   ("pagination_base", qt, "QueryBuilder", "_apply_pagination"),
                                   ("pagination_oracle", dt, "OracleQueryBuilder", "_apply_pagination"),
                                   ("pagination_mssql", dt, "MSSQLQueryBuilder", "_apply_pagination"),
                                   ("pagination_clickhouse", dt, "ClickHouseQueryBuilder", "_apply_pagination")]:
        fn = _method(tree, cls, meth)
        out = []
        if label == "pagination_clickhouse":
            # `return super()._apply_pagination(...)` after the LIMIT BY part
            body = fn.body
            if not (isinstance(body[-1], ast.Return) and "super()._apply_pagination" in ast.unparse(body[-1])):
                raise ValueError("ClickHouse _apply_pagination no longer defers to super()")
            _walk(body[:-1], [], out, "querystring")
            out.append(("", "super_pagination"))
        else:
            acc = _accumulator(fn)
            _walk(fn.body, [], out, acc)
        tables[label] = out
    # the dialect builders must not override get_sql's assembly except by wrapping super().get_sql
    for cls in ("MySQLQueryBuilder", "VerticaQueryBuilder", "OracleQueryBuilder", "PostgreSQLQueryBuilder",
                "MSSQLQueryBuilder"):
        try:
            fn = _method(dt, cls, "get_sql")
        except ValueError:
            continue            # the class inherits get_sql
        if "super(" not in ast.unparse(fn):
            raise ValueError("%s.get_sql does not call super().get_sql" % cls)
    v = ["(* generated by harness/props/C08.py:extract() from pypika/queries.py and pypika/dialects.py -- do not edit *)",
         "From PV Require Import Base.", ""]
    for label, rows in tables.items():
        v.append("Definition %s_table : list (string * string) :=" % label)
        v.append("  [" + ";\n   ".join("(%s, %s)" % (S(c), S(n)) for c, n in rows) + "].")
        v.append("")
    return {"gen/C08Table.v": "\n".join(v)}
