"""C13 — aliases are defined once where selected and referenced consistently.
Model: coq/Alias.v on top of the shared expression model coq/Terms.v; tables regenerated into coq/gen/C13Table.v."""
import json
import re

from harness import terms_family as tf
from harness.lib import S, OS, B, L, P

ID = "C13"
COQ_PROP = "props/C13.v"
CORR_REQUIRE = ["Crit", "gen.TermsTable", "Terms", "TermsCorr", "Page", "gen.QueryTable", "Query", "gen.C13Table", "Alias", "AliasCorr"]
CORR_CHECK = "check_c13"
CORR_SHOW = "show_c13"
GEN_FILES = ["gen/C13Table.v"]
SHARED_EXTRACT = ["terms", "query"]      # gen/TermsTable.v, gen/QueryTable.v (shared expression / statement models)
SHARD = 120

SENT = "zqS"          # sentinel alias used by the extraction

# the ten query classes: (Coq constructor, name in pypika / pypika.dialects)
CLASSES = [("QGeneric", "Query"), ("QMySQL", "MySQLQuery"), ("QVertica", "VerticaQuery"), ("QOracle", "OracleQuery"),
           ("QMSSQL", "MSSQLQuery"), ("QPostgres", "PostgreSQLQuery"), ("QRedshift", "RedshiftQuery"),
           ("QClickHouse", "ClickHouseQuery"), ("QSQLite", "SQLLiteQuery"), ("QSnowflake", "SnowflakeQuery")]
CLS_COQ = {py: cq for cq, py in CLASSES}
POSITIONS = [("PSelect", "select"), ("POn", "on"), ("PWhere", "where"), ("PGroup", "group"), ("PHaving", "having"),
             ("POrder", "order"), ("PValues", "values")]
KNOWN_KW = {"quote_char", "secondary_quote_char", "alias_quote_char", "as_keyword", "dialect", "with_alias",
            "with_namespace", "subquery", "subcriterion", "groupby_alias", "query_alias_quote_char"}


def qclass(py):
    import pypika
    import pypika.dialects as D
    return getattr(pypika, py, None) or getattr(D, py)


# ----------------------------------------------------------------------------------------------
# extraction (mode E: alias behaviour of every Term class, format_alias_sql grid; mode I: what reaches each clause
# position of each of the ten builder classes)
# ----------------------------------------------------------------------------------------------
def _al(obj, a):
    return obj if a is None else obj.as_(a)


def _recipes():
    """get_sql owner class name -> (alias -> representative instance)"""
    import pypika.terms as T
    import pypika.enums as E
    from pypika import Query, Table
    import pypika.dialects as D
    f, g = T.Field("a"), T.Field("b")
    u = Table("u")

    def sub(Q):
        return lambda a: _al(Q.from_(u).select("x"), a)

    return {
        "Field": lambda a: T.Field("a", alias=a),
        "Star": lambda a: _al(T.Star(), a),
        "Index": lambda a: T.Index("i", alias=a),
        "ValueWrapper": lambda a: T.ValueWrapper(1, alias=a),
        "JSON": lambda a: T.JSON({"k": 1}, alias=a),
        "Values": lambda a: _al(T.Values("a"), a),
        "LiteralValue": lambda a: T.LiteralValue("L", alias=a),
        "Negative": lambda a: _al(T.Negative(f), a),
        "ArithmeticExpression": lambda a: T.ArithmeticExpression(E.Arithmetic.add, f, g, alias=a),
        "BasicCriterion": lambda a: T.BasicCriterion(E.Equality.gt, f, g, alias=a),
        "ComplexCriterion": lambda a: T.ComplexCriterion(E.Boolean.and_, f == 1, g == 2, alias=a),
        "NestedCriterion": lambda a: T.NestedCriterion(E.Equality.eq, E.Equality.gt, f, g, T.Field("c"), alias=a),
        "ContainsCriterion": lambda a: T.ContainsCriterion(f, T.Tuple(g), alias=a),
        "ExistsCriterion": lambda a: T.ExistsCriterion(Query.from_(u).select("x"), alias=a),
        "BetweenCriterion": lambda a: T.BetweenCriterion(f, g, T.Field("c"), alias=a),
        "PeriodCriterion": lambda a: T.PeriodCriterion(f, g, T.Field("c"), alias=a),
        "BitwiseAndCriterion": lambda a: T.BitwiseAndCriterion(f, T.Term.wrap_constant(2), alias=a),
        "NullCriterion": lambda a: T.NullCriterion(f, alias=a),
        "NotNullCriterion": lambda a: T.NotNullCriterion(f, alias=a),
        "Not": lambda a: T.Not(f == 1, alias=a),
        "All": lambda a: T.All(f, alias=a),
        "Case": lambda a: T.Case(alias=a).when(f == 1, g),
        "Function": lambda a: T.Function("F", f, alias=a),
        "Tuple": lambda a: _al(T.Tuple(f, g), a),
        "Array": lambda a: _al(T.Array(f, g), a),
        "AtTimezone": lambda a: T.AtTimezone(f, "UTC", alias=a),
        "PseudoColumn": lambda a: _al(T.PseudoColumn("ROWNUM"), a),
        "Parameter": lambda a: _al(T.Parameter("?"), a),
        "QmarkParameter": lambda a: _al(T.QmarkParameter(), a),
        "NumericParameter": lambda a: _al(T.NumericParameter(), a),
        "FormatParameter": lambda a: _al(T.FormatParameter(), a),
        "NamedParameter": lambda a: _al(T.NamedParameter(), a),
        "PyformatParameter": lambda a: _al(T.PyformatParameter(), a),
        "QueryBuilder": sub(Query),
        "MySQLQueryBuilder": sub(D.MySQLQuery),
        "VerticaQueryBuilder": sub(D.VerticaQuery),
        "OracleQueryBuilder": sub(D.OracleQuery),
        "MSSQLQueryBuilder": sub(D.MSSQLQuery),
        "PostgreSQLQueryBuilder": sub(D.PostgreSQLQuery),
        "_SetOperation": lambda a: _al(Query.from_(u).select("x").union(Query.from_(u).select("y")), a),
        # ClickHouse helper wrappers with a get_sql of their own
        "clickhouse.search_string._AbstractSearchString":
            lambda a: __import__("pypika.clickhouse.search_string", fromlist=["Match"]).Match(f, "p", alias=a),
        "clickhouse.search_string._AbstractMultiSearchString":
            lambda a: __import__("pypika.clickhouse.search_string", fromlist=["x"]).MultiSearchAny(f, ["p"], alias=a),
        "clickhouse.type_conversion.ToFixedString":
            lambda a: __import__("pypika.clickhouse.type_conversion", fromlist=["x"]).ToFixedString(f, 3, alias=a),
        "clickhouse.array.HasAny": lambda a: __import__("pypika.clickhouse.array", fromlist=["x"]).HasAny(f, g, alias=a),
        "clickhouse.array._AbstractArrayFunction": lambda a: __import__("pypika.clickhouse.array", fromlist=["x"]).Length(f, alias=a),
        "clickhouse.array.Array": lambda a: __import__("pypika.clickhouse.array", fromlist=["x"]).Array([1, 2], alias=a),
        # further members of the Function family (all inherit Function.get_sql; checked below)
        "Function:Sum": lambda a: __import__("pypika.functions", fromlist=["Sum"]).Sum(f, alias=a),
        "Function:Count": lambda a: __import__("pypika.functions", fromlist=["Count"]).Count("*", alias=a),
        "Function:Cast": lambda a: __import__("pypika.functions", fromlist=["Cast"]).Cast(f, "SIGNED", alias=a),
        "Function:Rank.over": lambda a: _al(__import__("pypika.analytics", fromlist=["Rank"]).Rank().over(g), a),
        "Function:Sum.over.rows": lambda a: _al(__import__("pypika.analytics", fromlist=["Sum"]).Sum(f).over(g).orderby(f), a),
    }


ABSTRACT_OWNERS = {"Criterion"}      # Criterion.get_sql() takes no keyword arguments and raises: not renderable


def _owners():
    """every Term subclass -> the class of its MRO that defines get_sql"""
    import importlib
    import pkgutil
    import pypika
    from pypika.terms import Term
    for m in pkgutil.walk_packages(pypika.__path__, "pypika."):
        if ".tests" not in m.name:
            importlib.import_module(m.name)          # sub-packages too (pypika.clickhouse.*)
    seen = {}

    def walk(c):
        for s in c.__subclasses__():
            if s not in seen and s.__module__.startswith("pypika"):
                seen[s] = [k for k in s.__mro__ if "get_sql" in k.__dict__][0]
                walk(s)
    walk(Term)
    return seen


CORE_MODULES = ("pypika.terms", "pypika.queries", "pypika.dialects")


def owner_key(cls):
    """table key of a class that defines get_sql: bare name in the core modules, module-qualified elsewhere"""
    return cls.__name__ if cls.__module__ in CORE_MODULES else cls.__module__[len("pypika."):] + "." + cls.__name__


QS1 = {"quote_char": '"', "secondary_quote_char": "'", "alias_quote_char": "`", "as_keyword": True}
QS2 = {"quote_char": '"', "secondary_quote_char": "'"}


def _suffix(mk, kw):
    try:
        base = mk(None).get_sql(**kw)
        full = mk(SENT).get_sql(**kw)
    except Exception as e:  # noqa  (clickhouse.array.Array.get_sql takes no keyword arguments)
        return "!" + type(e).__name__
    if not full.startswith(base):
        return "!" + full
    return full[len(base):]


def alias_rows():
    rec = _recipes()
    owners = _owners()
    names = sorted({owner_key(o) for o in owners.values()})
    missing = [n for n in names if n not in rec and n not in ABSTRACT_OWNERS]
    if missing:
        raise RuntimeError("Term classes with an own get_sql and no extraction recipe: %r" % missing)
    fam = sorted(s.__name__ for s, o in owners.items() if o.__name__ == "Function")
    rows = []
    for name in sorted(rec):
        mk = rec[name]
        rows.append((name,
                     _suffix(mk, dict(QS1)),
                     _suffix(mk, dict(QS1, with_alias=False)),
                     _suffix(mk, dict(QS1, with_alias=True)),
                     _suffix(mk, dict(QS2, with_alias=True))))
    return rows, fam


def fmt_rows():
    from pypika.utils import format_alias_sql
    rows = []
    for alias in (None, SENT, ""):
        for q in (None, "", '"', "`"):
            for aq in (None, "", '"', "`"):
                for askw in (False, True):
                    rows.append((alias, q, aq, askw,
                                 format_alias_sql("X", alias, quote_char=q, alias_quote_char=aq, as_keyword=askw)))
    return rows


def _probe_class():
    from pypika.terms import Criterion

    class Probe(Criterion):
        """a term of the harness' own: records the keyword arguments the builder hands to get_sql at its position"""
        log = []

        def __init__(self, tag, alias=None):
            super().__init__(alias)
            self.tag = tag

        def nodes_(self):
            yield self

        def get_sql(self, **kw):
            Probe.log.append((self.tag, dict(kw)))
            return "P"
    return Probe


def _ctx_of_kwargs(kw):
    extra = set(kw) - KNOWN_KW
    if extra:
        raise RuntimeError("keyword arguments the model does not know reach get_sql: %r" % sorted(extra))
    d = kw.get("dialect")
    # query_alias_quote_char (the quote of SUB-QUERY aliases, a convention of the outermost class) has no field in the shared
    # ctx: Terms.v's TSub quotes its alias with quote_char, which is what every class amounts to ('' or the quote_char itself)
    if (kw.get("query_alias_quote_char") or kw.get("quote_char") or "") != (kw.get("quote_char") or ""):
        raise RuntimeError("query_alias_quote_char %r differs from quote_char %r: TSub's alias quote is no longer modelled"
                           % (kw.get("query_alias_quote_char"), kw.get("quote_char")))
    return {"q": kw.get("quote_char"), "sq": kw.get("secondary_quote_char", "'"), "aq": kw.get("alias_quote_char"),
            "askw": bool(kw.get("as_keyword", False)), "dia": None if d is None else d.value,
            "wa": bool(kw.get("with_alias", False)), "wn": bool(kw.get("with_namespace", False)),
            "subq": bool(kw.get("subquery", False)), "subc": bool(kw.get("subcriterion", False))}


def position_table():
    """(class, position, joined) -> ctx ; class -> (GROUP BY / ORDER BY replace an element whose alias name is selected,
    ... an element whose alias name is NOT selected)"""
    from pypika import Table, Order
    Probe = _probe_class()
    t, u = Table("t"), Table("u")
    ctxs, refs = {}, {}
    for cq, py in CLASSES:
        Q = qclass(py)
        for j in (False, True):
            Probe.log.clear()
            q = Q.from_(t)
            if j:
                q = q.join(u).on(Probe("on"))
            q = (q.select(Probe("select", SENT)).where(Probe("where"))
                 .groupby(Probe("groupref", SENT), Probe("groupother", "zqOther"), Probe("group")).having(Probe("having"))
                 .orderby(Probe("orderref", SENT), Probe("orderother", "zqOther"), Probe("order"), order=Order.desc))
            str(q)
            got = {}
            for tag, kw in Probe.log:
                got.setdefault(tag, []).append(kw)
            for tag in ("select", "where", "group", "having", "order") + (("on",) if j else ()):
                if len(got.get(tag, [])) != 1:
                    raise RuntimeError("%s: probe at %s rendered %d times" % (py, tag, len(got.get(tag, []))))
                ctxs[(cq, tag, j)] = _ctx_of_kwargs(got[tag][0])
            flags = ("groupref" not in got, "orderref" not in got, "groupother" not in got, "orderother" not in got)
            if j is False:
                refs[cq] = flags
            elif refs[cq] != flags:
                raise RuntimeError("%s: alias substitution depends on the presence of a join" % py)
            for tag in ("groupref", "orderref", "groupother", "orderother"):
                if tag in got:
                    base = "group" if tag.startswith("group") else "order"
                    if _ctx_of_kwargs(got[tag][0]) != ctxs[(cq, base, j)]:
                        raise RuntimeError("%s: %s position contexts differ between elements" % (py, base))
        Probe.log.clear()
        str(Q.into(t).insert(Probe("values", SENT)))
        if len(Probe.log) != 1:
            raise RuntimeError("%s: VALUES probe rendered %d times" % (py, len(Probe.log)))
        ctxs[(cq, "values", False)] = _ctx_of_kwargs(Probe.log[0][1])
    return ctxs, refs


STAR_KINDS = ["field", "arith", "func", "case", "sub", "basic", "cplx", "isnull", "between", "in", "vali", "lit", "tuple",
              "not", "bitand", "all", "cast"]


def star_programs():
    """select-list programs around '*' / table stars: every modelled kind after and before '*', after and before t.* and the
    table-less Star(); fields of table t / u / no table"""
    T, U = ["t", [], None], ["u", [], None]
    progs = []
    for k in STAR_KINDS:
        x = simple_top(k, SENT)
        progs += [[["*"], x], [x, ["*"]], [["star", T], x], [x, ["star", T]], [["star", None], x], [x, ["star", None]]]
    for tb in (None, T, U):
        f = F("a", SENT, tb)
        progs += [[["*"], f], [f, ["*"]], [["star", T], f], [f, ["star", T]], [["star", None], f], [f, ["star", None]],
                  [f, ["star", T], ["func", "F", [f], "zqB"], ["*"], f, ["func", "G", [], "zqC"]]]
    progs += [[["*"], ["star", T]], [["star", T], ["*"]], [["star", T], ["star", T]], [["star", T], ["star", U], F("a", None, U)],
              [["*"], ["*"], ["func", "F", [], SENT]]]
    return progs


def sitem_coq(i):
    return "SStar" if i[0] == "*" else "(ST %s)" % coq_term(i)


def star_rows():
    from pypika import Query, Table
    rows = []
    for prog in star_programs():
        memo = {}
        q = Query.from_(Table("t")).join(Table("u")).cross().select(*[("*" if i[0] == "*" else bld(i, memo)) for i in prog])
        texts = [x.get_sql(quote_char='"', secondary_quote_char="'", with_alias=True, with_namespace=True, subquery=True)
                 for x in q._selects]
        rows.append((prog, texts))
    return rows


def extract():
    import pypika.enums as E
    rows, fam = alias_rows()
    out = ["(* GENERATED by harness/props/C13.py:extract() from the pypika sources on every run. Do not edit. *)",
           "From PV Require Import Base Crit gen.TermsTable Terms.", "",
           "Inductive qclass := " + " | ".join(c for c, _ in CLASSES) + ".",
           "Inductive pos := " + " | ".join(c for c, _ in POSITIONS) + ".",
           "Inductive dir := DAsc | DDesc.",
           "(* an argument of select(): the string '*' or a term (Star objects are terms) *)",
           "Inductive sitem := SStar | ST (t : term).", ""]
    out.append("Definition all_qclasses : list qclass := %s." % L([c for c, _ in CLASSES]))
    out.append("Definition dir_text (d : dir) : string := match d with DAsc => %s | DDesc => %s end."
               % (S(E.Order.asc.value), S(E.Order.desc.value)))
    # alias behaviour rows
    out.append("(* per class that defines get_sql: the text appended for an instance aliased %s, relative to the same instance "
               "without alias, when with_alias is absent / False / True under quote set 1 (quote_char = double quote, "
               "alias_quote_char = backtick, as_keyword = True), and when True under quote set 2 (quote_char = double quote only) *)" % SENT)
    out.append("Definition x_alias_rows : list (string * (string * string * string * string)) := [")
    out.append(";\n".join("  (%s, (%s, %s, %s, %s))" % tuple(S(x) for x in r) for r in rows))
    out.append("].")
    out.append("Definition x_function_family : list string := %s." % L([S(x) for x in fam]))
    # format_alias_sql grid
    out.append("Definition x_fmt_rows : list (option string * option string * option string * bool * string) := [")
    out.append(";\n".join("  (%s, %s, %s, %s, %s)" % (OS(a), OS(q), OS(aq), B(k), S(txt)) for a, q, aq, k, txt in fmt_rows()))
    out.append("].")
    # contexts per class and position
    ctxs, refs = position_table()
    out.append("Definition x_ctx_at (c : qclass) (p : pos) (joined : bool) : ctx := match c, p, joined with")
    for cq, _ in CLASSES:
        for pq, tag in POSITIONS:
            for j in (False, True):
                key = (cq, tag, j)
                if key not in ctxs:
                    key = (cq, tag, not j)      # ON exists only with a join, VALUES only without: the other row is never used
                out.append("  | %s, %s, %s => %s" % (cq, pq, B(j), tf.ctx_coq(ctxs[key])))
    out.append("  end.")
    for ix, name in enumerate(("x_group_ref", "x_order_ref", "x_group_ref_unselected", "x_order_ref_unselected")):
        out.append("Definition %s (c : qclass) : bool := match c with %s end."
                   % (name, " ".join("| %s => %s" % (cq, B(refs[cq][ix])) for cq, _ in CLASSES)))
    # what select() leaves in _selects around stars: program -> texts of the surviving items
    out.append("Definition x_star_rows : list (list sitem * list string) := [")
    out.append(";\n".join("  (%s, %s)" % (L([sitem_coq(i) for i in prog]), L([S(t) for t in texts])) for prog, texts in star_rows()))
    out.append("].")
    return {"gen/C13Table.v": "\n".join(out) + "\n"}


# ----------------------------------------------------------------------------------------------
# term specs: the `terms` family plus three kinds of this plugin
#   ["agg", NAME, arg, alias]   a real aggregate (pypika.functions.Sum ...); modelled as TFunc NAME [arg]
#   ["nega", t, alias]          Negative(t).as_(alias)            (oracle only: TNeg has no alias slot)
#   ["an", NAME, arg, part, alias]   analytic NAME(arg) OVER(PARTITION BY part)   (oracle only)
# ----------------------------------------------------------------------------------------------
RULE = ("(a) terms of the shared `terms` family with aliases at every level (p=0.45) rendered under random keyword contexts; "
        "(b) SELECT statements of all ten query classes: 1-3 aliased select items (field, arithmetic, function, aggregate, "
        "analytic, CASE, sub-query, comparisons, and the alias-ignoring kinds), the SAME objects re-used as/inside the join "
        "criterion, WHERE, HAVING, function arguments and larger expressions, GROUP BY / ORDER BY elements that are the selected "
        "object, a different object with a selected name, or an un-selected name; (c) INSERT ... VALUES rows; (d) a malformed "
        "stream (empty criteria, CASE without WHEN, empty alias); (e) nested statements of the shared queries family: aliased items "
        "with GROUP BY / ORDER BY at every level, sub-queries of another class in FROM / JOIN / select list / IN / EXISTS, set "
        "operations with branch-specific aliases and a chain ORDER BY (model: coq/Query.v); (f) the same cases with alias VALUES "
        "that coincide with something else (own column name, another column, table name, table alias, keyword, empty string, "
        "blank inside, mixed case), judged by a renaming-commutes oracle; (g) half of the flat statements with GROUP BY / ORDER BY "
        "are built by a random interleaving of single select()/where()/groupby()/having()/orderby() calls with str() of the "
        "intermediate builder after random calls (the model is a function of the final spec: a difference is a state leak). "
        "(h) select lists with '*' / t.* / Star() before or after aliased terms (what survives is modelled by normalize_sel, "
        "tied to select() by extracted star programs), the terms re-used in GROUP BY / ORDER BY. "
        "(i) the ClickHouse helper wrappers of pypika/clickhouse/*.py (enumerated from the source) around aliased "
        "column objects in every position; (j) each dialect's own select-list hooks over aliased items: distinct(), MSSQL "
        "top(n, percent, with_ties), MySQL modifier(), PostgreSQL / ClickHouse distinct_on(). Otherwise alias names are sentinels (zq..) so the oracle can count "
        "them per clause. Non-trivial = some aliased object sits in a non-select position or inside another expression, or a "
        "GROUP BY/ORDER BY element is aliased; distinct by structural hash.")
TRUSTED = [
    "coq/Query.v + harness/queries_family.py (shared statement model for the nested family; its class table gen/QueryTable.v is regenerated on every run)",
    "coq/Terms.v + harness/terms_family.py (shared expression model and its spec<->pypika<->Gallina mapping, validated by C02's correspondence)",
    "harness/props/C13.py builds the same statement on pypika and as a Gallina value; identical sub-specs become ONE Python object",
    "the specification side of Alias.v section 4 (alias quote / AS keyword / GROUP BY-alias support per class), written from the dialects' manuals",
    "extract(): a harness-owned Term subclass (Probe) records the keyword arguments each builder class hands to each clause position",
    "oracle: lexes str(query) into clauses and top-level elements (quotes doubled, parentheses/brackets nested) and counts sentinel alias names",
]
ASSUMPTIONS = [
    "statement cases use table-less fields or fields of the FROM / joined table (no foreign-table namespace switch), one inner join",
    "aliases are non-empty in the theorems (pypika treats the empty alias as absent in GROUP BY/ORDER BY but renders it in the select list)",
    "aliased Negative, analytic functions, ExistsCriterion, JSON, AtTimezone, PeriodCriterion, NestedCriterion, set operations are outside the "
    "Coq term model: covered by the extracted table (x_alias_rows) and, for Negative/analytics, by the oracle only",
    "sub-queries used as terms are generic Query objects (Terms.v TSub)",
]

ALIAS_IX = {"field": 3, "vals": 2, "vali": 2, "valb": 3, "valnone": 1, "valf": 2, "vald": 2, "lit": 2, "null": 1, "arith": 4,
            "basic": 4, "cplx": 4, "in": 4, "between": 4, "bitand": 3, "isnull": 2, "notnull": 2, "not": 2, "all": 2, "case": 3,
            "func": 3, "cast": 3, "tuple": 2, "array": 2, "sub": 1, "nega": 2, "agg": 3, "an": 4, "ch": 4, "existsc": 1}
FUNCLIKE = ("func", "cast", "agg", "an", "ch")
ORACLE_ONLY = ("nega", "an", "existsc")
AGGS = {"SUM": "Sum", "AVG": "Avg", "MIN": "Min", "MAX": "Max", "COUNT": "Count"}


def alias_of(t):
    ix = ALIAS_IX.get(t[0])
    return None if ix is None else t[ix]


def with_alias(t, a):
    ix = ALIAS_IX.get(t[0])
    if ix is None:
        return t
    t2 = list(t)
    t2[ix] = a
    return t2


def children(t):
    k = t[0]
    if k in ("neg", "nega", "bitand", "isnull", "notnull", "not", "all", "cast"):
        return [t[1]]
    if k in ("arith", "basic", "cplx"):
        return [t[2], t[3]]
    if k == "in":
        return [t[1], t[2]]
    if k == "between":
        return [t[1], t[2], t[3]]
    if k == "case":
        return [x for cv in t[1] for x in cv] + ([t[2]] if t[2] is not None else [])
    if k == "func":
        return list(t[2])
    if k == "agg":
        return [t[2]]
    if k == "an":
        return [t[2]] + list(t[3])
    if k == "ch":
        return list(t[2])
    if k in ("tuple", "array"):
        return list(t[1])
    return []


def map_children(t, f):
    """the same node with f applied to every child spec"""
    k = t[0]
    t = list(t)
    if k in ("neg", "nega", "bitand", "isnull", "notnull", "not", "all", "cast"):
        t[1] = f(t[1])
    elif k in ("arith", "basic", "cplx"):
        t[2], t[3] = f(t[2]), f(t[3])
    elif k == "in":
        t[1], t[2] = f(t[1]), f(t[2])
    elif k == "between":
        t[1], t[2], t[3] = f(t[1]), f(t[2]), f(t[3])
    elif k == "case":
        t[1] = [[f(c), f(v)] for c, v in t[1]]
        t[2] = None if t[2] is None else f(t[2])
    elif k == "func":
        t[2] = [f(x) for x in t[2]]
    elif k == "agg":
        t[2] = f(t[2])
    elif k == "an":
        t[2] = f(t[2])
        t[3] = [f(x) for x in t[3]]
    elif k == "ch":
        t[2] = [f(x) for x in t[2]]
    elif k in ("tuple", "array"):
        t[1] = [f(x) for x in t[1]]
    return t


def nodes(t, parent=None):
    """(node, parent node) for every node of the tree, pre-order"""
    yield t, parent
    for c in children(t):
        yield from nodes(c, t)


def _ends_in_sub(t):
    return t[0] == "sub" or (t[0] == "not" and _ends_in_sub(t[1]))


# ---- ClickHouse helper wrappers (pypika/clickhouse/*.py), enumerated from the source -------------------------------
#   ["ch", ClassName, [term args], extra, alias]   extra = pattern / pattern list / length (None otherwise)
CH_PATTERNS = {("name", "pattern"): "pat", ("name", "patterns"): "pats", ("name",): "one", ("field", "length"): "fix",
               ("left_array", "right_array"): "two-arrays", ("array",): "one-array", ("*conditions",): "var", ("term", "alt"): "two"}
_CH = None


def ch_classes():
    """concrete Term classes of pypika.clickhouse.* -> (module, constructor pattern, owner key of get_sql); fails closed on a
    class whose constructor shape is unknown"""
    global _CH
    if _CH is not None:
        return _CH
    import inspect
    owners = _owners()
    out = {}
    for cls, owner in owners.items():
        if not cls.__module__.startswith("pypika.clickhouse.") or inspect.isabstract(cls):
            continue
        if cls.__name__ == "Array":
            continue                       # a literal, not a wrapper of a term (its get_sql takes no keyword arguments)
        ps = []
        for n_, p_ in list(inspect.signature(cls.__init__).parameters.items())[1:]:
            if n_ in ("alias", "schema", "kwargs"):
                continue
            ps.append(("*" + n_) if p_.kind == p_.VAR_POSITIONAL else n_)
        pat = CH_PATTERNS.get(tuple(ps))
        if pat is None:
            raise RuntimeError("ClickHouse helper %s.%s has an unknown constructor shape %r" % (cls.__module__, cls.__name__, ps))
        out[cls.__name__] = (cls.__module__, pat, owner_key(owner))
    if not out:
        raise RuntimeError("no ClickHouse helper classes found")
    _CH = out
    return out


def ch_make(name, args, extra, alias):
    import importlib
    mod, pat, _ = ch_classes()[name]
    C = getattr(importlib.import_module(mod), name)
    if pat in ("pat", "pats", "fix"):
        return C(args[0], extra, alias=alias)
    if pat in ("one", "one-array"):
        return C(args[0], alias=alias)
    if pat in ("two-arrays", "two"):
        return C(args[0], args[1], alias=alias)
    return C(*args, alias=alias)


def ch_spec(name, arg, alias, arg2=None):
    """a spec of helper class `name` around the term spec `arg`"""
    _, pat, _ = ch_classes()[name]
    extra = {"pat": "p%", "pats": ["p", "q"], "fix": 3}.get(pat)
    args = [arg] if pat in ("pat", "pats", "fix", "one", "one-array") else [arg, arg2 or F("b")]
    if pat == "var":
        args = [["basic", "gt", arg, I(0), None], arg, arg2 or I(0)]
    return ["ch", name, args, extra, alias]


def ch_is_function(name):
    """does the helper inherit Function.get_sql (then the shared TFunc models it)?"""
    return ch_classes()[name][2] == "Function"


def modelled(t):
    """inside the Coq term model?  Not: aliased Negative, analytic functions, and a sub-query as a direct arithmetic operand
    (pypika parenthesises it by accident -- getattr(subquery, "operator") is a Field -- which the shared Terms.v does not model)"""
    for n, _ in nodes(t):
        if n[0] in ORACLE_ONLY or (n[0] == "ch" and not ch_is_function(n[1])):
            return False
        if n[0] == "arith" and (_ends_in_sub(n[2]) or _ends_in_sub(n[3])):
            return False
    return True


def bld(t, memo):
    """spec -> pypika object; structurally equal specs inside one case are ONE object (memo)"""
    import pypika.terms as T
    import pypika.enums as E
    key = json.dumps(t)
    if key in memo:
        return memo[key]
    k = t[0]
    b = lambda x: bld(x, memo)   # noqa: E731
    if k == "neg":
        o = T.Negative(b(t[1]))
    elif k == "nega":
        o = T.Negative(b(t[1])).as_(t[2])
    elif k == "arith":
        o = T.ArithmeticExpression(getattr(E.Arithmetic, t[1]), b(t[2]), b(t[3]), alias=t[4])
    elif k == "basic":
        cls = E.Equality if t[1] in tf.EQUALITY else E.Matching
        o = T.BasicCriterion(getattr(cls, t[1]), b(t[2]), b(t[3]), alias=t[4])
    elif k == "cplx":
        o = T.ComplexCriterion(getattr(E.Boolean, t[1] + "_"), b(t[2]), b(t[3]), alias=t[4])
    elif k == "in":
        o = T.ContainsCriterion(b(t[1]), b(t[2]), alias=t[4])
        o = o.negate() if t[3] else o
    elif k == "between":
        o = T.BetweenCriterion(b(t[1]), b(t[2]), b(t[3]), alias=t[4])
    elif k == "bitand":
        o = T.BitwiseAndCriterion(b(t[1]), T.Term.wrap_constant(int(t[2])), alias=t[3])
    elif k == "isnull":
        o = T.NullCriterion(b(t[1]), alias=t[2])
    elif k == "notnull":
        o = T.NotNullCriterion(b(t[1]), alias=t[2])
    elif k == "not":
        o = T.Not(b(t[1]), alias=t[2])
    elif k == "all":
        o = T.All(b(t[1]), alias=t[2])
    elif k == "case":
        o = T.Case(alias=t[3])
        for cr, v in t[1]:
            o = o.when(b(cr), b(v))
        if t[2] is not None:
            o = o.else_(b(t[2]))
    elif k == "func":
        o = T.Function(t[1], *[b(a) for a in t[2]], alias=t[3])
    elif k == "cast":
        from pypika.functions import Cast
        o = Cast(b(t[1]), t[2], alias=t[3])
    elif k == "agg":
        import pypika.functions as F
        o = getattr(F, AGGS[t[1]])(b(t[2]), alias=t[3])
    elif k == "ch":
        o = ch_make(t[1], [b(a) for a in t[2]], t[3], t[4])
    elif k == "an":
        import pypika.analytics as A
        o = getattr(A, AGGS[t[1]])(b(t[2])).over(*[b(x) for x in t[3]])
        o = _al(o, t[4])
    elif k == "existsc":
        # ["existsc", alias, used_as_from]: EXISTS (SELECT "tid" FROM "u"); used_as_from: the sub-query object was a FROM
        # source of another, already rendered statement before (pypika wrote sq0 into it)
        from pypika import Query, Table
        u = Table("u")
        sq = Query.from_(u).select(u.tid)
        if t[2]:
            str(Query.from_(sq).select("*"))
        o = T.ExistsCriterion(sq, alias=t[1])
    elif k == "tuple":
        o = _al(T.Tuple(*[b(a) for a in t[1]]), t[2])
    elif k == "array":
        o = _al(T.Array(*[b(a) for a in t[1]]), t[2])
    else:
        o = tf.build(t)          # leaves
    memo[key] = o
    return o


def coq_term(t):
    k = t[0]
    if k == "agg":
        return "(TFunc %s (TCons %s TNil) None %s)" % (S(t[1]), coq_term(t[2]), OS(t[3]))
    if not modelled(t):
        raise ValueError("not modelled")
    if not children(t):
        return tf.coq(t)
    # composite kinds of the shared family: re-use tf.coq on a tree whose agg nodes are already rewritten
    return tf.coq(_rewrite_aggs(t))


def _rewrite_aggs(t):
    if t[0] == "agg":
        return ["func", t[1], [_rewrite_aggs(t[2])], t[3]]
    if t[0] == "ch":      # only the helpers that inherit Function.get_sql reach this point (modelled())
        return ["func", ch_make(t[1], [tf.build(F("a")) for _ in t[2]], t[3], None).name, [_rewrite_aggs(x) for x in t[2]], t[4]]
    return map_children(t, _rewrite_aggs)


def owner_name(obj):
    return [k for k in type(obj).__mro__ if "get_sql" in k.__dict__][0].__name__


# ----------------------------------------------------------------------------------------------
# implementation side
# ----------------------------------------------------------------------------------------------
# ---- each dialect's own select-list hooks: case["head"] = {"distinct": bool, "top": [n, percent, with_ties] (MSSQL),
#      "modifiers": [...] (MySQL), "distinct_on": [column names] (PostgreSQL, ClickHouse)}
HEAD_HOOKS = {"MSSQLQuery": ("top",), "MySQLQuery": ("modifiers",), "PostgreSQLQuery": ("distinct_on",),
              "ClickHouseQuery": ("distinct_on",)}


def apply_head(q, case):
    h = case.get("head") or {}
    if h.get("distinct"):
        q = q.distinct()
    if h.get("top") is not None:
        n, pct, ties = h["top"]
        q = q.top(n, percent=pct, with_ties=ties) if (pct or ties) else q.top(n)
    for m in h.get("modifiers") or []:
        q = q.modifier(m)
    if h.get("distinct_on"):
        q = q.distinct_on(*h["distinct_on"])
    return q


def head_text(case):
    """the text the hooks put between SELECT and the select list (harness side of the CStmtH correspondence case)"""
    h = case.get("head") or {}
    cls = case["cls"]
    if h.get("distinct_on"):
        qc = SPEC_QUOTE.get(cls, '"')
        d = "DISTINCT ON(%s) " % ",".join(qc + c + qc for c in h["distinct_on"])
    else:
        d = "DISTINCT " if h.get("distinct") else ""
    if h.get("top") is not None:
        n, pct, ties = h["top"]
        d += "TOP (%d) " % n + ("PERCENT " if pct else "") + ("WITH TIES " if ties else "")
    if h.get("modifiers"):
        d += " ".join(h["modifiers"]) + " "
    return d


def default_prog(case):
    """the builder calls of a flat statement in the canonical order, nothing rendered in between"""
    steps = [["select", i, False] for i in range(len(case["sel"]))]
    if case.get("where") is not None:
        steps.append(["where", 0, False])
    steps += [["group", j, False] for j in range(len(case.get("group") or []))]
    if case.get("having") is not None:
        steps.append(["having", 0, False])
    steps += [["order", k, False] for k in range(len(case.get("order") or []))]
    return steps


def build_query(case, memo, plain=False):
    """flat statement through the builder API.  case["prog"] (optional): the calls as [op, index, render-after?] in the order
    they are issued -- one select()/groupby()/orderby() call per element, interleaved, with str(q) of the INTERMEDIATE builder
    after the flagged calls; the final statement is the same function of the spec (plain=True: canonical order, no renders)"""
    from pypika import Table, Order
    Q = qclass(case["cls"])
    t, u = Table("t"), Table("u")
    if case["kind"] == "ins":
        return Q.into(t).insert(*[bld(x, memo) for x in case["row"]])
    q = Q.from_(t)
    if case.get("on") is not None:
        q = q.join(u).on(bld(case["on"], memo))
    prog = case.get("prog") if not plain else None
    if prog is None:
        if case.get("selprog") is not None:     # the arguments of select() incl. the string '*' and Star objects
            q = q.select(*[("*" if i[0] == "*" else bld(i, memo)) for i in case["selprog"]])
        else:
            q = q.select(*[bld(x, memo) for x in case["sel"]])
        if case.get("where") is not None:
            q = q.where(bld(case["where"], memo))
        if case.get("group"):
            q = q.groupby(*[bld(x, memo) for x in case["group"]])
        if case.get("having") is not None:
            q = q.having(bld(case["having"], memo))
        for x, d in case.get("order") or []:
            q = q.orderby(bld(x, memo), order=None if d is None else getattr(Order, d))
        return apply_head(q, case)
    for op, ix, render in prog:
        if op == "select":
            q = q.select(bld(case["sel"][ix], memo))
        elif op == "where":
            q = q.where(bld(case["where"], memo))
        elif op == "group":
            q = q.groupby(bld(case["group"][ix], memo))
        elif op == "having":
            q = q.having(bld(case["having"], memo))
        elif op == "order":
            x, d = case["order"][ix]
            q = q.orderby(bld(x, memo), order=None if d is None else getattr(Order, d))
        if render:
            try:
                str(q)                      # e.g. logging the intermediate statement
            except Exception:  # noqa
                pass
    return apply_head(q, case)


def run_impl(case):
    try:
        if case["kind"] == "term":
            text = bld(case["t"], {}).get_sql(**tf.ctx_kwargs(case["c"]))
        elif case["kind"] == "q":
            from harness import queries_family as qf
            text = str(qf.build_query(case["q"]))
        else:
            text = str(build_query(case, {}))
    except Exception as e:  # noqa
        text = "!" + type(e).__name__
    return {"text": text}


def to_coq(case, outcome):
    text = outcome.get("text")
    if text is None:
        return None
    try:
        if case["kind"] == "term":
            return "(CTerm %s %s %s)" % (tf.ctx_coq(case["c"]), coq_term(case["t"]), S(text))
        if case["kind"] == "ins":
            return "(CIns %s %s %s)" % (CLS_COQ[case["cls"]], L([coq_term(x) for x in case["row"]]), S(text))
        if case["kind"] == "q":
            from harness import queries_family as qf
            return "(CQ %s %s)" % (qf.coq_query(case["q"]), S(text))
        o = lambda x: "None" if x is None else "(Some %s)" % coq_term(x)   # noqa: E731
        order = L(["(%s, %s)" % (coq_term(x), "None" if d is None else "(Some %s)" % ("DAsc" if d == "asc" else "DDesc"))
                   for x, d in case.get("order") or []])
        ctor = "CStmt" if not case.get("head") else "CStmtH"
        tail = S(text) if not case.get("head") else "%s %s" % (S(head_text(case)), S(text))
        return ("(" + ctor + " {| s_cls := %s; s_sel := %s; s_on := %s; s_where := %s; s_group := %s; s_having := %s; s_order := %s |} %s)"
                % (CLS_COQ[case["cls"]],
                   ("(normalize_sel %s)" % L([sitem_coq(i) for i in case["selprog"]])) if case.get("selprog") is not None
                   else L([coq_term(x) for x in case["sel"]]), o(case.get("on")), o(case.get("where")),
                   L([coq_term(x) for x in case.get("group") or []]), o(case.get("having")), order, tail))
    except ValueError:
        return None          # contains a kind the Coq term model does not have


# ----------------------------------------------------------------------------------------------
# oracle: occurrences and lexical form of the sentinel alias names in the rendered text
# ----------------------------------------------------------------------------------------------
SENT_RE = re.compile(r"zq[0-9A-Za-z]+")
# specification table of the oracle (the property's "dialect's alias convention" / "the dialect allows it")
SPEC_QUOTE = {"MySQLQuery": "`", "OracleQuery": ""}
SPEC_AS = {"ClickHouseQuery": True}
NO_GROUP_ALIAS = ("OracleQuery", "MSSQLQuery")
HEAD_RE = re.compile(r'(DISTINCT ON\([^)]*\) |DISTINCT )?(TOP \(\d+\) (PERCENT )?(WITH TIES )?)?((SQL_[A-Z_]+|HIGH_PRIORITY|STRAIGHT_JOIN) )*')
FROM_T = re.compile(r'(["`]?)t\1(?= |$)')


def scan(text):
    """yield (index, char, depth, in_quote) ; quotes ' \" ` with doubling, depth over () and []"""
    i, n, depth = 0, len(text), 0
    while i < n:
        ch = text[i]
        if ch in "'\"`":
            j = i + 1
            while j < n:
                if text[j] == ch:
                    if j + 1 < n and text[j + 1] == ch:
                        j += 2
                        continue
                    break
                j += 1
            for k_ in range(i, min(j + 1, n)):
                yield k_, text[k_], depth, True
            i = j + 1
            continue
        if ch in "([":
            depth += 1
        yield i, ch, depth, False
        if ch in ")]":
            depth -= 1
        i += 1


def top_positions(text):
    """indices of characters at depth 0 outside quotes"""
    return [i for i, ch, d, qd in scan(text) if d == 0 and not qd]


def find_top(text, kw, start=0):
    tops = set(top_positions(text))
    i = text.find(kw, start)
    while i != -1:
        if all((i + k_) in tops for k_ in range(len(kw))):
            return i
        i = text.find(kw, i + 1)
    return -1


def split_top(text, sep=","):
    tops = set(top_positions(text))
    out, last = [], 0
    for i, ch in enumerate(text):
        if ch == sep and i in tops:
            out.append(text[last:i])
            last = i + 1
    out.append(text[last:])
    return out


def split_statement(case, text):
    """clause name -> segment text, following the clauses the case has; None when the text has another shape"""
    if case["kind"] == "ins":
        i = find_top(text, " VALUES ")
        if i == -1 or not text[i + 8:].startswith("(") or not text.endswith(")"):
            return None
        return {"values": text[i + 9:-1]}
    plan = [("select", "SELECT "), ("from", " FROM ")]
    if case.get("on") is not None:
        plan += [("join", " JOIN "), ("on", " ON ")]
    if case.get("where") is not None:
        plan.append(("where", " WHERE "))
    if case.get("group"):
        plan.append(("groupby", " GROUP BY "))
    if case.get("having") is not None:
        plan.append(("having", " HAVING "))
    if case.get("order"):
        plan.append(("orderby", " ORDER BY "))
    pos, marks = 0, []
    for name, kw in plan:
        if name == "select":
            i = 0 if text.startswith(kw) else -1
        elif name == "from":
            # the statement's own FROM names table t (sub-queries, which some positions leave unparenthesised, read from u)
            i, start = -1, pos
            while True:
                i = find_top(text, kw, start)
                if i == -1 or FROM_T.match(text, i + len(kw)):
                    break
                start = i + 1
        else:
            i = find_top(text, kw, pos)
        if i == -1:
            return None
        marks.append((name, i, i + len(kw)))
        pos = i + len(kw)
    segs = {}
    for k_, (name, i, j) in enumerate(marks):
        end = marks[k_ + 1][1] if k_ + 1 < len(marks) else len(text)
        segs[name] = text[j:end]
    return segs


def occurrences(seg, name):
    """lexical forms of the occurrences of a sentinel name in a segment: list of (start, end, quote, has_as)"""
    out = []
    for m in SENT_RE.finditer(seg):
        if m.group(0) != name:
            continue
        s, e = m.start(), m.end()
        qc = ""
        if s > 0 and e < len(seg) and seg[s - 1] == seg[e] and seg[s - 1] in "\"`":
            qc = seg[s - 1]
            s, e = s - 1, e + 1
        has_as = seg[:s].endswith(" AS ")
        out.append((s, e, qc, has_as))
    return out


def ignores_with_alias(obj, name):
    """does the object render its own alias when asked not to (with_alias=False)?  observed on the implementation"""
    try:
        return name in SENT_RE.findall(obj.get_sql(with_alias=False, quote_char='"', secondary_quote_char="'"))
    except Exception:  # noqa
        return False


def judge_element(spec, seg, role, conv, memo, selected_names, allowed_ref, select_defs, undefined_culprit=None):
    """role: 'select' | 'non-select' (where/having/on) | 'values' | 'groupby' | 'orderby'
    conv = (quote, as_keyword) of the class / context, or None: lexical form not judged.
    allowed_ref: True = a selected name must be referenced, False = must not, None = either is accepted.
    Returns violations."""
    out = []
    q, askw = conv if conv is not None else ("", False)
    top_alias = alias_of(spec)
    sentinel = top_alias if (top_alias and SENT_RE.fullmatch(top_alias)) else None

    def viol(ctor, where, what, msg):
        out.append({"signature": ["C13", ctor, where, what], "what": msg + " in %r" % seg})

    top_obj = bld(spec, memo)
    top_cls = owner_name(top_obj)
    expect_own = 0
    if role == "select" and sentinel:
        expect_own = 1
        suffix = (" AS " if askw else " ") + q + sentinel + q
        occ = occurrences(seg, sentinel)
        tail = [o for o in occ if o[1] == len(seg)]
        if not occ:
            viol(top_cls, "select", "alias-missing", "selected object aliased %s renders without its alias" % sentinel)
            m_f = re.search(r'\) (?:AS )?["`]?(sq\d+)["`]?$', seg)
            if m_f:
                viol(top_cls, "select", "alias-foreign", "selected object aliased %s renders with the name %s, which belongs to "
                     "an inner object (written into it by an earlier render)" % (sentinel, m_f.group(1)))
        elif not tail:
            viol(top_cls, "select", "alias-missing", "alias %s is not at the end of its select item" % sentinel)
        elif top_cls == "ExistsCriterion" and re.search(r'\) (?:AS )?["`]?(sq\d+)["`]? (?:AS )?["`]?%s["`]?$' % re.escape(sentinel), seg):
            # the expression is followed by TWO names: an inner object's generated name and then its own alias (seeded/C04-20)
            viol(top_cls, "select", "alias-foreign", "selected object aliased %s also renders a generated name that belongs to an "
                 "inner object (written into it by an earlier render) before its alias: %r" % (sentinel, seg[-60:]))
        elif conv is not None and (not seg.endswith(suffix) or (not askw and tail[0][3])):
            viol(top_cls, "select", "alias-unquoted",
                 "alias %s is not written by the class's convention %r" % (sentinel, suffix))
        if len(occ) > 1 and not any(alias_of(n) == sentinel for n, p in nodes(spec) if p is not None):
            viol(top_cls, "select", "alias-twice", "alias %s rendered %d times" % (sentinel, len(occ)))
    elif role in ("groupby", "orderby") and sentinel:
        ref = q + sentinel + q
        occ = occurrences(seg, sentinel)
        is_ref = len(occ) == 1 and occ[0][0] == 0 and occ[0][1] == len(seg)
        may = sentinel in selected_names and allowed_ref is not False
        if may and (allowed_ref is True or is_ref):
            expect_own = 1
            if seg == ref or (conv is None and is_ref):
                if not select_defs.get(sentinel):
                    viol(select_defs.get("#cls:" + sentinel, top_cls), role, "alias-ref-undefined",
                         "%s references %s, which the rendered select list does not define" % (role, ref))
            elif is_ref:
                viol(undefined_culprit or top_cls, role, "alias-unquoted", "reference to %s is not written as %r" % (sentinel, ref))
            else:
                viol(top_cls, role, "alias-missing", "element aliased %s (selected, allowed) is not a reference" % sentinel)
                expect_own = 0
        elif is_ref and not may:
            expect_own = 1
            viol(undefined_culprit or top_cls, role, "alias-ref-undefined",
                 "%s references %s although %s" % (role, sentinel, "the dialect does not allow it" if sentinel in selected_names
                                                   else "no select item of this statement has that name"))
    # every other occurrence of an alias name: an object rendered its alias where none belongs
    seen = {}
    for n, parent in nodes(spec):
        a = alias_of(n)
        if not a or not SENT_RE.fullmatch(a):
            continue
        is_top = parent is None
        key = (a, is_top)
        if key in seen:
            continue
        seen[key] = True
        cnt = len(occurrences(seg, a))
        if is_top:
            cnt -= expect_own
            if any(alias_of(m) == a for m, p in nodes(spec) if p is not None):
                continue            # the same name also sits on an inner object: attributed there
        if cnt <= 0:
            continue
        obj = bld(n, memo)
        if is_top:
            if role == "values" and not ignores_with_alias(obj, a):
                viol(owner_name(obj), "values", "alias-in-non-select", "VALUES element renders its alias %s" % a)
            else:
                viol(owner_name(obj), "non-select", "alias-in-non-select", "%s element renders its alias %s" % (role, a))
        elif ignores_with_alias(obj, a):
            viol(owner_name(obj), "non-select", "alias-in-non-select",
                 "object aliased %s renders its alias %s" % (a, "as a function argument" if parent[0] in FUNCLIKE
                                                           else "inside a larger expression"))
        else:
            viol(owner_name(bld(parent, memo)), "operand", "alias-in-non-select",
                 "operand aliased %s renders its alias inside its parent (with_alias forwarded)" % a)
    return out


# ---- nested statements and set operations (specs of harness/queries_family.py) ---------------------------------
SETOP_TEXT = {"union": "UNION", "union_all": "UNION ALL", "intersect": "INTERSECT", "except_of": "EXCEPT", "minus": "MINUS"}


class Unreadable(Exception):
    pass


def paren_group(text, start=0):
    """(open, close) of the first depth-0 parenthesis group at or after start (outside quotes)"""
    op, depth0 = None, None
    for i, ch, d, qd in scan(text):
        if qd or i < start:
            continue
        if op is None:
            if ch == "(" and d == 1:
                op = i
        elif ch == ")" and d == 1:
            return op, i
    raise Unreadable("no parenthesis group in %r" % text[start:start + 60])


def strip_parens(text):
    o, c = paren_group(text)
    if o != 0:
        raise Unreadable("expected '(' at the start of %r" % text[:60])
    return text[1:c], text[c + 1:]


def root_cls(spec):
    return root_cls(spec["base"]) if spec["k"] == "set" else spec["cls"]


def judge_query(spec, text, env, out):
    """spec: queries_family statement spec ('sel' / 'set'); text: its rendering without enclosing parentheses / alias.
    env: conv (quote, as) of the outermost class or None; group_ref: True / False / None (see judge_element)."""
    memo = {}
    if spec["k"] == "set":
        ops = spec["ops"]
        branches = [spec["base"]] + [b for _, b in ops]
        pos, cuts = 0, []
        for op, _ in ops:
            kw = " " + SETOP_TEXT[op] + " "
            i = find_top(text, kw, pos)
            if i == -1:
                raise Unreadable("set operator %s not found in %r" % (kw, text[:80]))
            cuts.append((i, i + len(kw)))
            pos = i + len(kw)
        tail_at = find_top(text, " ORDER BY ", pos) if spec.get("orderby") else -1
        ends = [c[0] for c in cuts] + [tail_at if tail_at != -1 else len(text)]
        starts = [0] + [c[1] for c in cuts]
        # a set operation takes every rendering default from its base query (alias conventions, Oracle/MSSQL GROUP BY switch)
        # and hands them to all its operands, whatever their class
        benv = dict(env, top=False)
        if root_cls(spec) in NO_GROUP_ALIAS and env["group_ref"] is True:
            benv["group_ref"] = None
        mixed = False
        for b, s0, e0 in zip(branches, starts, ends):
            bt = text[s0:e0]
            if bt.startswith("("):
                bt, rest = strip_parens(bt)
                if rest.strip():
                    raise Unreadable("text after a set-operation branch: %r" % rest)
            judge_query(b, bt, benv, out)
        if spec.get("orderby"):
            if tail_at == -1:
                raise Unreadable("ORDER BY of the set operation not found")
            parts = split_top(text[tail_at + len(" ORDER BY "):])
            # LIMIT / OFFSET tails are not generated for this family
            if len(parts) != len(spec["orderby"]):
                raise Unreadable("set-operation ORDER BY has %d elements, expected %d" % (len(parts), len(spec["orderby"])))
            base = spec["base"]
            base_sel = [i[1] for i in base.get("selects", []) if i[0] == "t"] if base["k"] == "sel" else []
            names = {alias_of(x) for x in base_sel if alias_of(x)}
            defs = {a: True for a in names}        # the branch check above has judged the definitions
            for (t, d), seg in zip(spec["orderby"], parts):
                if d and seg.endswith(" " + d.upper()):
                    seg = seg[:-(len(d) + 1)]
                out += judge_element(t, seg, "orderby", None if mixed else env["conv"], memo, names, True, defs,
                                     undefined_culprit="_SetOperation")
        return
    if spec["k"] != "sel":
        raise Unreadable("statement kind %s" % spec["k"])
    # ---- SELECT: clause segments
    plan = [("select", "SELECT "), ("from", " FROM ")]
    for _ in spec.get("joins", []):
        plan += [("join", " JOIN "), ("on", " ON ")]
    if spec.get("where") is not None:
        plan.append(("where", " WHERE "))
    if spec.get("groupby"):
        plan.append(("groupby", " GROUP BY "))
    if spec.get("having") is not None:
        plan.append(("having", " HAVING "))
    if spec.get("orderby"):
        plan.append(("orderby", " ORDER BY "))
    pos, marks = 0, []
    for name, kw in plan:
        i = (0 if text.startswith(kw) else -1) if name == "select" else find_top(text, kw, pos)
        if i == -1:
            raise Unreadable("clause %s not found in %r" % (kw, text[:100]))
        marks.append((name, i, i + len(kw)))
        pos = i + len(kw)
    segs = {}
    for k_, (name, i, j) in enumerate(marks):
        end = marks[k_ + 1][1] if k_ + 1 < len(marks) else len(text)
        segs.setdefault(name, []).append(text[j:end])
    nested_env = dict(env, top=False)
    if spec["cls"] in NO_GROUP_ALIAS and env["group_ref"] is True:
        nested_env["group_ref"] = None          # an Oracle/MSSQL builder inside another dialect: either rendering is accepted
    here_group = nested_env["group_ref"]

    def sub(qspec, seg, where=None):
        inner, rest = strip_parens(seg[seg.index("("):]) if not seg.startswith("(") else strip_parens(seg)
        judge_query(qspec, inner, nested_env, out)
        a = qspec.get("alias")
        if where and a and not rest.rstrip('"`').endswith(a):
            # an aliased sub-query in the select list / as a source must carry its alias (sub1.x refers to it)
            out.append({"signature": ["C13", root_cls(qspec) + "Builder", where, "alias-missing"],
                        "what": "sub-query aliased %s is rendered without its alias in %r" % (a, seg[-60:])})

    def below(it, seg):
        """sub-queries inside a GROUP BY / ORDER BY element: the element itself, or arguments of a function call"""
        if it[0] == "sub":
            sub(it[1], seg)
        elif it[0] == "func":
            o_, c_ = paren_group(seg)
            args = split_top(seg[o_ + 1:c_])
            if len(args) != len(it[2]):
                raise Unreadable("function %s has %d arguments in %r" % (it[1], len(args), seg[:60]))
            for a_, s_ in zip(it[2], args):
                below(a_, s_)

    # select list
    sel_parts = split_top(segs["select"][0])
    items = spec.get("selects", [])
    if len(sel_parts) != len(items):
        raise Unreadable("select list has %d items, expected %d" % (len(sel_parts), len(items)))
    sel_terms = [(i[1], seg) for i, seg in zip(items, sel_parts) if i[0] == "t"]
    names = {alias_of(t) for t, _ in sel_terms if alias_of(t)}
    names |= {i[1].get("alias") for i in items if i[0] == "sub" and i[1].get("alias")}
    defs = {}
    for t, seg in sel_terms:
        a = alias_of(t)
        if a and SENT_RE.fullmatch(a):
            if any(o[1] == len(seg) for o in occurrences(seg, a)):
                defs[a] = True
            defs.setdefault("#cls:" + a, owner_name(bld(t, memo)))
    for it, seg in zip(items, sel_parts):
        if it[0] == "t":
            out += judge_element(it[1], seg, "select", env["conv"], memo, names, False, defs)
        elif it[0] == "sub":
            sub(it[1], seg, "select")
    # sources
    fparts = split_top(segs["from"][0])
    if len(fparts) != len(spec.get("from", [])):
        raise Unreadable("FROM has %d sources, expected %d" % (len(fparts), len(spec.get("from", []))))
    for src, seg in zip(spec.get("from", []), fparts):
        if src[0] == "q":
            sub(src[1], seg, "from")
    for (how, src, cond), jseg, oseg in zip(spec.get("joins", []), segs.get("join", []), segs.get("on", [])):
        if src[0] == "q":
            sub(src[1], jseg, "join")
        if cond[0] == "on" and cond[1][0] == "t":
            out += judge_element(cond[1][1], oseg, "non-select", env["conv"], memo, names, False, defs)
    for clause in ("where", "having"):
        it = spec.get(clause)
        if it is None:
            continue
        seg = segs[clause][0]
        if it[0] == "t":
            out += judge_element(it[1], seg, "non-select", env["conv"], memo, names, False, defs)
        elif it[0] == "in":
            sub(it[2], seg)
        elif it[0] == "exists":
            sub(it[1], seg)
    if spec.get("groupby"):
        parts = split_top(segs["groupby"][0])
        if len(parts) != len(spec["groupby"]):
            raise Unreadable("GROUP BY has %d elements" % len(parts))
        for it, seg in zip(spec["groupby"], parts):
            if it[0] == "t":
                out += judge_element(it[1], seg, "groupby", env["conv"], memo, names, here_group, defs)
            else:
                below(it, seg)
    if spec.get("orderby"):
        parts = split_top(segs["orderby"][0])
        if len(parts) != len(spec["orderby"]):
            raise Unreadable("ORDER BY has %d elements" % len(parts))
        for (it, d), seg in zip(spec["orderby"], parts):
            if d and seg.endswith(" " + d.upper()):
                seg = seg[:-(len(d) + 1)]
            if it[0] == "t":
                out += judge_element(it[1], seg, "orderby", env["conv"], memo, names, True, defs)
            else:
                below(it, seg)


def oracle_query(case, text):
    spec = case["q"]
    rc = root_cls(spec)
    env = {"conv": (SPEC_QUOTE.get(rc, '"'), SPEC_AS.get(rc, False)), "group_ref": rc not in NO_GROUP_ALIAS, "top": True}
    out = []
    try:
        judge_query(spec, text, env, out)
    except Unreadable as e:
        return [{"signature": ["C13", rc, "statement", "unreadable"], "what": "%s (%r)" % (e, text[:200])}]
    uniq, res = set(), []
    for v in out:
        k_ = tuple(v["signature"])
        if k_ not in uniq:
            uniq.add(k_)
            res.append(v)
    return res


def oracle(case, outcome):
    text = outcome.get("text") or ""
    if case.get("collide"):
        return oracle_collide(case, text)
    if text.startswith("!") or text == "":
        return []
    memo = {}
    if case["kind"] == "q":
        return oracle_query(case, text)
    if case["kind"] == "term":
        c = case["c"]
        conv = ((c.get("aq") or c.get("q") or ""), bool(c.get("askw")))
        return judge_element(case["t"], text, "select" if c.get("wa") else "non-select", conv, memo, set(), False, {})
    cls = case["cls"]
    conv = (SPEC_QUOTE.get(cls, '"'), SPEC_AS.get(cls, False))
    leak = []
    if case.get("prog") is not None:
        try:
            plain = str(build_query(case, {}, plain=True))
        except Exception as e:  # noqa
            plain = "!" + type(e).__name__
        if plain != text:
            leak = [{"signature": ["C13", "QueryBuilder", "render-then-extend", "alias-state-leak"],
                     "what": "the statement built by interleaved calls with intermediate str() renders differs from the same "
                             "statement built in one go: %r vs %r (program %r)" % (text, plain, case["prog"])}]
    segs = split_statement(case, text)
    if segs is None:
        return leak + [{"signature": ["C13", cls, "statement", "unreadable"], "what": "cannot find the clauses of %r" % text}]
    out = list(leak)
    if case["kind"] == "ins":
        parts = split_top(segs["values"])
        if len(parts) != len(case["row"]):
            return []
        for spec, seg in zip(case["row"], parts):
            out += judge_element(spec, seg, "values", conv, memo, set(), False, {})
        return out
    m_head = HEAD_RE.match(segs["select"])
    sel_parts = split_top(segs["select"][m_head.end():])
    if case.get("selprog") is not None:
        # select('*', ...) / table stars drop some arguments: "the alias is in the select list" is read off the RENDERED list
        # (an item that ends with a sentinel alias defines it); the items themselves are judged by the star-free cases
        selected_names, select_defs = set(), {}
        for seg in sel_parts:
            m = re.search(r"(zq[0-9A-Za-z]+)[\"`]?$", seg)
            if m and m.group(1) in {alias_of(x) for x in case["sel"]}:
                selected_names.add(m.group(1))
                select_defs[m.group(1)] = True
    else:
        if len(sel_parts) != len(case["sel"]):
            return leak
        selected_names = {alias_of(x) for x in case["sel"] if alias_of(x)}
        # which names does the RENDERED select list define (in any lexical form)?
        select_defs = {}
        for spec, seg in zip(case["sel"], sel_parts):
            a = alias_of(spec)
            if a and SENT_RE.fullmatch(a):
                if any(o[1] == len(seg) for o in occurrences(seg, a)):
                    select_defs[a] = True
                select_defs.setdefault("#cls:" + a, owner_name(bld(spec, memo)))
        for spec, seg in zip(case["sel"], sel_parts):
            out += judge_element(spec, seg, "select", conv, memo, selected_names, False, select_defs)
    for clause in ("on", "where", "having"):
        if case.get(clause) is not None:
            out += judge_element(case[clause], segs[clause], "non-select", conv, memo, selected_names, False, select_defs)
    if case.get("group"):
        parts = split_top(segs["groupby"])
        if len(parts) == len(case["group"]):
            for spec, seg in zip(case["group"], parts):
                out += judge_element(spec, seg, "groupby", conv, memo, selected_names, cls not in NO_GROUP_ALIAS, select_defs)
    if case.get("order"):
        parts = split_top(segs["orderby"])
        if len(parts) == len(case["order"]):
            for (spec, d), seg in zip(case["order"], parts):
                if d is not None and seg.endswith(" " + d.upper()):
                    seg = seg[:-(len(d) + 1)]
                out += judge_element(spec, seg, "orderby", conv, memo, selected_names, True, select_defs)
    # one report per signature and case
    uniq, res = set(), []
    for v in out:
        k_ = tuple(v["signature"])
        if k_ not in uniq:
            uniq.add(k_)
            res.append(v)
    return res


# ----------------------------------------------------------------------------------------------
# generation
# ----------------------------------------------------------------------------------------------
T_T, T_U = ["t", [], None], ["u", [], None]
TOP_NAMES = ["zqA", "zqB", "zqC"]
CONSUMING = ["field", "arith", "func", "agg", "case", "sub", "basic", "cast"]
ALWAYS = ["isnull", "notnull", "between", "in", "vali", "vals", "lit", "null", "tuple", "array", "not", "bitand", "all", "valb"]


def F(name, alias=None, table=None):
    return ["field", name, table, alias]


def I(n, alias=None):
    return ["vali", n, alias]


class G:
    """aliased objects over the shared typed generator; aliases renamed to sentinels, tables confined to the statement's"""

    def __init__(self, rng, tables, p_inner=0.25, hostile=0.15):
        self.r = rng
        self.tables = tables
        self.g = tf.Gen(rng, p_alias=p_inner, p_table=0.0, hostile=hostile, with_sub=True)
        self.n = 0

    def fresh(self):
        self.n += 1
        return "zq%d" % self.n

    def fix(self, t):
        """rename every alias below to a fresh sentinel, confine field tables"""
        t = map_children(t, self.fix)
        if t[0] == "field":
            t = list(t)
            t[2] = self.r.choice(self.tables)
        if alias_of(t) is not None:
            t = with_alias(t, self.fresh())
        return t

    def num(self, d):
        return self.fix(self.g.num(d))

    def boolean(self, d):
        return self.fix(self.g.boolean(d))

    def top(self, kind, alias, d=2):
        r = self.r
        if kind == "field":
            t = F(r.choice(tf.NAMES), None, r.choice(self.tables))
        elif kind == "arith":
            t = ["arith", r.choice(["add", "sub", "mul", "div"]), self.num(d - 1), self.num(d - 1), None]
        elif kind == "func":
            t = ["func", r.choice(["ABS", "COALESCE", "F"]), [self.num(d - 1) for _ in range(r.choice([0, 1, 2]))], None]
        elif kind == "agg":
            t = ["agg", r.choice(list(AGGS)), self.num(d - 1), None]
        elif kind == "an":
            t = ["an", r.choice(list(AGGS)), self.num(d - 1), [F(r.choice(tf.NAMES)) for _ in range(r.choice([0, 1, 2]))], None]
        elif kind == "case":
            t = ["case", [[self.boolean(d - 1), self.num(d - 1)] for _ in range(r.choice([1, 2]))],
                 self.num(d - 1) if r.random() < 0.5 else None, None]
        elif kind == "sub":
            t = ["sub", None]
        elif kind == "basic":
            t = ["basic", r.choice(tf.EQUALITY + ["like"]), self.num(d - 1), self.num(d - 1), None]
        elif kind == "cast":
            t = ["cast", self.num(d - 1), r.choice(["SIGNED", "varchar(10)"]), None]
        elif kind == "cplx":
            t = ["cplx", r.choice(["and", "or", "xor"]), self.boolean(d - 1), self.boolean(d - 1), None]
        elif kind == "ch":
            name = r.choice(sorted(ch_classes()))
            t = ch_spec(name, F(r.choice(tf.NAMES), self.fresh() if r.random() < 0.7 else None, r.choice(self.tables)), None,
                        F(r.choice(tf.NAMES), self.fresh() if r.random() < 0.5 else None))
        elif kind == "nega":
            t = ["nega", self.num(d - 1), None]
        elif kind in ("isnull", "notnull", "all"):
            t = [kind, self.num(d - 1), None]
        elif kind == "not":
            t = ["not", self.boolean(d - 1), None]
        elif kind == "between":
            t = ["between", self.num(d - 1), self.num(d - 1), self.num(d - 1), None]
        elif kind == "in":
            t = ["in", self.num(d - 1), ["tuple", [self.num(0) for _ in range(r.choice([1, 2, 3]))], None], r.random() < 0.3, None]
        elif kind == "bitand":
            t = ["bitand", self.num(d - 1), r.choice([1, 2, 255]), None]
        elif kind == "vali":
            t = I(r.choice([0, 1, 7, -5, 10 ** 12]))
        elif kind == "vals":
            t = ["vals", self.g.string(), None]
        elif kind == "valb":
            t = ["valb", r.random() < 0.5, r.random() < 0.3, None]
        elif kind == "lit":
            t = ["lit", r.choice(["CURRENT_DATE", "x.y"]), None]
        elif kind == "null":
            t = ["null", None]
        elif kind in ("tuple", "array"):
            t = [kind, [self.num(d - 1) for _ in range(r.choice([1, 2]))], None]
        else:
            raise ValueError(kind)
        return with_alias(t, alias)

    def kind(self):
        x = self.r.random()
        if x < 0.62:
            return self.r.choice(CONSUMING)
        if x < 0.9:
            return self.r.choice(ALWAYS)
        if x < 0.95:
            return "cplx"
        return self.r.choice(["nega", "an", "ch", "ch"])

    def wrap(self, x):
        """a larger expression (criterion-like) containing the object x"""
        r = self.r
        k = r.randrange(12)
        if k == 0:
            return x
        if k == 1:
            return ["basic", r.choice(tf.EQUALITY), x, I(r.choice([0, 1, 5])), None]
        if k == 2:
            return ["basic", "eq", ["arith", r.choice(["add", "mul"]), x, I(1), None], I(2), None]
        if k == 3:
            return [r.choice(["isnull", "notnull"]), x, None]
        if k == 4:
            return ["basic", "gt", ["func", r.choice(["ABS", "F"]), [x], None], I(0), None]
        if k == 5:
            return ["between", x, I(1), I(9), None]
        if k == 6:
            return ["in", x, ["tuple", [I(1), I(2)], None], r.random() < 0.3, None]
        if k == 7:
            return ["cplx", r.choice(["and", "or"]), ["basic", "gt", x, I(0), None], ["basic", "lt", F("c"), I(9), None], None]
        if k == 8:
            return ["not", ["basic", "eq", x, I(3), None], None]
        if k == 9:
            return ["basic", "lt", ["neg", x], I(0), None]
        if k == 10:
            return ["basic", "eq", ["case", [[["basic", "gt", x, I(0), None], I(1)]], I(0), None], I(1), None]
        return ["basic", "gte", ["agg", "MAX", x, None], I(1), None]


def gen_head(rng, cls):
    h = {}
    if rng.random() < 0.4:
        h["distinct"] = True
    for hook in HEAD_HOOKS.get(cls, ()):
        if rng.random() < 0.8:
            if hook == "top":
                pct = rng.random() < 0.3
                h["top"] = [rng.choice([0, 1, 5, 100] if pct else [0, 1, 5, 10 ** 9]), pct, rng.random() < 0.3]
            elif hook == "modifiers":
                h["modifiers"] = rng.sample(["SQL_CALC_FOUND_ROWS", "HIGH_PRIORITY", "SQL_NO_CACHE"], rng.choice([1, 2]))
            else:
                h["distinct_on"] = rng.sample(tf.NAMES, rng.choice([1, 2]))
    return h or {"distinct": True}


def gen_stmt(rng, tier):
    cls = rng.choice(CLASSES)[1]
    joined = rng.random() < 0.35
    g = G(rng, [None, None, T_T] + ([T_U] if joined else []))
    sel = []
    for _ in range(rng.choice([1, 2, 2, 3])):
        sel.append(g.top(g.kind(), rng.choice(TOP_NAMES) if rng.random() < 0.88 else None, rng.choice([1, 2, 2, 3])))

    def element():
        x = rng.random()
        if x < 0.5:
            return rng.choice(sel)                                        # the selected object itself
        if x < 0.7:
            return g.top(g.kind(), rng.choice(TOP_NAMES), 1)              # another object, possibly a selected name
        if x < 0.88:
            return g.top(g.kind(), "zqU%d" % rng.randrange(3), 1)         # a name that is not selected
        return g.top(rng.choice(CONSUMING), None, 1)                      # no alias

    case = {"kind": "stmt", "cls": cls, "sel": sel, "on": None, "where": None, "group": [], "having": None, "order": []}
    if joined:
        case["on"] = (g.wrap(rng.choice(sel)) if rng.random() < 0.5
                      else ["basic", "eq", F("a", None, T_T), F("b", None, T_U), None])
    if rng.random() < 0.6:
        case["where"] = g.wrap(rng.choice(sel)) if rng.random() < 0.75 else g.boolean(2)
    if rng.random() < 0.5:
        case["group"] = [element() for _ in range(rng.choice([1, 1, 2]))]
    if rng.random() < 0.3:
        case["having"] = g.wrap(rng.choice(sel)) if rng.random() < 0.75 else g.boolean(1)
    if rng.random() < 0.5:
        case["order"] = [[element(), rng.choice([None, "asc", "desc"])] for _ in range(rng.choice([1, 1, 2, 3]))]
    if rng.random() < 0.3:
        case["head"] = gen_head(rng, cls)
    if rng.random() < 0.5 and (case["group"] or case["order"]):
        case["prog"] = random_prog(rng, case)
    elif rng.random() < 0.3 and all(modelled(x) for x in sel):
        # '*' / a table star / Star() somewhere among the arguments of select()
        sp = list(sel)
        for _ in range(rng.choice([1, 1, 2])):
            sp.insert(rng.randrange(len(sp) + 1), rng.choice([["*"], ["*"], ["star", T_T], ["star", None]]
                                                             + ([["star", T_U]] if joined else [])))
        case["selprog"] = sp
    return case


def random_prog(rng, case, p_render=0.5):
    """a random interleaving of the builder calls (the relative order inside select / group by / order by is kept), each
    followed by a render of the intermediate builder with probability p_render"""
    lanes = [[["select", i] for i in range(len(case["sel"]))],
             [["where", 0]] if case.get("where") is not None else [],
             [["group", j] for j in range(len(case.get("group") or []))],
             [["having", 0]] if case.get("having") is not None else [],
             [["order", k] for k in range(len(case.get("order") or []))]]
    lanes = [l for l in lanes if l]
    prog = []
    while lanes:
        l = rng.choice(lanes)
        prog.append(l.pop(0) + [rng.random() < p_render])
        lanes = [x for x in lanes if x]
    return prog


def gen_term(rng, tier):
    g = G(rng, [None, None, T_T, ["t", [], "ta"], ["v", ["d", "s"], None]], p_inner=0.45, hostile=0.3)
    d = rng.choice([1, 2, 2, 3] if tier == "quick" else [2, 3, 4])
    x = rng.random()
    if x < 0.6:
        t = g.top(g.kind(), "zqA" if rng.random() < 0.85 else None, d)
        while not modelled(t) and rng.random() < 0.7:
            t = g.top(rng.choice(CONSUMING), "zqA", d)
    elif x < 0.8:
        t = g.wrap(g.top(g.kind(), "zqA", d))
    else:
        t = g.fix(g.g.any(d))
    c = tf.gen_ctx(rng)
    if rng.random() < 0.5:
        c["wa"] = True
    return {"kind": "term", "t": t, "c": c}


def gen_ins(rng, tier):
    g = G(rng, [None, T_T])
    row = []
    for _ in range(rng.choice([1, 2, 3])):
        row.append(g.top(g.kind(), rng.choice(TOP_NAMES) if rng.random() < 0.6 else None, 1) if rng.random() < 0.7
                   else I(rng.randrange(9)))
    return {"kind": "ins", "cls": rng.choice(CLASSES)[1], "row": row}


def gen_malformed(rng, tier):
    g = G(rng, [None])
    x = rng.random()
    base = {"kind": "stmt", "cls": rng.choice(CLASSES)[1], "sel": [F("a", "zqA")], "on": None, "where": None, "group": [],
            "having": None, "order": []}
    if x < 0.2:
        base["sel"] = [["case", [], None, "zqA"]]
    elif x < 0.4:
        base["where"] = ["cplx", "and", ["empty"], ["basic", "gt", F("a", "zqA"), I(1), None], None]
    elif x < 0.6:                      # the empty alias: rendered in the select list, ignored by GROUP BY / ORDER BY
        base["sel"] = [F("a", ""), g.top("arith", "", 1)]
        base["group"] = [F("a", "")]
        base["order"] = [[F("a", ""), "desc"]]
    elif x < 0.8:
        base["sel"] = []
        base["where"] = ["basic", "gt", F("a", "zqA"), I(1), None]
    else:
        base["having"] = ["not", ["empty"], "zqB"]
    return base


# ---- nested statements / set operations (specs of harness/queries_family.py, rendered by the shared coq/Query.v) ----
ALL_CLS = [py for _, py in CLASSES]
INNER_CLS = ["Query", "Query", "Query", "OracleQuery", "MSSQLQuery", "SnowflakeQuery", "PostgreSQLQuery", "ClickHouseQuery",
             "MySQLQuery", "SQLLiteQuery", "VerticaQuery", "RedshiftQuery"]


class NG:
    """nested SELECTs with aliased select items, GROUP BY / ORDER BY over them at every level, sub-queries of another class
    in FROM / JOIN / select list / IN / EXISTS, set operations with branch-specific aliases and a chain ORDER BY"""

    def __init__(self, rng, max_depth=2):
        self.r = rng
        self.max_depth = max_depth
        self.n = 0

    def fresh(self):
        self.n += 1
        return "zq%d" % self.n

    def fld(self):
        return F(self.r.choice(tf.NAMES))

    def obj(self, alias, simple=False):
        r = self.r
        k = r.choice(["field", "field", "arith", "func", "sum", "case"] if not simple else ["field", "arith", "sum"])
        if k == "field":
            t = self.fld()
        elif k == "arith":
            inner = self.fld() if r.random() < 0.7 else with_alias(self.fld(), self.fresh())
            t = ["arith", r.choice(["add", "sub", "mul"]), inner, I(r.choice([1, 2, 10])), None]
        elif k == "func":
            t = ["func", r.choice(["ABS", "COALESCE", "F"]), [self.fld()], None]
        elif k == "sum":
            t = ["func", r.choice(["SUM", "MAX", "COUNT"]), [self.fld()], None]
        else:
            t = ["case", [[["basic", "gt", self.fld(), I(0), None], self.fld()]], I(0) if r.random() < 0.5 else None, None]
        return with_alias(t, alias)

    def inner_cls(self, outer):
        return outer if self.r.random() < 0.35 else self.r.choice(INNER_CLS)

    def source(self, cls, depth):
        r = self.r
        if depth < self.max_depth and r.random() < 0.45:
            if r.random() < 0.12:
                q = self.setop(self.inner_cls(cls), depth + 1, order=False)
                q["alias"] = r.choice(["sub1", "sub2", "z"])   # an un-aliased set operation as JOIN source is given the alias
                #                                                 "_table_name" by pypika, which the shared Query.v does not model
            else:
                q = self.select(self.inner_cls(cls), depth + 1)
                if r.random() < 0.6:
                    q["alias"] = r.choice(["sub1", "sub2", "z"])
            return ["q", q]
        return ["t", [r.choice(["t", "u", "orders"]), [], None]]

    def select(self, cls, depth, nsel=None, names=None, tail=True):
        r = self.r
        names = names or TOP_NAMES
        q = {"k": "sel", "cls": cls, "from": [self.source(cls, depth)], "joins": []}
        if r.random() < 0.25:
            q["joins"].append(["inner", self.source(cls, depth), ["on", ["t", ["basic", "eq", F("a"), F("b"), None]]]])
        items = []
        for _ in range(nsel or r.choice([1, 2, 2, 3])):
            if nsel is None and depth < self.max_depth and r.random() < 0.12:
                sq = self.select(self.inner_cls(cls), depth + 1, nsel=1, tail=False)
                if r.random() < 0.6:
                    sq["alias"] = r.choice(["sa", "sb"])
                items.append(["sub", sq])
            else:
                items.append(["t", self.obj(r.choice(names) if r.random() < 0.9 else None)])
        q["selects"] = items
        terms = [i for i in items if i[0] == "t"]

        def element():
            x = r.random()
            if depth < self.max_depth and x < 0.14:
                # a scalar sub-query of another class WITH ITS OWN aliased GROUP BY as the element, directly or as a function argument
                sq = self.select(self.inner_cls(cls), depth + 1, nsel=1, tail=False)
                it = [i for i in sq["selects"] if i[0] == "t"]
                if it and not sq.get("groupby"):
                    sq["groupby"] = [it[0]]
                return ["sub", sq] if r.random() < 0.5 else ["func", r.choice(["COALESCE", "F"]), [["sub", sq], ["t", I(0)]], None]
            if terms and x < 0.55:
                return r.choice(terms)
            if x < 0.75:
                return ["t", self.obj(r.choice(names), simple=True)]
            if x < 0.9:
                return ["t", self.obj("zqU%d" % r.randrange(3), simple=True)]
            return ["t", self.fld()]
        x = r.random()
        if x < 0.3 and terms:
            q["where"] = ["t", ["basic", "gt", r.choice(terms)[1], I(0), None]]
        elif x < 0.45 and depth < self.max_depth:
            q["where"] = ["in", self.fld(), self.select(self.inner_cls(cls), depth + 1, nsel=1, tail=False), r.random() < 0.3]
        elif x < 0.52 and depth < self.max_depth:
            q["where"] = ["exists", self.select(self.inner_cls(cls), depth + 1, nsel=1, tail=False), r.random() < 0.3]
        if r.random() < 0.55:
            q["groupby"] = [element() for _ in range(r.choice([1, 1, 2]))]
            if terms and r.random() < 0.3:
                q["having"] = ["t", ["basic", "gt", r.choice(terms)[1], I(1), None]]
        if tail and r.random() < 0.5:
            q["orderby"] = [[element(), r.choice([None, "asc", "desc"])] for _ in range(r.choice([1, 1, 2]))]
        return q

    def setop(self, cls, depth=0, order=True):
        r = self.r
        k = r.choice([1, 2, 2])
        same = r.random() < 0.7
        base = self.select(cls, depth + 1, nsel=k, names=["zqA", "zqB"], tail=False)
        ops, others = [], []
        for _ in range(r.choice([1, 1, 2])):
            b = self.select(cls if same else r.choice(ALL_CLS), depth + 1, nsel=k,
                            names=r.choice([["zqA", "zqB"], ["zqC", "zqD"], ["zqB", "zqC"]]), tail=False)
            others.append(b)
            ops.append([r.choice(["union", "union", "union_all", "intersect", "except_of", "minus"]), b])
        q = {"k": "set", "base": base, "ops": ops}
        if order and r.random() < 0.8:
            pool = [i[1] for i in base["selects"] if i[0] == "t"]
            pool2 = [i[1] for b in others for i in b["selects"] if i[0] == "t"]
            ob = []
            for _ in range(r.choice([1, 1, 2])):
                x = r.random()
                if x < 0.35 and pool:
                    t = r.choice(pool)
                elif x < 0.7 and pool2:
                    t = r.choice(pool2)
                elif x < 0.85:
                    t = self.obj(r.choice(["zqA", "zqC", "zqU1"]), simple=True)
                else:
                    t = self.fld()
                ob.append([t, r.choice([None, "asc", "desc"])])
            q["orderby"] = ob
        return q


def gen_nested(rng, tier):
    g = NG(rng, max_depth=2 if tier == "quick" or rng.random() < 0.7 else 3)
    cls = rng.choice(ALL_CLS + ["OracleQuery", "MSSQLQuery", "SnowflakeQuery", "ClickHouseQuery", "PostgreSQLQuery"])
    return {"kind": "q", "q": g.setop(cls) if rng.random() < 0.25 else g.select(cls, 0)}


# ---- alias VALUES that coincide with something else in the statement -----------------------------------------
KEYWORDS = ["select", "order", "group", "from", "as", "null", "desc", "by"]
CATEGORIES = ["own-column", "other-column", "table-name", "table-alias", "keyword", "empty", "spaced", "case"]


def _map_term_aliases(t, f):
    t = map_children(t, lambda x: _map_term_aliases(x, f))
    a = alias_of(t)
    if a is not None:
        t = with_alias(t, f(a, t))
    return t


def _map_q_aliases(q, f):
    q = dict(q)
    mt = lambda t: _map_term_aliases(t, f)   # noqa: E731

    def item(i):
        k = i[0]
        if k == "t":
            return ["t", mt(i[1])]
        if k == "sub":
            return ["sub", _map_q_aliases(i[1], f)]
        if k == "in":
            return ["in", mt(i[1]), _map_q_aliases(i[2], f), i[3]]
        if k == "exists":
            return ["exists", _map_q_aliases(i[1], f), i[2]]
        if k == "func":
            return ["func", i[1], [item(a) for a in i[2]], i[3]]
        return i
    if q["k"] == "set":
        q["base"] = _map_q_aliases(q["base"], f)
        q["ops"] = [[op, _map_q_aliases(b, f)] for op, b in q["ops"]]
        q["orderby"] = [[mt(t), d] for t, d in q.get("orderby", [])]
        return q
    src = lambda x: ["q", _map_q_aliases(x[1], f)] if x[0] == "q" else x   # noqa: E731
    q["from"] = [src(x) for x in q.get("from", [])]
    q["joins"] = [[h, src(x), (["on", item(c[1])] if c[0] == "on" else c)] for h, x, c in q.get("joins", [])]
    q["selects"] = [item(i) for i in q.get("selects", [])]
    for k in ("where", "having"):
        if q.get(k) is not None:
            q[k] = item(q[k])
    if q.get("groupby"):
        q["groupby"] = [item(i) for i in q["groupby"]]
    if q.get("orderby"):
        q["orderby"] = [[item(i), d] for i, d in q["orderby"]]
    return q


def map_case_aliases(case, f):
    """the same case with every TERM alias a replaced by f(a, node) (sub-query / table aliases are left alone)"""
    c = dict(case)
    mt = lambda t: _map_term_aliases(t, f)   # noqa: E731
    if c["kind"] == "term":
        c["t"] = mt(c["t"])
    elif c["kind"] == "ins":
        c["row"] = [mt(x) for x in c["row"]]
    elif c["kind"] == "q":
        c["q"] = _map_q_aliases(c["q"], f)
    else:
        c["sel"] = [mt(x) for x in c["sel"]]
        if c.get("selprog") is not None:
            c["selprog"] = [(i if i[0] == "*" else mt(i)) for i in c["selprog"]]
        for k in ("on", "where", "having"):
            if c.get(k) is not None:
                c[k] = mt(c[k])
        c["group"] = [mt(x) for x in c.get("group") or []]
        c["order"] = [[mt(x), d] for x, d in c.get("order") or []]
    return c


def alias_names(case):
    """distinct term alias names of a case in first-occurrence order, with one node carrying each"""
    seen = {}

    def f(a, node):
        seen.setdefault(a, node)
        return a
    map_case_aliases(case, f)
    return seen


def category_of(name, node):
    if name == "":
        return "empty"
    if node[0] == "field" and node[1] == name:
        return "own-column"
    if name in tf.NAMES or name in ("x", "n"):
        return "other-column"
    if name in ("t", "u", "orders"):
        return "table-name"
    if name in ("ta", "sub1", "sub2", "z", "sq0"):
        return "table-alias"
    if name.lower() in KEYWORDS:
        return "keyword"
    if " " in name:
        return "spaced"
    return "case" if name != name.lower() else "other"


def collide(rng, case):
    """rename some sentinel aliases of a generated case to values that coincide with something else in the statement"""
    names = alias_names(case)
    sent = [n for n in names if SENT_RE.fullmatch(n)]
    if not sent:
        return None
    rng.shuffle(sent)
    mapping, used = {}, set(names)
    for n in sent[:rng.choice([1, 1, 2, 3])]:
        node = names[n]
        cat = rng.choice(CATEGORIES)
        if cat == "own-column":
            flds = [x for x, _ in nodes(node) if x[0] == "field"]
            v = node[1] if node[0] == "field" else (rng.choice(flds)[1] if flds else rng.choice(tf.NAMES))
        elif cat == "other-column":
            v = rng.choice(tf.NAMES + ["x"])
        elif cat == "table-name":
            v = rng.choice(["t", "u", "orders"])
        elif cat == "table-alias":
            v = rng.choice(["ta", "sub1", "sq0", "z"])
        elif cat == "keyword":
            v = rng.choice(KEYWORDS)
        elif cat == "empty":
            v = ""
        elif cat == "spaced":
            v = "my alias"
        else:
            v = rng.choice(["Id", "zQa", "COL"])
        if v in used:
            continue
        used.add(v)
        mapping[n] = v
    if not mapping:
        return None
    out = map_case_aliases(case, lambda a, node: mapping.get(a, a))
    out["collide"] = True
    return out


XS_RE = re.compile(r"zqX\d+")


def oracle_collide(case, text):
    """rendering must commute with renaming the aliases: the same statement with every alias value replaced by a fresh
    sentinel name, rendered, and the sentinels written back, has to be the text of the original statement"""
    names = alias_names(case)
    fwd = {n: "zqX%d" % i for i, n in enumerate(names)}
    back = {v: k for k, v in fwd.items()}
    plain = {k: v for k, v in case.items() if k != "collide"}
    t_all = XS_RE.sub(lambda m: back[m.group(0)], run_impl(map_case_aliases(plain, lambda a, node: fwd[a]))["text"])
    if t_all == text:
        return []
    # attribute: the first single name whose renaming alone changes the text
    culprit, cat, shown = "?", "?", t_all
    for n, node in names.items():
        one = run_impl(map_case_aliases(plain, lambda a, nd: fwd[a] if a == n else a))["text"]
        one = XS_RE.sub(lambda m: back[m.group(0)], one)
        if one != text:
            cat = category_of(n, node)
            try:
                culprit = "empty-alias" if cat == "empty" else owner_name(bld(node, {}))
            except Exception:  # noqa
                culprit = node[0]
            shown = one
            break
    return [{"signature": ["C13", culprit, cat, "alias-value-dependent"],
             "what": "the rendering depends on the VALUE of an alias: with the alias renamed to a fresh name and written back the "
                     "statement reads %r, but pypika renders %r" % (shown, text)}]


def gen_collide(rng, tier):
    for _ in range(20):
        x = rng.random()
        base = gen_stmt(rng, tier) if x < 0.6 else (gen_nested(rng, tier) if x < 0.85 else
                                                    (gen_term(rng, tier) if x < 0.95 else gen_ins(rng, tier)))
        c = collide(rng, base)
        if c is not None:
            return c
    return base


def collide_grid(classes=("Query", "OracleQuery", "SnowflakeQuery", "ClickHouseQuery")):
    """every consuming / alias-ignoring kind x every category of colliding alias value, selected + grouped + ordered (flat
    statement, with a join so that fields are table-qualified), and the same field shape in a nested statement / set operation"""
    out = []
    vals = {"own-column": "a", "other-column": "b", "table-name": "t", "table-alias": "sub1", "keyword": "order", "empty": "",
            "spaced": "my alias", "case": "Id"}
    for cls in classes:
        for k in CONSUMING + ["isnull", "vali", "cplx", "tuple"]:
            for cat, v in vals.items():
                x = simple_top(k, v)
                if k == "field":
                    x = F("a", v, T_T)
                out.append(dict(stmt(cls, sel=[x, F("c", "zqB")], on=["basic", "eq", F("a", None, T_T), F("a", None, T_U), None],
                                     group=[x], order=[[x, "desc"]]), collide=True))
                out.append(dict(stmt(cls, sel=[x]), collide=True))
        for cat, v in vals.items():
            x = F("a", v)
            inner = {"k": "sel", "cls": "Query", "from": [["t", ["t", [], None]]], "joins": [], "selects": [["t", x], ["t", F("b", "zqB")]],
                     "groupby": [["t", x]], "orderby": [[["t", x], None]], "alias": "sub1"}
            out.append({"kind": "q", "collide": True,
                        "q": {"k": "sel", "cls": cls, "from": [["q", inner]], "joins": [], "selects": [["t", F("a", v)]],
                              "orderby": [[["t", F("a", v)], "asc"]]}})
            b1 = {"k": "sel", "cls": cls, "from": [["t", ["t", [], None]]], "joins": [], "selects": [["t", x]]}
            b2 = {"k": "sel", "cls": cls, "from": [["t", ["u", [], None]]], "joins": [], "selects": [["t", F("b", "zqC")]]}
            out.append({"kind": "q", "collide": True, "q": {"k": "set", "base": b1, "ops": [["union", b2]], "orderby": [[x, None]]}})
    return out


def gen_cases(rng, tier):
    n = 460 if tier == "quick" else 6000
    out = []
    for _ in range(n):
        x = rng.random()
        if x < 0.33:
            out.append(gen_term(rng, tier))
        elif x < 0.87:
            out.append(gen_stmt(rng, tier))
        elif x < 0.95:
            out.append(gen_ins(rng, tier))
        else:
            out.append(gen_malformed(rng, tier))
    for _ in range(300 if tier == "quick" else 3000):
        out.append(gen_nested(rng, tier))
    for _ in range(250 if tier == "quick" else 2500):
        out.append(gen_collide(rng, tier))
    return out


# ----------------------------------------------------------------------------------------------
# corpus: witnesses of the known findings (systematic) + the texts proved in props/C13.v
# ----------------------------------------------------------------------------------------------
def stmt(cls="Query", sel=None, on=None, where=None, group=None, having=None, order=None):
    return {"kind": "stmt", "cls": cls, "sel": sel if sel is not None else [F("a")], "on": on, "where": where,
            "group": group or [], "having": having, "order": order or []}


def simple_top(kind, alias):
    """a small fixed instance of every aliasable kind"""
    a, b = F("a"), F("b")
    return {
        "field": F("a", alias), "arith": ["arith", "add", a, I(1), alias], "func": ["func", "F", [a], alias],
        "agg": ["agg", "SUM", b, alias], "an": ["an", "SUM", a, [b], alias], "case": ["case", [[["basic", "gt", a, I(0), None], b]], None, alias],
        "sub": ["sub", alias], "basic": ["basic", "gt", a, I(1), alias], "cast": ["cast", a, "SIGNED", alias],
        "cplx": ["cplx", "and", ["basic", "eq", a, I(1), None], ["basic", "eq", b, I(2), None], alias],
        "nega": ["nega", a, alias], "isnull": ["isnull", a, alias], "notnull": ["notnull", a, alias],
        "between": ["between", a, I(1), I(2), alias], "in": ["in", a, ["tuple", [I(1), I(2)], None], False, alias],
        "vali": I(1, alias), "vals": ["vals", "x", alias], "valb": ["valb", True, False, alias], "lit": ["lit", "CURRENT_DATE", alias],
        "null": ["null", alias], "tuple": ["tuple", [a, b], alias], "array": ["array", [a, b], alias],
        "not": ["not", ["basic", "eq", a, I(1), None], alias], "bitand": ["bitand", a, 2, alias], "all": ["all", a, alias],
    }[kind]


ALL_KINDS = CONSUMING + ALWAYS + ["cplx", "nega", "an"]
FORWARDERS = {
    "neg": lambda x: ["neg", x], "cplx": lambda x: ["cplx", "and", x, ["basic", "eq", F("b"), I(2), None], None],
    "in": lambda x: ["in", x, ["tuple", [I(1)], None], False, None], "between": lambda x: ["between", x, I(1), I(2), None],
    "bitand": lambda x: ["bitand", x, 2, None], "not": lambda x: ["not", x, None], "all": lambda x: ["all", x, None],
    "tuple": lambda x: ["tuple", [x, F("b")], None], "array": lambda x: ["array", [x], None],
}


def grid_cases(classes=("Query",)):
    """every aliasable kind at every position (select, where, having, on, group by, order by, function argument, operand of
    every composite), for the given classes"""
    out = []
    for cls in classes:
        for k in ALL_KINDS:
            x = simple_top(k, "zqA")
            out.append(stmt(cls, sel=[x]))
            out.append(stmt(cls, sel=[x], where=x, having=x, group=[x], order=[[x, "desc"]]))
            out.append(stmt(cls, sel=[F("c", "zqB")], on=x, where=["basic", "gt", x, I(0), None]))
            out.append(stmt(cls, sel=[F("c", "zqB")], group=[x], order=[[x, None]]))                 # name not selected
            out.append(stmt(cls, sel=[F("c", "zqA")], group=[x], order=[[x, "asc"]]))                # another object, same name
            out.append(stmt(cls, sel=[["func", "G", [x], "zqB"]], where=["basic", "eq", ["func", "G", [x], None], I(1), None]))
            out.append({"kind": "ins", "cls": cls, "row": [x]})
            for w in FORWARDERS.values():
                out.append(stmt(cls, sel=[w(x)], where=w(x)))
            out.append(stmt(cls, sel=[["arith", "add", x, I(1), "zqB"], ["basic", "eq", x, I(1), "zqC"], ["isnull", x, None],
                                      ["case", [[["basic", "gt", x, I(0), None], x]], x, None]]))
    return out


def nested_grid(outers=None, inners=None):
    """the nested shapes the property quantifies over, outer class x inner class: a grouped/ordered SELECT with aliased
    items embedded in FROM / JOIN / select list / IN, and set operations ordered by base / non-base / un-selected aliases"""
    outers = outers or ALL_CLS
    inners = inners or ["Query", "OracleQuery", "SnowflakeQuery"]
    x, sm = F("a", "zqA"), ["func", "SUM", [F("b")], "zqB"]
    out = []

    def inner(cls, alias=None, nsel=2):
        q = {"k": "sel", "cls": cls, "from": [["t", ["t", [], None]]], "joins": [],
             "selects": [["t", x], ["t", sm]][:nsel], "groupby": [["t", x]], "orderby": [[["t", sm] if nsel > 1 else ["t", x], None]]}
        if alias:
            q["alias"] = alias
        return q
    for oc in outers:
        for ic in inners:
            out.append({"kind": "q", "q": {"k": "sel", "cls": oc, "from": [["q", inner(ic, "sub1")]], "joins": [],
                                           "selects": [["t", F("a", "zqC")]], "groupby": [["t", F("a", "zqC")]]}})
            out.append({"kind": "q", "q": {"k": "sel", "cls": oc, "from": [["t", ["u", [], None]]],
                                           "joins": [["inner", ["q", inner(ic, "sub1")], ["on", ["t", ["basic", "eq", F("a"), F("b"), None]]]]],
                                           "selects": [["t", F("c", "zqC")], ["sub", inner(ic, "sa", nsel=1)]],
                                           "where": ["in", F("a"), inner(ic, None, nsel=1), False]}})
        for ic in inners:
            g1 = inner(ic, None, nsel=1)
            g1.pop("orderby")
            for el in (["sub", g1], ["func", "COALESCE", [["sub", g1], ["t", I(0)]], None]):
                out.append({"kind": "q", "q": {"k": "sel", "cls": oc, "from": [["t", ["u", [], None]]], "joins": [],
                                               "selects": [["t", F("c", "zqC")]], "orderby": [[el, "desc"]]}})
                out.append({"kind": "q", "q": {"k": "sel", "cls": oc, "from": [["t", ["u", [], None]]], "joins": [],
                                               "selects": [["t", F("c", "zqC")]], "groupby": [el], "orderby": [[["t", F("c", "zqC")], None], [el, None]]}})
        other = ["func", "UPPER", [F("b")], "zqC"]
        b1 = {"k": "sel", "cls": oc, "from": [["t", ["t", [], None]]], "joins": [], "selects": [["t", x], ["t", F("n")]]}
        b2 = {"k": "sel", "cls": oc, "from": [["t", ["u", [], None]]], "joins": [], "selects": [["t", other], ["t", F("n")]]}
        for ob in ([[x, None]], [[other, "desc"]], [[F("a", "zqU1"), None]], [[F("z", "zqA"), "asc"], [other, None]]):
            out.append({"kind": "q", "q": {"k": "set", "base": b1, "ops": [["union", b2]], "orderby": ob}})
        out.append({"kind": "q", "q": {"k": "set", "base": b1, "ops": [["union_all", b2], ["intersect", dict(b2, selects=[["t", F("c", "zqD")], ["t", F("n")]])]],
                                       "orderby": [[F("c", "zqD"), None]]}})
    return out


def render_grid(classes=("Query", "OracleQuery", "PostgreSQLQuery")):
    """an intermediate builder is rendered, then extended: (a) an aliased item is selected AFTER a render and then grouped /
    ordered by (the reference must appear); (b) an element is ordered / grouped by BEFORE its alias is selected, with a
    render in between; (c) every step rendered"""
    out = []
    day = F("created", "zqA")
    for cls in classes:
        for k in CONSUMING:
            x = simple_top(k, "zqB")
            c = stmt(cls, sel=[day, x], group=[day], order=[[x, None]])
            out.append(dict(c, prog=[["select", 0, False], ["group", 0, True], ["select", 1, False], ["order", 0, False]]))
            out.append(dict(c, prog=[["select", 0, True], ["order", 0, True], ["group", 0, True], ["select", 1, True]]))
            c2 = stmt(cls, sel=[day, x], group=[x, day], order=[[day, "desc"], [x, "asc"]])
            out.append(dict(c2, prog=[["group", 0, True], ["order", 0, True], ["select", 0, True], ["group", 1, True],
                                      ["select", 1, True], ["order", 1, True]]))
    return out


def star_grid(classes=("Query", "OracleQuery", "SnowflakeQuery")):
    """'*' / t.* / Star() before and after every aliased kind in the select list, the term re-used in GROUP BY and ORDER BY"""
    out = []
    for cls in classes:
        for k in [x for x in STAR_KINDS if x != "field"] + ["agg"]:
            x = simple_top(k, "zqA")
            for star in (["*"], ["star", T_T], ["star", None]):
                for sp in ([star, x], [x, star], [F("a", "zqB", T_T), star, x]):
                    c = stmt(cls, sel=[i for i in sp if i[0] not in ("*", "star")], group=[x], order=[[x, "desc"]])
                    out.append(dict(c, selprog=sp))
        for tb in (None, T_T):
            f = F("a", "zqA", tb)
            for star in (["*"], ["star", T_T], ["star", None]):
                for sp in ([star, f], [f, star]):
                    out.append(dict(stmt(cls, sel=[f], group=[f], order=[[f, None]]), selprog=sp))
    return out


def ch_grid(classes=("ClickHouseQuery", "Query")):
    """every ClickHouse helper wrapper (enumerated from pypika/clickhouse/*.py) around an ALIASED column object: directly in
    the select list (with and without an alias of its own), in WHERE, GROUP BY, ORDER BY, and as an argument of a function"""
    out = []
    col = F("a", "zq1")
    for cls in classes:
        for name in sorted(ch_classes()):
            w, wa = ch_spec(name, col, None), ch_spec(name, col, "zqA")
            out.append(stmt(cls, sel=[w]))
            out.append(stmt(cls, sel=[wa, col]))
            out.append(stmt(cls, sel=[F("c", "zqB")], where=["basic", "gt", w, I(0), None], group=[wa], order=[[wa, None]]))
            out.append(stmt(cls, sel=[wa], group=[wa], order=[[wa, "desc"]]))
            out.append(stmt(cls, sel=[["func", "G", [w], "zqB"]], having=["basic", "eq", w, I(1), None]))
            out.append({"kind": "term", "t": wa, "c": dict(tf.STR_CTX, wa=True)})
            out.append({"kind": "term", "t": w, "c": dict(tf.STR_CTX, wa=True, aq="`", askw=True)})
    return out


def head_grid():
    """every dialect's own select-list hook over aliased select terms of every kind, the terms re-used in GROUP BY / ORDER BY"""
    out = []
    heads = {"MSSQLQuery": [{"top": [5, False, False]}, {"top": [5, True, False]}, {"top": [5, False, True]}, {"top": [0, True, True]},
                            {"distinct": True, "top": [7, False, False]}, {"distinct": True}],
             "MySQLQuery": [{"modifiers": ["SQL_CALC_FOUND_ROWS"]}, {"distinct": True, "modifiers": ["HIGH_PRIORITY", "SQL_NO_CACHE"]}],
             "PostgreSQLQuery": [{"distinct_on": ["a"]}, {"distinct": True, "distinct_on": ["a", "b"]}],
             "ClickHouseQuery": [{"distinct_on": ["a"]}, {"distinct": True}]}
    for _, py in CLASSES:
        for h in heads.get(py, [{"distinct": True}]):
            for k in CONSUMING + ["isnull", "vali", "cplx"]:
                x = simple_top(k, "zqA")
                out.append(dict(stmt(py, sel=[x, F("c", "zqB")], group=[x], order=[[x, "desc"], [F("c", "zqB"), None]]), head=h))
    return out


def exists_cases(classes=("Query", "MySQLQuery", "PostgreSQLQuery", "ClickHouseQuery")):
    """an aliased ExistsCriterion in the select list, and the same object in ORDER BY / GROUP BY; also with a sub-query
    object that was a FROM source of an earlier rendered statement"""
    out = []
    for cls in classes:
        for used in (False, True):
            e = ["existsc", "zqA", used]
            out.append(stmt(cls, sel=[F("c"), e]))
            out.append(stmt(cls, sel=[F("c"), e], order=[[e, None]]))
            out.append(stmt(cls, sel=[F("c"), e], group=[e]))
            out.append(stmt(cls, sel=[F("c"), e], group=[e], order=[[e, "desc"]]))
            out.append(stmt(cls, sel=[F("c", "zqB")], where=e, group=[e], order=[[e, None]]))      # name not selected
    return out


def corpus():
    sc = dict(tf.STR_CTX)
    w_null = ["isnull", F("a"), "n"]
    w_gt = ["basic", "gt", F("a"), I(1), "gt"]
    w_cplx = simple_top("cplx", "x")
    w_fwd = ["cplx", "and", ["basic", "gt", F("a"), I(1), "x"], ["basic", "eq", F("b"), I(2), None], None]
    w_now = ["func", "NOW", [], "n"]
    w_sub = ["sub", "sq"]
    proved = [      # the texts of C13_refutation_witnesses / C13_example, with the names used there
        stmt(where=w_null), stmt(sel=[w_gt]), stmt("PostgreSQLQuery", sel=[w_gt]), stmt(sel=[w_cplx]), stmt(sel=[w_fwd]),
        stmt(sel=[["between", F("a", "n"), I(1), I(2), None]]), stmt(sel=[["neg", F("a", "n")]]),
        {"kind": "ins", "cls": "Query", "row": [w_now]}, stmt("SnowflakeQuery", sel=[w_sub, F("a", "m")]),
        stmt("SnowflakeQuery", sel=[w_sub], order=[[w_sub, None]]), stmt(sel=[w_cplx], order=[[F("z", "x"), None]]),
        stmt(group=[w_null]), stmt(sel=[["func", "F", [I(1, "n")], None]]),
    ]
    ex_m = ["arith", "add", F("a", "inner"), I(1), "m"]
    ex_s = ["func", "SUM", [F("b")], "s"]
    for cls in ("Query", "OracleQuery", "ClickHouseQuery", "SnowflakeQuery", "MySQLQuery"):
        proved.append(stmt(cls, sel=[ex_m, ex_s], on=["basic", "eq", F("a"), F("b"), None],
                           where=["basic", "gt", ex_m, I(0), None], group=[ex_m], having=["basic", "gt", ex_s, I(1), None],
                           order=[[ex_m, "desc"], [ex_s, None], [F("z", "zz"), None]]))
    out = proved + grid_cases(("Query",)) + nested_grid() + collide_grid() + render_grid() + star_grid() + ch_grid() + head_grid()
    # alias quoting of every consuming kind in the classes whose convention differs (sentinel names)
    for cls in ("SnowflakeQuery", "PostgreSQLQuery", "OracleQuery", "MSSQLQuery", "ClickHouseQuery", "MySQLQuery"):
        for k in CONSUMING + ["an", "isnull", "cplx", "nega"]:
            x = simple_top(k, "zqA")
            out.append(stmt(cls, sel=[x], group=[x], order=[[x, "desc"]]))
    # aliased EXISTS test: flat select + ORDER BY / GROUP BY of the same object (fixed list, every tier)
    out += exists_cases()
    # term level: explicit alias_quote_char / as_keyword
    for k in CONSUMING + ["isnull", "vali"]:
        out.append({"kind": "term", "t": simple_top(k, "zqA"), "c": dict(sc, aq="`", askw=True, wa=True)})
        out.append({"kind": "term", "t": simple_top(k, "zqA"), "c": dict(sc, wa=True)})
        out.append({"kind": "term", "t": simple_top(k, "zqA"), "c": dict(sc)})
    return out


# ----------------------------------------------------------------------------------------------
# evidence helpers / search
# ----------------------------------------------------------------------------------------------
def _q_elements(q, depth=0):
    if q["k"] == "set":
        out = [("set-orderby", t) for t, _ in q.get("orderby", [])]
        for b in [q["base"]] + [b for _, b in q["ops"]]:
            out += _q_elements(b, depth + 1)
        return out
    out = []
    tag = "@depth%d" % min(depth, 3)
    for i in q.get("selects", []):
        if i[0] == "t":
            out.append(("select" + tag, i[1]))
        elif i[0] == "sub":
            out += _q_elements(i[1], depth + 1)
    for src in q.get("from", []) + [j[1] for j in q.get("joins", [])]:
        if src[0] == "q":
            out += _q_elements(src[1], depth + 1)
    w = q.get("where")
    if w is not None:
        if w[0] == "t":
            out.append(("where" + tag, w[1]))
        elif w[0] == "in":
            out += _q_elements(w[2], depth + 1)
        elif w[0] == "exists":
            out += _q_elements(w[1], depth + 1)
    out += [("groupby" + tag, g[1]) for g in q.get("groupby", []) if g[0] == "t"]
    out += [("orderby" + tag, o[1]) for o, _ in q.get("orderby", []) if o[0] == "t"]

    def below(it):
        if it[0] == "sub":
            return _q_elements(it[1], depth + 1)
        if it[0] == "func":
            return [e for a in it[2] for e in below(a)]
        return []
    for it in list(q.get("groupby", [])) + [o for o, _ in q.get("orderby", [])]:
        out += below(it)
    return out


def _elements(case):
    """(clause, spec) of every top-level element"""
    if case["kind"] == "q":
        return _q_elements(case["q"])
    if case["kind"] == "term":
        return [("term", case["t"])]
    if case["kind"] == "ins":
        return [("values", x) for x in case["row"]]
    out = [("select", x) for x in case["sel"]]
    for c in ("on", "where", "having"):
        if case.get(c) is not None:
            out.append((c, case[c]))
    out += [("groupby", x) for x in case.get("group") or []]
    out += [("orderby", x) for x, _ in case.get("order") or []]
    return out


def nontrivial_key(case):
    hit = False
    for clause, spec in _elements(case):
        for n, parent in nodes(spec):
            if alias_of(n) and (parent is not None or not (clause.startswith("select") or clause == "term")):
                hit = True
    return json.dumps(case, sort_keys=True) if hit else None


def histogram(cases):
    h = {}

    def inc(k, n=1):
        h[k] = h.get(k, 0) + n
    for c in cases:
        inc("kind=" + c["kind"])
        if c.get("prog") is not None:
            inc("stmt-built-by-interleaved-calls")
            inc("intermediate-renders", sum(1 for st in c["prog"] if st[2]))
        if c.get("collide"):
            inc("colliding-alias-values")
        if c.get("selprog") is not None:
            inc("select-list-with-star")
        for hk in (c.get("head") or {}):
            inc("head:" + hk)
        if c["kind"] == "q":
            from harness import queries_family as qf
            for k_, v_ in qf.shape(c["q"]).items():
                inc("nested:" + k_, v_)
        if "cls" in c:
            inc("class=" + c["cls"])
        for clause, spec in _elements(c):
            inc("elements@" + clause)
            for n, parent in nodes(spec):
                if alias_of(n):
                    inc("aliased:" + n[0] + ("@" + clause if parent is None else "@nested"))
        if c["kind"] == "stmt":
            names = {alias_of(x) for x in c["sel"]}
            keys = {json.dumps(x) for x in c["sel"]}
            for x in list(c.get("group") or []) + [y for y, _ in c.get("order") or []]:
                if json.dumps(x) in keys:
                    inc("ref:same-object")
                elif alias_of(x) and alias_of(x) in names:
                    inc("ref:same-name-other-object")
                elif alias_of(x):
                    inc("ref:name-not-selected")
            shared = sum(1 for cl in ("on", "where", "having") if c.get(cl) is not None
                         and any(json.dumps(n) in keys for n, _ in nodes(c[cl])))
            inc("filters-sharing-a-selected-object", shared)
    return h


def targeted_search(rng, broken, mism_cases):
    """every aliasable kind x every position x all ten classes, then a denser random batch"""
    out = grid_cases([py for _, py in CLASSES]) + nested_grid(inners=ALL_CLS)
    for c in mism_cases:
        if c["kind"] == "q":
            continue
        for clause, spec in _elements(c):
            for n, _ in nodes(spec):
                out.append({"kind": "term", "t": n, "c": dict(tf.STR_CTX)})
                out.append({"kind": "term", "t": n, "c": dict(tf.STR_CTX, wa=True)})
    for _ in range(1500):
        out.append(gen_stmt(rng, "quick"))
    for _ in range(1500):
        out.append(gen_nested(rng, "quick"))
    out += collide_grid([py for _, py in CLASSES]) + render_grid([py for _, py in CLASSES]) + star_grid([py for _, py in CLASSES]) + ch_grid([py for _, py in CLASSES]) + head_grid()
    for _ in range(1500):
        out.append(gen_collide(rng, "quick"))
    return out
