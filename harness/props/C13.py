"""C13 — aliases are defined once where selected and referenced consistently.
Model: coq/Alias.v on top of the shared expression model coq/Terms.v; tables regenerated into coq/gen/C13Table.v."""
import json
import re

from harness import terms_family as tf
from harness.lib import S, OS, B, L, P

ID = "C13"
COQ_PROP = "props/C13.v"
CORR_REQUIRE = ["Crit", "gen.TermsTable", "Terms", "TermsCorr", "gen.C13Table", "Alias", "AliasCorr"]
CORR_CHECK = "check_c13"
CORR_SHOW = "show_c13"
GEN_FILES = ["gen/C13Table.v"]
DEPENDS_ON_EXTRACT = ["C02"]
SHARD = 120

SENT = "zqS"          # sentinel alias used by the extraction

# the ten query classes: (Coq constructor, name in pypika / pypika.dialects)
CLASSES = [("QGeneric", "Query"), ("QMySQL", "MySQLQuery"), ("QVertica", "VerticaQuery"), ("QOracle", "OracleQuery"),
           ("QMSSQL", "MSSQLQuery"), ("QPostgres", "PostgreSQLQuery"), ("QRedshift", "RedshiftQuery"),
           ("QClickHouse", "ClickHouseQuery"), ("QSQLite", "SQLLiteQuery"), ("QSnowflake", "SnowflakeQuery")]
CLS_COQ = {py: cq for cq, py in CLASSES}
POSITIONS = [("PSelect", "select"), ("POn", "on"), ("PWhere", "where"), ("PGroup", "group"), ("PHaving", "having"),
             ("POrder", "order"), ("PValues", "values")]
KNOWN_KW = {"quote_char", "secondary_quote_char", "alias_quote_char", "as_keyword", "dialect", "with_alias",
            "with_namespace", "subquery", "subcriterion", "groupby_alias"}


def qclass(py):
    import pypika
    import pypika.dialects as D
    return getattr(pypika, py, None) or getattr(D, py)


# ----------------------------------------------------------------------------------------------
# extraction (mode E: alias behaviour of every Term class, format_alias_sql grid; mode I: what reaches each clause
# position of each of the ten builder classes)
# ----------------------------------------------------------------------------------------------
def _al(obj, a):
    return obj if a is None else obj.as_(a)


def _recipes():
    """get_sql owner class name -> (alias -> representative instance)"""
    import pypika.terms as T
    import pypika.enums as E
    from pypika import Query, Table
    import pypika.dialects as D
    f, g = T.Field("a"), T.Field("b")
    u = Table("u")

    def sub(Q):
        return lambda a: _al(Q.from_(u).select("x"), a)

    return {
        "Field": lambda a: T.Field("a", alias=a),
        "Star": lambda a: _al(T.Star(), a),
        "Index": lambda a: T.Index("i", alias=a),
        "ValueWrapper": lambda a: T.ValueWrapper(1, alias=a),
        "JSON": lambda a: T.JSON({"k": 1}, alias=a),
        "Values": lambda a: _al(T.Values("a"), a),
        "LiteralValue": lambda a: T.LiteralValue("L", alias=a),
        "Negative": lambda a: _al(T.Negative(f), a),
        "ArithmeticExpression": lambda a: T.ArithmeticExpression(E.Arithmetic.add, f, g, alias=a),
        "BasicCriterion": lambda a: T.BasicCriterion(E.Equality.gt, f, g, alias=a),
        "ComplexCriterion": lambda a: T.ComplexCriterion(E.Boolean.and_, f == 1, g == 2, alias=a),
        "NestedCriterion": lambda a: T.NestedCriterion(E.Equality.eq, E.Equality.gt, f, g, T.Field("c"), alias=a),
        "ContainsCriterion": lambda a: T.ContainsCriterion(f, T.Tuple(g), alias=a),
        "ExistsCriterion": lambda a: T.ExistsCriterion(Query.from_(u).select("x"), alias=a),
        "BetweenCriterion": lambda a: T.BetweenCriterion(f, g, T.Field("c"), alias=a),
        "PeriodCriterion": lambda a: T.PeriodCriterion(f, g, T.Field("c"), alias=a),
        "BitwiseAndCriterion": lambda a: T.BitwiseAndCriterion(f, T.Term.wrap_constant(2), alias=a),
        "NullCriterion": lambda a: T.NullCriterion(f, alias=a),
        "NotNullCriterion": lambda a: T.NotNullCriterion(f, alias=a),
        "Not": lambda a: T.Not(f == 1, alias=a),
        "All": lambda a: T.All(f, alias=a),
        "Case": lambda a: T.Case(alias=a).when(f == 1, g),
        "Function": lambda a: T.Function("F", f, alias=a),
        "Tuple": lambda a: _al(T.Tuple(f, g), a),
        "Array": lambda a: _al(T.Array(f, g), a),
        "AtTimezone": lambda a: T.AtTimezone(f, "UTC", alias=a),
        "PseudoColumn": lambda a: _al(T.PseudoColumn("ROWNUM"), a),
        "Parameter": lambda a: _al(T.Parameter("?"), a),
        "QmarkParameter": lambda a: _al(T.QmarkParameter(), a),
        "NumericParameter": lambda a: _al(T.NumericParameter(), a),
        "FormatParameter": lambda a: _al(T.FormatParameter(), a),
        "NamedParameter": lambda a: _al(T.NamedParameter(), a),
        "PyformatParameter": lambda a: _al(T.PyformatParameter(), a),
        "QueryBuilder": sub(Query),
        "MySQLQueryBuilder": sub(D.MySQLQuery),
        "VerticaQueryBuilder": sub(D.VerticaQuery),
        "OracleQueryBuilder": sub(D.OracleQuery),
        "MSSQLQueryBuilder": sub(D.MSSQLQuery),
        "PostgreSQLQueryBuilder": sub(D.PostgreSQLQuery),
        "_SetOperation": lambda a: _al(Query.from_(u).select("x").union(Query.from_(u).select("y")), a),
        # further members of the Function family (all inherit Function.get_sql; checked below)
        "Function:Sum": lambda a: __import__("pypika.functions", fromlist=["Sum"]).Sum(f, alias=a),
        "Function:Count": lambda a: __import__("pypika.functions", fromlist=["Count"]).Count("*", alias=a),
        "Function:Cast": lambda a: __import__("pypika.functions", fromlist=["Cast"]).Cast(f, "SIGNED", alias=a),
        "Function:Rank.over": lambda a: _al(__import__("pypika.analytics", fromlist=["Rank"]).Rank().over(g), a),
        "Function:Sum.over.rows": lambda a: _al(__import__("pypika.analytics", fromlist=["Sum"]).Sum(f).over(g).orderby(f), a),
    }


ABSTRACT_OWNERS = {"Criterion"}      # Criterion.get_sql() takes no keyword arguments and raises: not renderable


def _owners():
    """every Term subclass -> the class of its MRO that defines get_sql"""
    import importlib
    import pkgutil
    import pypika
    from pypika.terms import Term
    for m in pkgutil.iter_modules(pypika.__path__):
        importlib.import_module("pypika." + m.name)
    seen = {}

    def walk(c):
        for s in c.__subclasses__():
            if s not in seen and s.__module__.startswith("pypika"):
                seen[s] = [k for k in s.__mro__ if "get_sql" in k.__dict__][0]
                walk(s)
    walk(Term)
    return seen


QS1 = {"quote_char": '"', "secondary_quote_char": "'", "alias_quote_char": "`", "as_keyword": True}
QS2 = {"quote_char": '"', "secondary_quote_char": "'"}


def _suffix(mk, kw):
    base = mk(None).get_sql(**kw)
    full = mk(SENT).get_sql(**kw)
    if not full.startswith(base):
        return "!" + full
    return full[len(base):]


def alias_rows():
    rec = _recipes()
    owners = _owners()
    names = sorted({o.__name__ for o in owners.values()})
    missing = [n for n in names if n not in rec and n not in ABSTRACT_OWNERS]
    if missing:
        raise RuntimeError("Term classes with an own get_sql and no extraction recipe: %r" % missing)
    fam = sorted(s.__name__ for s, o in owners.items() if o.__name__ == "Function")
    rows = []
    for name in sorted(rec):
        mk = rec[name]
        rows.append((name,
                     _suffix(mk, dict(QS1)),
                     _suffix(mk, dict(QS1, with_alias=False)),
                     _suffix(mk, dict(QS1, with_alias=True)),
                     _suffix(mk, dict(QS2, with_alias=True))))
    return rows, fam


def fmt_rows():
    from pypika.utils import format_alias_sql
    rows = []
    for alias in (None, SENT, ""):
        for q in (None, "", '"', "`"):
            for aq in (None, "", '"', "`"):
                for askw in (False, True):
                    rows.append((alias, q, aq, askw,
                                 format_alias_sql("X", alias, quote_char=q, alias_quote_char=aq, as_keyword=askw)))
    return rows


def _probe_class():
    from pypika.terms import Criterion

    class Probe(Criterion):
        """a term of the harness' own: records the keyword arguments the builder hands to get_sql at its position"""
        log = []

        def __init__(self, tag, alias=None):
            super().__init__(alias)
            self.tag = tag

        def nodes_(self):
            yield self

        def get_sql(self, **kw):
            Probe.log.append((self.tag, dict(kw)))
            return "P"
    return Probe


def _ctx_of_kwargs(kw):
    extra = set(kw) - KNOWN_KW
    if extra:
        raise RuntimeError("keyword arguments the model does not know reach get_sql: %r" % sorted(extra))
    d = kw.get("dialect")
    return {"q": kw.get("quote_char"), "sq": kw.get("secondary_quote_char", "'"), "aq": kw.get("alias_quote_char"),
            "askw": bool(kw.get("as_keyword", False)), "dia": None if d is None else d.value,
            "wa": bool(kw.get("with_alias", False)), "wn": bool(kw.get("with_namespace", False)),
            "subq": bool(kw.get("subquery", False)), "subc": bool(kw.get("subcriterion", False))}


def position_table():
    """(class, position, joined) -> ctx ; class -> (group-by alias reference used, order-by alias reference used)"""
    from pypika import Table, Order
    Probe = _probe_class()
    t, u = Table("t"), Table("u")
    ctxs, refs = {}, {}
    for cq, py in CLASSES:
        Q = qclass(py)
        for j in (False, True):
            Probe.log.clear()
            q = Q.from_(t)
            if j:
                q = q.join(u).on(Probe("on"))
            q = (q.select(Probe("select", SENT)).where(Probe("where"))
                 .groupby(Probe("groupref", SENT), Probe("group", "zqOther")).having(Probe("having"))
                 .orderby(Probe("orderref", SENT), Probe("order", "zqOther"), order=Order.desc))
            str(q)
            got = {}
            for tag, kw in Probe.log:
                got.setdefault(tag, []).append(kw)
            for tag in ("select", "where", "group", "having", "order") + (("on",) if j else ()):
                if len(got.get(tag, [])) != 1:
                    raise RuntimeError("%s: probe at %s rendered %d times" % (py, tag, len(got.get(tag, []))))
                ctxs[(cq, tag, j)] = _ctx_of_kwargs(got[tag][0])
            gref, oref = "groupref" not in got, "orderref" not in got
            if j is False:
                refs[cq] = (gref, oref)
            elif refs[cq] != (gref, oref):
                raise RuntimeError("%s: alias substitution depends on the presence of a join" % py)
            for tag in ("groupref", "orderref"):
                if tag in got:
                    base = "group" if tag == "groupref" else "order"
                    if _ctx_of_kwargs(got[tag][0]) != ctxs[(cq, base, j)]:
                        raise RuntimeError("%s: %s position contexts differ between elements" % (py, base))
        Probe.log.clear()
        str(Q.into(t).insert(Probe("values", SENT)))
        if len(Probe.log) != 1:
            raise RuntimeError("%s: VALUES probe rendered %d times" % (py, len(Probe.log)))
        ctxs[(cq, "values", False)] = _ctx_of_kwargs(Probe.log[0][1])
    return ctxs, refs


def extract():
    import pypika.enums as E
    rows, fam = alias_rows()
    out = ["(* GENERATED by harness/props/C13.py:extract() from the pypika sources on every run. Do not edit. *)",
           "From PV Require Import Base Crit gen.TermsTable Terms.", "",
           "Inductive qclass := " + " | ".join(c for c, _ in CLASSES) + ".",
           "Inductive pos := " + " | ".join(c for c, _ in POSITIONS) + ".",
           "Inductive dir := DAsc | DDesc.", ""]
    out.append("Definition all_qclasses : list qclass := %s." % L([c for c, _ in CLASSES]))
    out.append("Definition dir_text (d : dir) : string := match d with DAsc => %s | DDesc => %s end."
               % (S(E.Order.asc.value), S(E.Order.desc.value)))
    # alias behaviour rows
    out.append("(* per class that defines get_sql: text appended for an instance aliased %s, relative to the same instance"
               " without alias, when with_alias is absent / False / True under quote_char=\", alias_quote_char=`, as_keyword=True,"
               " and when True under quote_char=\" alone *)" % SENT)
    out.append("Definition x_alias_rows : list (string * (string * string * string * string)) := [")
    out.append(";\n".join("  (%s, (%s, %s, %s, %s))" % tuple(S(x) for x in r) for r in rows))
    out.append("].")
    out.append("Definition x_function_family : list string := %s." % L([S(x) for x in fam]))
    # format_alias_sql grid
    out.append("Definition x_fmt_rows : list (option string * option string * option string * bool * string) := [")
    out.append(";\n".join("  (%s, %s, %s, %s, %s)" % (OS(a), OS(q), OS(aq), B(k), S(txt)) for a, q, aq, k, txt in fmt_rows()))
    out.append("].")
    # contexts per class and position
    ctxs, refs = position_table()
    out.append("Definition x_ctx_at (c : qclass) (p : pos) (joined : bool) : ctx := match c, p, joined with")
    for cq, _ in CLASSES:
        for pq, tag in POSITIONS:
            for j in (False, True):
                key = (cq, tag, j)
                if key not in ctxs:
                    key = (cq, tag, not j)      # ON exists only with a join, VALUES only without: the other row is never used
                out.append("  | %s, %s, %s => %s" % (cq, pq, B(j), tf.ctx_coq(ctxs[key])))
    out.append("  end.")
    out.append("Definition x_group_ref (c : qclass) : bool := match c with %s end."
               % " ".join("| %s => %s" % (cq, B(refs[cq][0])) for cq, _ in CLASSES))
    out.append("Definition x_order_ref (c : qclass) : bool := match c with %s end."
               % " ".join("| %s => %s" % (cq, B(refs[cq][1])) for cq, _ in CLASSES))
    return {"gen/C13Table.v": "\n".join(out) + "\n"}
