"""C05 — INSERT, UPDATE and DELETE statements have exactly the intended effect.
Syntactic half: coq/Dml.v (builder-call layer + positional reader) on top of the shared coq/Query.v / coq/Terms.v,
theorems in coq/props/C05.v.  Engine half (validated, not proved): harness/c05/engine.py applies pypika's statement and
a reference effect written without pypika to two copies of a seeded SQLite database and compares every table."""
import glob
import json
import os

from harness import queries_family as qf
from harness.lib import VERIF
from harness.c05 import build as bd
from harness.c05 import engine as en
from harness.c05 import gen as gn
from harness.c05 import more as mr

ID = "C05"
COQ_PROP = "props/C05.v"
CORR_REQUIRE = ["Crit", "gen.TermsTable", "Terms", "Page", "gen.QueryTable", "Query", "QueryCorr", "Dml", "DmlCorr"]
CORR_CHECK = "check_case"
CORR_SHOW = "show_case"
SHARED_EXTRACT = ["terms", "query"]
SHARD = 120
RULE = ("a DML specification is drawn first (target table of a seeded database, column list, rows of str/int/bool/None/float "
        "values incl. hostile strings, or SET pairs with literal values and expressions over columns, criteria, verb), then a "
        "random call list expressing it (chained insert/replace/insert_or_replace calls, scalars vs one tuple vs several "
        "tuples/lists, columns() split and placed anywhere, set()/where() interleaved, limit) on one of the ten query classes "
        "(SQLLiteQuery and Query are judged by the engine); plus DML statements of the shared `queries` family on all ten "
        "classes, plus a malformed stream (insert without into, scalar among rows, insert_or_replace outside SQLite, set as "
        "row, aliased value, empty tuple); plus FORKS (a kept prefix from which 2-4 statements are derived, each judged against "
        "its own specification, the prefix observed again afterwards), all 31 arithmetic (outer op, side, inner op) triples "
        "as SET value / WHERE operand / DELETE criterion / INSERT value on a table of primes, and UPDATE/DELETE with a "
        "correlated IN / EXISTS / comparison sub-query whose criteria come from separate where() calls, and INSERT...SELECT "
        "in all 400 admissible orders of into/columns/from_/select/where/replace()/insert_or_replace() on an empty builder. Non-trivial = a judged call list with >= 2 calls or >= 2 rows/SET pairs; distinct "
        "by JSON of the case.")
TRUSTED = [
    "SQLite 3.40.1 (Python sqlite3) as the engine; the reference effect is explicit SQL with bound parameters built by "
    "harness/c05/engine.py without pypika",
    "harness/c05/build.py builds the same call list on pypika and as a Gallina value; harness/queries_family.py for the shared statement specs",
    "harness/c05/gen.py derives the specification (positional summary) of a call list independently of pypika",
    "coq/Query.v / coq/Terms.v (shared statement and expression renderer models) are tied to the code by the correspondence check",
    "Dml.lit_value: SQLite's reading of a literal token (NULL, true/false, integer numeral, quoted text, other numeric text)",
]
ASSUMPTIONS = [
    "engine half is validated on the generated cases, not proved: Coq cannot run SQLite",
    "values judged by the engine: str without NUL (sqlite3 API), int within int64, bool, None, finite floats with short repr",
    "UPDATE/DELETE ... LIMIT n (this SQLite build has SQLITE_ENABLE_UPDATE_DELETE_LIMIT; without it the engine rejects the "
    "clause): which n matching rows are taken is the engine's choice, so the check is 'every row untouched or as the "
    "un-limited reference leaves it, at most n touched, exactly min(n, #matching) deleted, other tables untouched'",
    "a Python set passed as a row has no given order: never judged (model takes Python's iteration order)",
]


# ----------------------------------------------------------------------------------------------
# cases
# ----------------------------------------------------------------------------------------------
def _f(n):
    return ["field", n, None, None]


def _corpus_files():
    """witnesses kept under corpus/C05/*.json: one per open finding, plus minimised failures added later"""
    out = []
    for path in sorted(glob.glob(os.path.join(VERIF, "corpus", "C05", "*.json"))):
        with open(path) as f:
            data = json.load(f)
        out.extend(data if isinstance(data, list) else [data])
    return out


def corpus():
    i = lambda n: ["vali", n, None]  # noqa
    sv = lambda s: ["v", ["s", s]]  # noqa
    iv = lambda n: ["v", ["i", n]]  # noqa
    B = lambda start, calls, spec, cls="SQLLiteQuery", db=1: {"kind": "b", "cls": cls, "start": start, "calls": calls, "spec": spec, "db": db}  # noqa
    out = [
        # (the witnesses of the former findings — now fixed — live in corpus/C05/known_findings.json: a regression is a VIOLATION)
        # ---- shapes that must stay right ----
        B(["into", "t"], [["columns", [["s", "a"], ["s", "b"]]], ["insert", [iv(1), sv("it's ),( x")]], ["insert", [["seq", "tuple", [["n"], ["b", True]]], ["seq", "tuple", [["f", "1.5"], ["i", -3]]]]]],
          {"kind": "insert", "table": "t", "cols": ["a", "b"], "rows": [[["i", 1], ["s", "it's ),( x"]], [["n"], ["b", True]], [["f", "1.5"], ["i", -3]]], "mode": "insert"}),
        B(["into", "t"], [["insert", [["seq", "tuple", [["i", 2], ["s", "'); DROP TABLE t; --"], ["n"], ["s", "x"], ["f", "0.1"]]]]]],
          {"kind": "insert", "table": "t", "cols": [], "rows": [[["i", 2], ["s", "'); DROP TABLE t; --"], ["n"], ["s", "x"], ["f", "0.1"]]], "mode": "insert"}),
        B(["into", "t"], [["ior", [["seq", "list", [["i", 2], ["s", "new"]]], ["seq", "list", [["i", 200], ["b", False]]]]], ["columns", [["seq", "list", [["s", "id"], ["s", "b"]]]]]],
          {"kind": "insert", "table": "t", "cols": ["id", "b"], "rows": [[["i", 2], ["s", "new"]], [["i", 200], ["b", False]]], "mode": "ior"}),
        B(["into", "k"], [["columns", [["s", "a"]]], ["replace", [sv("abc")]], ["columns", [["s", "c"]]], ["insert", [sv("abc")]]],
          None),   # width mismatch on purpose: rejected by both sides would need a spec; correspondence only
        B(["into", "t"], [["columns", [["s", "a"]]], ["insert", [iv(1)]], ["insert", [iv(2)]]],
          {"kind": "insert", "table": "t", "cols": ["a"], "rows": [[["i", 1]], [["i", 2]]], "mode": "insert"}),
        B(["update", "t"], [["set", ["s", "a"], ["b", False]], ["where", ["basic", "eq", _f("a"), i(2), None]], ["set", ["s", "b"], ["s", "x'y, \"z\"=1 WHERE"]],
                            ["set", ["s", "c"], ["n"]], ["where", ["isnull", _f("b"), None]], ["set", ["s", "a"], ["i", 10]]],
          {"kind": "update", "table": "t", "sets": [["a", ["b", False]], ["b", ["s", "x'y, \"z\"=1 WHERE"]], ["c", ["n"]], ["a", ["i", 10]]],
           "where": ["cplx", "and", ["basic", "eq", _f("a"), i(2), None], ["isnull", _f("b"), None], None]}),
        B(["update", "t"], [["set", ["s", "a"], ["t", ["arith", "add", _f("a"), i(1), None]]], ["set", ["s", "d"], ["i", -1]], ["limit", 2]],
          {"kind": "update", "table": "t", "sets": [["a", ["t", ["arith", "add", _f("a"), i(1), None]]], ["d", ["i", -1]]], "where": None, "limit": 2}),
        B(["delete", "t"], [["where", ["basic", "gt", _f("a"), i(1), None]], ["limit", 1]],
          {"kind": "delete", "table": "t", "where": ["basic", "gt", _f("a"), i(1), None], "limit": 1}),
        B(["into", "k"], [["columns", [["s", "a"], ["s", "b"]]], ["fromselect", "u", [_f("x"), _f("y")]], ["where", ["basic", "gt", _f("x"), i(1), None]], ["replace", []]],
          {"kind": "insert-select", "table": "k", "cols": ["a", "b"], "from": ["u"], "sels": [_f("x"), _f("y")], "where": ["basic", "gt", _f("x"), i(1), None], "mode": "replace"}),
        B(["into", "t"], [["fromselect", "u", [_f("x")]], ["columns", [["s", "a"], ["s", "c"]]], ["fromselect", "k", [_f("c")]], ["where", ["basic", "lt", _f("x"), i(3), None]]],
          {"kind": "insert-select", "table": "t", "cols": ["a", "c"], "from": ["u", "k"], "sels": [_f("x"), _f("c")], "where": ["basic", "lt", _f("x"), i(3), None], "mode": "insert"}),
        B(["update", "t"], [["set", ["s", "a"], ["t", ["sub", None]]], ["set", ["s", "b"], ["i", 1]], ["where", ["basic", "gt", _f("id"), i(1), None]]],
          {"kind": "update", "table": "t", "sets": [["a", ["t", ["sub", None]]], ["b", ["i", 1]]], "where": ["basic", "gt", _f("id"), i(1), None]}),
        # strings ending in a backslash (SQLite has no backslash escapes), braces, percent: as INSERT value, SET value, WHERE operand
        B(["into", "t"], [["columns", [["s", "b"], ["s", "c"]]], ["insert", [["seq", "tuple", [["s", "C:\\data\\"], ["s", "\\"]]], ["seq", "tuple", [["s", "{x}"], ["s", "100%"]]]]]],
          {"kind": "insert", "table": "t", "cols": ["b", "c"], "rows": [[["s", "C:\\data\\"], ["s", "\\"]], [["s", "{x}"], ["s", "100%"]]], "mode": "insert"}),
        B(["update", "t"], [["set", ["s", "b"], ["s", "\\"]], ["set", ["s", "a"], ["s", "it's\\"]], ["where", ["basic", "eq", _f("c"), ["vals", "C:\\data\\", None], None]]],
          {"kind": "update", "table": "t", "sets": [["b", ["s", "\\"]], ["a", ["s", "it's\\"]]], "where": ["basic", "eq", _f("c"), ["vals", "C:\\data\\", None], None]}, db=0),
        B(["delete", "t"], [["where", ["basic", "ne", _f("c"), ["vals", "\\", None], None]]],
          {"kind": "delete", "table": "t", "where": ["basic", "ne", _f("c"), ["vals", "\\", None], None]}, db=0),
        # membership in an EMPTY list, built by Term.isin([]) / Term.notin([]): nothing / everything qualifies
        B(["delete", "t"], [["where", ["in", _f("a"), ["tuple", [], None], True, None]]],
          {"kind": "delete", "table": "t", "where": ["in", _f("a"), ["tuple", [], None], True, None]}),
        B(["update", "t"], [["set", ["s", "b"], ["i", 77]], ["where", ["in", _f("a"), ["tuple", [], None], True, None]], ["where", ["basic", "gt", _f("id"), i(2), None]]],
          {"kind": "update", "table": "t", "sets": [["b", ["i", 77]]],
           "where": ["cplx", "and", ["in", _f("a"), ["tuple", [], None], True, None], ["basic", "gt", _f("id"), i(2), None], None]}),
        B(["update", "t"], [["set", ["s", "b"], ["i", 78]], ["where", ["cplx", "or", ["in", _f("a"), ["tuple", [], None], False, None], ["basic", "eq", _f("id"), i(2), None], None]]],
          {"kind": "update", "table": "t", "sets": [["b", ["i", 78]]],
           "where": ["cplx", "or", ["in", _f("a"), ["tuple", [], None], False, None], ["basic", "eq", _f("id"), i(2), None], None]}),
        B(["delete", "t"], [["where", ["not", ["in", _f("a"), ["tuple", [], None], False, None], None]]],
          {"kind": "delete", "table": "t", "where": ["not", ["in", _f("a"), ["tuple", [], None], False, None], None]}, cls="Query"),
        B(["update", "t"], [["set", ["s", "a"], ["b", True]], ["set", ["s", "b"], ["b", False]]],
          {"kind": "update", "table": "t", "sets": [["a", ["b", True]], ["b", ["b", False]]], "where": None}),
        B(["into", "t"], [["columns", [["s", "a"], ["s", "b"]]], ["insert", [["v", ["b", True]], ["v", ["b", False]]]]],
          {"kind": "insert", "table": "t", "cols": ["a", "b"], "rows": [[["b", True], ["b", False]]], "mode": "insert"}, cls="Query"),
    ]
    g = gn.G(__import__("random").Random("C05-corpus"))
    for k in range(12):     # every malformed / unusual shape once
        c = g.malformed(k)
        c["cls"] = "SQLLiteQuery" if k != 4 else "Query"
        out.append(c)
    return _corpus_files() + out + mr.triples() + mr.fork_witnesses() + mr.corr_witnesses() + mr.insert_select_orders() + mr.nested_subquery_values() + mr.starter_spellings() + mr.retargeted()


def gen_cases(rng, tier):
    n = 1500 if tier == "quick" else 14000
    g = gn.G(rng)
    fg = mr.FG(rng, hazards=0.0)
    qg = qf.QGen(rng, p_alias=0.1, p_subq=0.0, hostile=0.3)
    out = []
    for _ in range(n):
        x = rng.random()
        if x < 0.15:
            cls = rng.choice(qf.CLS_NAMES)
            k = rng.random()
            spec = qg.insert(cls) if k < 0.5 else (qg.update(cls) if k < 0.8 else qg.delete(cls))
            out.append({"kind": "q", "spec": spec})
        elif x < 0.30:
            out.append(fg.fork())
        elif x < 0.38:
            out.append(mr.corr_case(rng, fg))
        elif x < 0.44:
            out.append(mr.random_insert_select_order(rng, fg))
        else:
            out.append(g.any_b())
    return out


# ----------------------------------------------------------------------------------------------
# implementation
# ----------------------------------------------------------------------------------------------
def judged(case):
    if case["kind"] == "b":
        return case.get("spec") is not None and case["cls"] in gn.JUDGED
    return case["kind"] in ("f", "c") and case["cls"] in gn.JUDGED


def _engine(out, spec, db):
    """engine verdict for one observed statement (out: dump/text or exception names) against its specification"""
    if "text" in out and out["text"]:
        try:
            return en.differential(out["text"], spec, db)
        except Exception as e:  # noqa  (harness trouble must not look like a pass)
            return {"verdict": "harness-error", "why": "%s: %s" % (type(e).__name__, e)}
    if "build_exc" in out or "text_exc" in out:
        return {"verdict": "exception", "error": out.get("build_exc") or out.get("text_exc")}
    return {"verdict": "empty-text"}


def run_impl(case):
    if case["kind"] == "q":
        return {"text": qf.render_impl(case["spec"])}
    if case["kind"] == "c":
        out = mr.run_c(case)
        if judged(case):
            o = {"text": out["text"]} if not out["text"].startswith("!") else {"text_exc": out["text"][1:]}
            out["engine"] = _engine(o, mr.corr_spec(case), case.get("db", 0))
        return out
    if case["kind"] == "f":
        out = bd.run_f(case)
        if judged(case) and "branches" in out:
            for o, spec in zip(out["branches"], case["specs"]):
                if spec is not None:
                    o["engine"] = _engine(o, spec, case.get("db", 0))
        return out
    out = bd.run_b(case)
    if judged(case):
        out["engine"] = _engine(out, case["spec"], case.get("db", 0))
    return out


def to_coq(case, outcome):
    if case["kind"] == "q":
        return bd.coq_q(case, outcome)
    if case["kind"] == "c":
        return mr.coq_c(case, outcome)
    if case["kind"] == "f":
        if not bd.modelled({"calls": case["prefix"] + [c for b in case["branches"] for c in b]}):
            return None
        return bd.coq_f(case, outcome)
    if not bd.modelled(case):
        return None
    return bd.coq_b(case, outcome)


# ----------------------------------------------------------------------------------------------
# oracle: the property's observable — table contents after pypika's statement vs after the reference effect
# ----------------------------------------------------------------------------------------------
def _walk(t):
    yield t
    for x in t[1:]:
        if isinstance(x, list) and x and isinstance(x[0], str) and x[0] in ("field", "vali", "vals", "valf", "neg", "arith", "basic", "cplx", "not", "in", "between", "isnull", "notnull", "func", "tuple"):
            yield from _walk(x)
        elif isinstance(x, list):
            for y in x:
                if isinstance(y, list) and y and isinstance(y[0], str):
                    yield from _walk(y)


def _neg_start(t):
    """the text of t begins with a minus sign"""
    k = t[0]
    if k == "neg":
        return True
    if k in ("vali", "valf"):
        return str(t[1]).startswith("-")
    if k in ("arith", "basic", "cplx"):
        return _neg_start(t[2])
    if k in ("between", "in", "isnull", "notnull"):
        return _neg_start(t[1])
    return False


def hazard(t):
    """C02's rendering defects that change the meaning of an expression: which one (if any) occurs in t"""
    for n in _walk(t):
        if n[0] == "arith" and n[1] == "sub" and _neg_start(n[3]):
            return "double-minus"
        if n[0] == "neg" and _neg_start(n[1]):
            return "double-minus"
    for n in _walk(t):
        if n[0] == "neg" and n[1][0] == "arith":
            return "neg-over-compound"
    return None


def construct(spec, calls):
    k = spec["kind"]
    if k == "update":
        for _, v in spec["sets"]:
            if v[0] == "t" and hazard(v[1]):
                return "set-expression:" + hazard(v[1])
        for _, v in spec["sets"]:
            if v[0] == "t" and v[1][0] == "sub":
                return "set-expression:subquery"
        for _, v in spec["sets"]:
            if v[0] == "t" and '["sub", null]' in json.dumps(v[1]):
                return "set-expression:nested-subquery"
    if spec.get("where") is not None and hazard(spec["where"]):
        return "where:" + hazard(spec["where"])
    if spec.get("where_item") is not None:
        return "where:correlated-subquery"
    if k == "insert":
        ins = [c for c in calls if c[0] in ("insert", "replace", "ior") and c[1]]
        if any(v[0] == "t" for row in spec["rows"] for v in row):
            return "value-expression"
        if len(ins) > 1:
            return "chained"
        if len(spec["rows"]) > 1:
            return "multi-row"
        return "single-tuple" if ins and ins[0][1][0][0] == "seq" else "single-row"
    if k == "insert-select":
        return "select"
    if spec.get("limit") is not None:
        return "limit"
    if k == "update":
        return "set-expression" if any(v[0] == "t" for _, v in spec["sets"]) else "set-literal"
    return "where" if spec.get("where") is not None else "no-where"


def stmt_kind(spec):
    if spec["kind"] == "insert":
        return {"insert": "insert", "replace": "replace", "ior": "insert-or-replace"}[spec["mode"]]
    return spec["kind"]


def _verdict(e, spec, calls, cls, text, prefix=""):
    v = e.get("verdict")
    if v in ("same", "not-judged", None):
        return []
    if v == "exception":
        what = "exception:" + str(e.get("error"))
    else:
        what = v          # rejected | state-differs | reference-rejected | empty-text | harness-error
    detail = {k: e[k] for k in ("error", "table", "got", "expected", "reference", "why") if k in e}
    return [{"signature": ["C05", stmt_kind(spec), prefix + construct(spec, calls), what],
             "what": "%s on %s: pypika text %r vs reference effect %r: %s" % (
                 what, cls, text, e.get("reference"), json.dumps(detail, default=str)[:600])}]


def oracle(case, outcome):
    if not judged(case):
        return []
    if case["kind"] == "b":
        return _verdict(outcome.get("engine") or {}, case["spec"], case["calls"], case["cls"], outcome.get("text"))
    if case["kind"] == "c":
        return _verdict(outcome.get("engine") or {}, mr.corr_spec(case), [], case["cls"], outcome.get("text"))
    # fork: every derived statement against ITS OWN specification, and the kept prefix must still be what it was
    out = []
    kind = {"into": "insert", "update": "update", "delete": "delete"}[case["start"][0]]
    if "build_exc" in outcome:
        return [{"signature": ["C05", kind, "fork:prefix", "exception:" + outcome["build_exc"]],
                 "what": "the prefix %r raised %s" % (case["prefix"], outcome["build_exc"])}]
    for br, o, spec in zip(case["branches"], outcome["branches"], case["specs"]):
        if spec is not None:
            out += _verdict(o.get("engine") or {}, spec, case["prefix"] + br, case["cls"], o.get("text"), prefix="fork:")
    if outcome["after"] != outcome["before"]:
        out.append({"signature": ["C05", kind, "fork:prefix", "changed-by-derived-statement"],
                    "what": "the kept prefix rendered %r with state %r before the derived statements were built and %r / %r afterwards"
                            % (outcome["before"].get("text"), outcome["before"].get("dump"), outcome["after"].get("text"), outcome["after"].get("dump"))})
    return out[:3]


# ----------------------------------------------------------------------------------------------
# evidence helpers
# ----------------------------------------------------------------------------------------------
def nontrivial_key(case):
    if not judged(case):
        return None
    if case["kind"] in ("f", "c"):
        return json.dumps(case, sort_keys=True)
    spec = case["spec"]
    size = len(spec.get("rows", [])) + len(spec.get("sets", [])) + (1 if spec.get("where") is not None else 0)
    if len(case["calls"]) >= 2 or size >= 2:
        return json.dumps(case, sort_keys=True)
    return None


def histogram(cases):
    h = {}

    def inc(k):
        h[k] = h.get(k, 0) + 1
    for c in cases:
        if c["kind"] == "q":
            inc("q:" + c["spec"]["k"])
            inc("cls=" + c["spec"]["cls"])
            continue
        if c["kind"] == "c":
            inc("cls=" + c["cls"])
            inc("correlated:%s:%s" % (c["stmt"], c["form"]))
            inc("correlated:inner-wheres=%d" % len(c["inner_wheres"]))
            continue
        if c["kind"] == "f":
            inc("cls=" + c["cls"])
            inc("fork:" + c["start"][0])
            inc("fork:branches=%d" % len(c["branches"]))
            for call in c["prefix"] + [x for b in c["branches"] for x in b]:
                inc("fork-call:" + call[0])
            continue
        if c.get("tag"):
            inc(c["tag"].rsplit(":", 1)[0])
        inc("cls=" + c["cls"])
        inc("b:" + (c["spec"]["kind"] if c.get("spec") else "malformed"))
        inc("calls=%d" % min(len(c["calls"]), 8))
        for call in c["calls"]:
            inc("call:" + call[0])
            if call[0] in ("insert", "replace", "ior"):
                for a in call[1]:
                    inc("arg:" + (a[0] if a[0] == "v" else a[1]))
                    for v in ([a[1]] if a[0] == "v" else a[2]):
                        inc("val:" + v[0])
        if c.get("spec") and c["spec"]["kind"] == "insert":
            inc("rows=%d" % min(len(c["spec"]["rows"]), 6))
    return h


def targeted_search(rng, broken, mism_cases):
    """the single calls of the disagreeing cases on their own, every expression shape of the insert rule on small rows,
    and a denser judged batch"""
    out = []
    for c in mism_cases:
        if c["kind"] != "b":
            continue
        for call in c["calls"]:
            out.append(dict(c, calls=[call], spec=None))
    iv = lambda n: ["i", n]  # noqa
    rows = [[iv(1), ["s", "p"]], [iv(2), ["s", "q"]], [iv(3), ["s", "r"]]]
    for cls in gn.JUDGED:
        for verb, mode in (("insert", "insert"), ("replace", "replace")) + ((("ior", "ior"),) if cls == "SQLLiteQuery" else ()):
            for shape in ("scalars", "tuple", "list", "tuples", "lists", "chained"):
                if shape == "scalars":
                    calls, rs = [[verb, [["v", v] for v in rows[0]]]], rows[:1]
                elif shape in ("tuple", "list"):
                    calls, rs = [[verb, [["seq", shape, rows[0]]]]], rows[:1]
                elif shape in ("tuples", "lists"):
                    calls, rs = [[verb, [["seq", shape[:-1], r] for r in rows]]], rows
                else:
                    calls, rs = [[verb, [["v", v] for v in r]] for r in rows], rows
                for colpos in ("before", "after", "split"):
                    if colpos == "before":
                        cl = [["columns", [["s", "a"], ["s", "b"]]]] + calls
                    elif colpos == "after":
                        cl = calls + [["columns", [["seq", "list", [["s", "a"], ["s", "b"]]]]]]
                    else:
                        cl = [["columns", [["s", "a"]]]] + calls + [["columns", [["s", "b"]]]]
                    out.append({"kind": "b", "cls": cls, "start": ["into", "t"], "calls": cl, "db": 2,
                                "spec": {"kind": "insert", "table": "t", "cols": ["a", "b"], "rows": rs, "mode": mode}})
        for val in (["b", True], ["b", False], ["n"], ["s", "x'y"], ["i", -7], ["f", "2.5"]):
            out.append({"kind": "b", "cls": cls, "start": ["update", "t"], "db": 2,
                        "calls": [["set", ["s", "b"], val], ["set", ["s", "c"], ["s", "w"]], ["where", ["basic", "eq", _f("a"), ["vali", 2, None], None]]],
                        "spec": {"kind": "update", "table": "t", "sets": [["b", val], ["c", ["s", "w"]]],
                                 "where": ["basic", "eq", _f("a"), ["vali", 2, None], None]}})
            out.append({"kind": "b", "cls": cls, "start": ["into", "t"], "db": 2,
                        "calls": [["columns", [["s", "a"], ["s", "b"]]], ["insert", [["v", val], ["v", ["i", 5]]]]],
                        "spec": {"kind": "insert", "table": "t", "cols": ["a", "b"], "rows": [[val, ["i", 5]]], "mode": "insert"}})
        for lim in (None, 1):
            w = ["basic", "gt", _f("a"), ["vali", 1, None], None]
            sp = {"kind": "delete", "table": "t", "where": w}
            calls = [["where", w]]
            if lim is not None:
                sp["limit"] = lim
                calls.append(["limit", lim])
            out.append({"kind": "b", "cls": cls, "start": ["delete", "t"], "db": 2, "calls": calls, "spec": sp})
    g = gn.G(rng, hazards=0.0)
    for _ in range(1500):
        c = g.any_b()
        c["cls"] = rng.choice(gn.JUDGED)
        if c.get("spec") and c["spec"].get("mode") == "ior" and c["cls"] != "SQLLiteQuery":
            continue
        if any(call[0] == "ior" for call in c["calls"]) and c["cls"] != "SQLLiteQuery":
            continue
        out.append(c)
    fg = mr.FG(rng, hazards=0.0)
    for _ in range(600):
        c = fg.fork()
        if c["cls"] in gn.JUDGED:
            out.append(c)
    for _ in range(300):
        out.append(mr.corr_case(rng, fg, cls=rng.choice(gn.JUDGED)))
    return out
