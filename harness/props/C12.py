"""C12 — limit/offset/slice/top select the requested row window in every dialect (model: coq/Page.v).

Three mechanisms:
  * extract(): runs the real builders of all ten query classes (SELECT, _SetOperation built from each class, UPDATE)
    on a complete sentinel grid and reads the clause order of the three get_sql tails by `ast`; the tables land in
    coq/gen/C12Table.v and coq/lemmas/PageTable.v proves the hand-written model reproduces every row.
  * correspondence: random programs of limit/offset/slice/top/fetch_next/limit_by calls (interleaved with
    orderby/for_update/distinct) are run on pypika and on the model (coqc, vm_compute); full statement texts compared.
  * oracle (independent of the model): the pagination tail of str(q) is cut out using the un-paginated rendering, parsed
    with a small per-dialect grammar reader and compared with the requested (offset, limit); SQLLiteQuery statements
    are additionally executed on an in-memory sqlite3 table and compared with the Python slice of the ordered rows.
"""
import ast
import json
import os
import re
import warnings

from harness.lib import S, L, P, B, Zc, OZ, REPO

ID = "C12"
COQ_PROP = "props/C12.v"
CORR_REQUIRE = ["Page", "PageCorr"]
CORR_CHECK = "check_case"
CORR_SHOW = "show_case"
GEN_FILES = ["gen/C12Table.v"]
SHARD = 400
RULE = ("complete grid: 10 query classes x {select, set operation, update} x n in {absent,0,positive} x m in "
        "{absent,0,positive} with the calls issued as limit-then-offset / offset-then-limit / slice; plus random programs "
        "of 0-6 pagination calls (limit, offset, slice, top, fetch_next, limit_by, limit_offset_by; repeated calls; "
        "values from {0,1,2,7,10,99,10^12,random}) interleaved with orderby/for_update/distinct and with other @builder calls "
        "(where, select, groupby, set, replace_table with an equal / another / an absent table) placed mostly after the "
        "pagination calls; the product (pagination state incl. ClickHouse LIMIT n OFFSET m BY and MSSQL TOP) x (one later "
        "call); set operations whose operands carry their own limit/offset/limit_by/top; plus a malformed stream "
        "(negative numbers, str/float arguments, methods the class does not have). A case is non-trivial when at least "
        "one pagination call with in-range arguments is present; distinct by (class, kind, call list)")
TRUSTED = [
    "harness/props/C12.py builds the same call sequence on pypika objects and as a Gallina value",
    "the statement text outside the pagination clause (select list .. HAVING, ORDER BY text, FOR UPDATE text, set-operation "
    "operands, UPDATE .. WHERE) is opaque to the model: it is cut out of renderings of the same statement without pagination",
    "family_of (which grammar the property assigns to which class) is written by hand from the property text",
]
ASSUMPTIONS = [
    "n, m are Python ints >= 0 (the property's quantifier); other argument types are run but not judged",
    "ClickHouse LIMIT BY terms are plain column names without blanks",
    "on UPDATE only limit is in the property (an offset given to an UPDATE is not judged)",
]
ALLOWED_AXIOMS = []

CLASSES = [("CQuery", "Query"), ("CMySQL", "MySQLQuery"), ("CVertica", "VerticaQuery"), ("COracle", "OracleQuery"),
           ("CPostgreSQL", "PostgreSQLQuery"), ("CRedshift", "RedshiftQuery"), ("CMSSQL", "MSSQLQuery"),
           ("CClickHouse", "ClickHouseQuery"), ("CSQLLite", "SQLLiteQuery"), ("CSnowflake", "SnowflakeQuery")]
COQ_CLS = {py: cq for cq, py in CLASSES}
KINDS = [("KSelect", "select"), ("KSetOp", "setop"), ("KUpdate", "update")]
COQ_KIND = {py: cq for cq, py in KINDS}
FETCH = ("OracleQuery", "MSSQLQuery")
SETOPS = ["union", "union_all", "intersect", "except_of", "minus"]
PAGE_OPS = ("limit", "offset", "slice", "top", "fetch_next", "limit_by", "limit_offset_by")
# other @builder calls made before/between/after the pagination calls: they must leave the window alone
OTHER_SELECT = ("where", "select", "groupby", "replace_same", "replace_other", "replace_none")
OTHER_UPDATE = ("where", "set", "replace_same", "replace_other", "replace_none")
BASE_OPS = ("distinct", "where", "select", "groupby", "set", "replace_same", "replace_other", "replace_none")


def _cls(name):
    import pypika
    import pypika.dialects as D
    return pypika.Query if name == "Query" else getattr(D, name)


def _table():
    from pypika import Table
    return Table("t")


# every class-method factory of a query class that starts a statement which can be paginated
SELECT_ROUTES = ("from_", "select", "with_", "into", "Table", "Tables")
UPDATE_ROUTES = ("update", "with_", "Table", "Tables")
OPERAND_ROUTES = ("from_", "select", "with_", "Table", "Tables")
# all classmethods of pypika.queries.Query (extract() fails closed when the source has one this list does not know)
KNOWN_FACTORIES = {"_builder": "internal", "from_": "route", "into": "route", "with_": "route", "select": "route",
                   "update": "route", "Table": "route", "Tables": "route",
                   "create_table": "ddl", "create_index": "ddl", "drop_database": "ddl", "drop_table": "ddl",
                   "drop_user": "ddl", "drop_view": "ddl", "drop_index": "ddl"}


def _cte(c):
    return c.from_("s").select("x")


def _start_select(clsname, route, col):
    """SELECT <col> FROM t started through the given class-method factory of the query class"""
    c, t = _cls(clsname), _table()
    f = getattr(t, col)
    if route in (None, "from_"):
        return c.from_(t).select(f)
    if route == "select":
        return c.select(f).from_(t)
    if route == "with_":
        return c.with_(_cte(c), "w").from_(t).select(f)
    if route == "into":
        return c.into("u").from_(t).select(f)
    if route == "Table":
        return c.Table("t").select(f)
    if route == "Tables":
        return c.Tables("t")[0].select(f)
    raise ValueError(route)


def _start_update(clsname, route):
    c, t = _cls(clsname), _table()
    if route in (None, "update"):
        q = c.update(t)
    elif route == "with_":
        q = c.with_(_cte(c), "w").update(t)
    elif route == "Table":
        q = c.Table("t").update()
    elif route == "Tables":
        q = c.Tables("t")[0].update()
    else:
        raise ValueError(route)
    return q.set(t.b, 1).where(t.a >= 0)


def _operands(clsname, operands=None, route=None):
    """the two operands of a set operation, each with its own pagination calls (operands = [ops_a, ops_b])"""
    qa, qb = _start_select(clsname, route, "a"), _start_select(clsname, route, "b")
    if operands:
        for op in operands[0]:
            qa = _apply(qa, op, "select")
        for op in operands[1]:
            qb = _apply(qb, op, "select")
    return qa, qb


def _base(clsname, kind, setop="union", operands=None, route=None):
    if kind == "select":
        return _start_select(clsname, route, "a")
    if kind == "setop":
        qa, qb = _operands(clsname, operands, route)
        return getattr(qa, setop)(qb)
    if kind == "update":
        return _start_update(clsname, route)
    raise ValueError(kind)


def _apply(q, op, kind):
    """one builder call; raises whatever pypika raises"""
    t = _table()
    k = op[0]
    if k == "limit":
        return q.limit(op[1])
    if k == "offset":
        return q.offset(op[1])
    if k == "slice":
        return q[op[1]:op[2]] if kind != "setop" else q.slice(slice(op[1], op[2]))
    if k == "fetch_next":
        with warnings.catch_warnings():
            warnings.simplefilter("ignore")
            return q.fetch_next(op[1])
    if k == "top":
        return q.top(op[1], percent=op[2], with_ties=op[3])
    if k == "limit_by":
        return q.limit_by(op[1], *op[2])
    if k == "limit_offset_by":
        return q.limit_offset_by(op[1], op[2], *op[3])
    if k == "orderby":
        return q.orderby(t.a)
    if k == "for_update":
        return q.for_update()
    if k == "distinct":
        return q.distinct()
    if k == "where":
        return q.where(t.a >= 1)
    if k == "select":
        return q.select(t.b)
    if k == "groupby":
        return q.groupby(t.a)
    if k == "set":
        return q.set(t.c, 2)
    if k in ("replace_same", "replace_other", "replace_none"):
        from pypika import Table
        old, new = {"replace_same": (t, Table("t")), "replace_other": (t, Table("u")),
                    "replace_none": (Table("zz"), Table("yy"))}[k]
        return q.replace_table(old, new)
    raise ValueError(k)


def _build(case, keep):
    q = _base(case["cls"], case["kind"], case.get("setop", "union"), case.get("operands"), case.get("route"))
    for op in case["ops"]:
        if keep(op[0]):
            q = _apply(q, op, case["kind"])
    return q


# ================================================================================================
# extraction: tables regenerated from the source tree on every run
# ================================================================================================
def _toks(text):
    if text == "":
        return []
    if not text.startswith(" "):
        raise RuntimeError("clause text %r does not start with a blank" % text)
    ts = text[1:].split(" ")
    if any(t == "" for t in ts):
        raise RuntimeError("clause text %r has empty words" % text)
    return ts


def _template(text, sentinel):
    ts = _toks(text)
    if ts.count(sentinel) != 1:
        raise RuntimeError("sentinel %s not exactly once in %r" % (sentinel, text))
    i = ts.index(sentinel)
    return ts[:i], ts[i + 1:]


def _fill(tpl, num):
    return " " + " ".join(tpl[0] + [num] + tpl[1])


def _num_in(tpl, text):
    ts = _toks(text)
    pre, post = tpl
    if len(ts) != len(pre) + 1 + len(post) or ts[:len(pre)] != pre or (post and ts[-len(post):] != post):
        raise RuntimeError("%r does not instantiate template %r" % (text, tpl))
    return ts[len(pre)]


def _self_calls(node):
    out = []
    for n in ast.walk(node):
        if isinstance(n, ast.Call) and isinstance(n.func, ast.Attribute) and isinstance(n.func.value, ast.Name) \
                and n.func.value.id == "self" and (n.func.attr.endswith("_sql") or n.func.attr == "_apply_pagination"):
            out.append((n.lineno, n.col_offset, n.func.attr))
    return [a for _, _, a in sorted(out)]


def _tail_order(stmts, start_names, stop):
    """self._*_sql calls of the statement list from the first statement mentioning one of start_names up to `stop`"""
    names, started = [], False
    for s in stmts:
        if stop(s):
            break
        cs = _self_calls(s)
        if not started and any(c in start_names for c in cs):
            started = True
        if started:
            names += cs
    if not started:
        raise RuntimeError("none of %s found" % (start_names,))
    return names


CLAUSE = {"_where_sql": "ClWhere", "_orderby_sql": "ClOrderBy", "_apply_pagination": "ClPagination",
          "_limit_sql": "ClLimit", "_offset_sql": "ClOffset", "_for_update_sql": "ClForUpdate"}


def _clause_list(names):
    return L([CLAUSE.get(n, "(ClOther %s)" % S(n)) for n in names])


def _ast_orders():
    src = open(os.path.join(REPO, "pypika", "queries.py")).read()
    tree = ast.parse(src)

    def method(cname, mname):
        for n in tree.body:
            if isinstance(n, ast.ClassDef) and n.name == cname:
                for m in n.body:
                    if isinstance(m, ast.FunctionDef) and m.name == mname:
                        return m
        raise RuntimeError("%s.%s not found" % (cname, mname))

    def is_subquery_if(s):
        return isinstance(s, ast.If) and isinstance(s.test, ast.Name) and s.test.id == "subquery"

    def is_return(s):
        return isinstance(s, ast.Return)

    g = method("QueryBuilder", "get_sql")
    upd = [s for s in g.body if isinstance(s, ast.If) and isinstance(s.test, ast.Attribute) and s.test.attr == "_update_table"
           and any(isinstance(x, ast.Return) for x in s.body)]
    if len(upd) != 1:
        raise RuntimeError("UPDATE branch of QueryBuilder.get_sql not found")
    rest = [s for s in g.body if s is not upd[0]]
    sel = _tail_order(rest, ("_orderby_sql", "_apply_pagination", "_for_update_sql", "_limit_sql", "_offset_sql"), is_subquery_if)
    up = _tail_order(upd[0].body, ("_where_sql", "_limit_sql", "_offset_sql", "_apply_pagination", "_orderby_sql"), is_return)
    so = _tail_order(method("_SetOperation", "get_sql").body,
                     ("_orderby_sql", "_apply_pagination", "_limit_sql", "_offset_sql"), is_subquery_if)
    # pagination must not be called anywhere before the tail in the SELECT path
    allsel = []
    for s in rest:
        if is_subquery_if(s):
            break
        allsel += _self_calls(s)
    for nm in ("_apply_pagination", "_orderby_sql", "_for_update_sql"):
        if allsel.count(nm) != 1:
            raise RuntimeError("%s called %d times in the SELECT path of QueryBuilder.get_sql" % (nm, allsel.count(nm)))
    return sel, so, up


def _slots(q):
    return q._limit, q._offset


def extract():
    t = _table()
    out = ["(* generated by harness/props/C12.py:extract() from the pypika sources -- do not edit *)",
           "From PV Require Import Base Page.", ""]

    def strs(xs):
        return L([S(x) for x in xs])

    # ---- templates: call _limit_sql / _offset_sql of real builder objects on sentinel slots
    lim_rows, off_rows, tpls = [], [], {}
    for cq, py in CLASSES:
        b = _base(py, "select")
        b._limit = 7
        lt = _template(b._limit_sql(), "7")
        b._offset = 5
        ot = _template(b._offset_sql(), "5")
        b._offset = None
        o_none = _num_in(ot, b._offset_sql())
        b._offset = 0
        o_zero = _num_in(ot, b._offset_sql())
        tpls[py] = (lt, ot, o_none, o_zero)
        lim_rows.append(P(cq, P(strs(lt[0]), strs(lt[1]))))
        off_rows.append(P(cq, P(strs(ot[0]), strs(ot[1])), S(o_none), S(o_zero)))
    out.append("Definition x_limit_tpl : list (cls * (list string * list string)) :=\n " + L(lim_rows) + ".")
    out.append("Definition x_offset_tpl : list (cls * (list string * list string) * string * string) :=\n " + L(off_rows) + ".")
    # ---- grid: tail text for (n, m) in {None,0,7} x {None,0,5}, calls issued through the builder methods,
    #      in both call orders; structure = which pieces, in which order
    grid_rows, struct_rows = [], []
    vname = {None: "VAbsent", 0: "VZero", 7: "VPos", 5: "VPos"}
    for cq, py in CLASSES:
        for kq, kind in KINDS:
            q0 = _base(py, kind)
            base_text = str(q0)
            for n in (None, 0, 7):
                for m in (None, 0, 5):
                    tails = []
                    for order in ("lo", "ol"):
                        q = q0
                        for which in order:
                            if which == "l" and n is not None:
                                q = q.limit(n)
                            if which == "o" and m is not None:
                                q = q.offset(m)
                        text = str(q)
                        if not text.startswith(base_text):
                            raise RuntimeError("%s %s: paginated text does not extend the base text" % (py, kind))
                        tails.append(text[len(base_text):])
                    if tails[0] != tails[1]:
                        raise RuntimeError("%s %s n=%r m=%r: limit/offset call order changes the text: %r vs %r"
                                           % (py, kind, n, m, tails[0], tails[1]))
                    tail = tails[0]
                    grid_rows.append(P(cq, kq, OZ(n), OZ(m), S(tail)))
                    lt, ot, o_none, o_zero = tpls[py]     # a set operation paginates through a builder of its base class
                    ltxt = _fill(lt, str(n))
                    otxt = _fill(ot, str(m) if m else (o_none if m is None else o_zero))
                    cands = {"[]": "", "[PLimit]": ltxt, "[POffset]": otxt, "[PLimit; POffset]": ltxt + otxt,
                             "[POffset; PLimit]": otxt + ltxt}
                    hits = [k for k, v in cands.items() if v == tail]
                    if len(hits) != 1:
                        raise RuntimeError("%s %s n=%r m=%r: tail %r is not a unique arrangement of the limit/offset pieces (%r)"
                                           % (py, kind, n, m, tail, hits))
                    struct_rows.append(P(cq, kq, vname[n], vname[m], hits[0]))
    out.append("Definition x_grid : list (cls * kind * option Z * option Z * string) :=\n [" + ";\n  ".join(grid_rows) + "].")
    out.append("Definition x_structure : list (cls * kind * vcls * vcls * list piece) :=\n [" + ";\n  ".join(struct_rows) + "].")

    # ---- setter effects on sentinel slots (70, 50)
    eff_rows = []
    probes = [("QLimit", ["limit", 7], 7, None), ("QOffset", ["offset", 5], 5, None),
              ("QSlice", ["slice", 5, 7], 5, 7), ("QSlice", ["slice", None, 7], None, 7), ("QSlice", ["slice", 5, None], 5, None),
              ("QFetchNext", ["fetch_next", 7], 7, None), ("QTop", ["top", 3, False, False], None, None),
              ("QLimitBy", ["limit_by", 3, ["x"]], None, None), ("QLimitOffsetBy", ["limit_offset_by", 3, 2, ["x"]], None, None)]

    def classify(old, a1, a2, v):
        if v == old and type(v) is type(old):
            return "(Some EKeep)"
        if v is a1 or (v == a1 and type(v) is type(a1)):
            return "(Some EArg1)"
        if v is a2 or (v == a2 and type(v) is type(a2)):
            return "(Some EArg2)"
        raise RuntimeError("slot value %r after the call is neither the old value nor an argument" % (v,))
    for cq, py in CLASSES:
        for kq, kind in KINDS:
            for qk, op, a1, a2 in probes:
                q = _base(py, kind)
                q._limit, q._offset = 70, 50
                try:
                    q2 = _apply(q, op, kind)
                    if _slots(q) != (70, 50):
                        raise RuntimeError("%s.%s mutated the receiver" % (py, op[0]))
                    l2, o2 = _slots(q2)
                    r = "(Ok %s)" % P(classify(70, a1, a2, l2), classify(50, a1, a2, o2))
                except RuntimeError:
                    raise
                except Exception as e:  # noqa
                    r = "(Err %s)" % S(type(e).__name__)
                eff_rows.append(P(cq, kq, qk, OZ(a1), OZ(a2), r))
    out.append("Definition x_effects : list (cls * kind * ckind * option Z * option Z * res (option eff * option eff)) :=\n ["
               + ";\n  ".join(eff_rows) + "].")

    # ---- clause order of the three statement tails (ast) and, by probing, of every class
    sel, so, up = _ast_orders()
    out.append("Definition x_select_tail_order : list clause := %s." % _clause_list(sel))
    out.append("Definition x_setop_tail_order : list clause := %s." % _clause_list(so))
    out.append("Definition x_update_tail_order : list clause := %s." % _clause_list(up))
    pos_rows = []
    for cq, py in CLASSES:
        q0 = _base(py, "select")
        t0 = str(q0)
        ob = str(q0.orderby(t.a))
        fu = str(q0.for_update())
        if not (ob.startswith(t0) and fu.startswith(t0)):
            raise RuntimeError("%s: ORDER BY / FOR UPDATE do not extend the base text" % py)
        full = str(q0.for_update().limit(7).orderby(t.a).offset(5))
        if not full.startswith(t0):
            raise RuntimeError("%s: full text does not extend the base text" % py)
        pos_rows.append(P(cq, S(ob[len(t0):]), S(fu[len(t0):]), S(full[len(t0):])))
    out.append("Definition x_position : list (cls * string * string * string) :=\n [" + ";\n  ".join(pos_rows) + "].")

    # ---- ClickHouse LIMIT BY and MSSQL TOP
    from pypika.dialects import ClickHouseQuery, MSSQLQuery
    q0 = ClickHouseQuery.from_(t).select(t.a)
    t0 = str(q0)
    by_rows = []
    for n, m, cols in ((3, 0, ["a"]), (3, 2, ["a", "b"]), (0, 0, []), (4, 1, ["b"])):
        for lim, off in ((None, None), (7, None), (7, 5), (None, 5), (0, 0)):
            q = q0.limit_offset_by(n, m, *cols)
            if m == 0:
                if str(q0.limit_by(n, *cols)) != str(q):
                    raise RuntimeError("limit_by(n) differs from limit_offset_by(n, 0)")
            if lim is not None:
                q = q.limit(lim)
            if off is not None:
                q = q.offset(off)
            by_rows.append(P(Zc(n), Zc(m), L([S('"%s"' % c) for c in cols]), OZ(lim), OZ(off), S(str(q)[len(t0):])))
    out.append("Definition x_limit_by : list (Z * Z * list string * option Z * option Z * string) :=\n ["
               + ";\n  ".join(by_rows) + "].")
    top_rows = []
    for d in (False, True):
        q0 = MSSQLQuery.from_(t).select(t.a)
        rest = str(q0)[len("SELECT "):]
        if d:
            q0 = q0.distinct()
        for v, pc, ties in ((0, False, False), (5, False, False), (5, True, False), (5, False, True), (100, True, True)):
            top_rows.append(P(B(d), "(Some %s)" % P(Zc(v), B(pc), B(ties)), S(rest), S(str(q0.top(v, percent=pc, with_ties=ties)))))
        top_rows.append(P(B(d), "None", S(rest), S(str(q0))))
    out.append("Definition x_top : list (bool * option (Z * bool * bool) * string * string) :=\n [" + ";\n  ".join(top_rows) + "].")
    # ---- other @builder calls leave the pagination slots alone (incl. ClickHouse _limit_by, MSSQL _top)
    from pypika import Field

    def state(q):
        st = [repr(q._limit), repr(q._offset)]
        if "_limit_by" in q.__dict__:
            lb = q._limit_by
            st.append(None if lb is None else [repr(lb[0]), repr(lb[1]), [str(x) for x in lb[2]]])
        if "_top" in q.__dict__:
            st.append([repr(q._top), repr(q._top_percent), repr(q._top_with_ties)])
        return st
    keep_rows = []
    for cq, py in CLASSES:
        for kq, kind in KINDS:
            pool = {"select": OTHER_SELECT + ("orderby", "for_update", "distinct"), "update": OTHER_UPDATE,
                    "setop": ("orderby",)}[kind]
            for name in pool:
                q = _base(py, kind)
                q._limit, q._offset = 70, 50
                if py == "ClickHouseQuery" and kind != "setop":
                    q._limit_by = (3, 2, [Field("a")])
                if py == "MSSQLQuery" and kind != "setop":
                    q._top, q._top_percent, q._top_with_ties = 4, False, True
                before = state(q)
                q2 = _apply(q, [name], kind)
                keep_rows.append(P(cq, kq, S(name), B(state(q) == before and state(q2) == before)))
    out.append("Definition x_keep : list (cls * kind * string * bool) :=\n [" + ";\n  ".join(keep_rows) + "].")

    # ---- a set operation whose operands carry their own pagination: the tail is the set operation's own limit/offset
    so_rows = []
    for cq, py in CLASSES:
        opnds = [[["limit", 2], ["offset", 1]], [["limit", 3]]]
        if py == "ClickHouseQuery":
            opnds = [[["limit_offset_by", 3, 2, ["a"]], ["limit", 2]], [["limit_by", 1, ["b"]]]]
        if py == "MSSQLQuery":
            opnds = [[["top", 4, False, False], ["limit", 2]], [["offset", 3]]]
        for order in (opnds, [opnds[1], opnds[0]]):
            u = _base(py, "setop", "union", order)
            t0 = str(u)
            for a in _operands(py, order):
                if str(a) not in t0:
                    raise RuntimeError("%s: operand text %r is not part of the set operation %r" % (py, str(a), t0))
            full = str(u.limit(7).offset(5))
            if not full.startswith(t0):
                raise RuntimeError("%s: paginated set operation does not extend the plain one" % py)
            so_rows.append(P(cq, S(full[len(t0):])))
    out.append("Definition x_setop_operands : list (cls * string) :=\n [" + ";\n  ".join(so_rows) + "].")
    # ---- every class-method factory of Query that starts a statement yields a builder of the CLASS'S dialect and
    #      paginates like it (Round 6): classmethods enumerated from the source, fail closed on an unknown one
    src = open(os.path.join(REPO, "pypika", "queries.py")).read()
    qcls = [n for n in ast.parse(src).body if isinstance(n, ast.ClassDef) and n.name == "Query"]
    if len(qcls) != 1:
        raise RuntimeError("class Query not found in queries.py")
    facts = [m.name for m in qcls[0].body if isinstance(m, ast.FunctionDef)
             and any((isinstance(d, ast.Name) and d.id == "classmethod") for d in m.decorator_list)]
    unknown = [f for f in facts if f not in KNOWN_FACTORIES]
    missing = [f for f in KNOWN_FACTORIES if f not in facts]
    if unknown or missing:
        raise RuntimeError("class-method factories of Query changed: unknown %r, missing %r "
                           "(extend SELECT_ROUTES/UPDATE_ROUTES in harness/props/C12.py)" % (unknown, missing))
    route_names = sorted(f for f, kd in KNOWN_FACTORIES.items() if kd == "route")
    if sorted(set(SELECT_ROUTES) | set(UPDATE_ROUTES)) != route_names:
        raise RuntimeError("route lists do not cover the statement-starting factories %r" % route_names)
    route_rows = []
    for cq, py in CLASSES:
        want = type(_cls(py)._builder()).__name__
        for kq, kind in KINDS:
            for route in _routes(kind):
                q0 = _base(py, kind, "union", None, route)
                bq = q0.base_query if kind == "setop" else q0
                t0 = str(q0)
                full = str(q0.limit(7).offset(5))
                if not full.startswith(t0):
                    raise RuntimeError("%s.%s: paginated text does not extend the plain one" % (py, route))
                route_rows.append(P(cq, kq, S(route), B(type(bq).__name__ == want), S(full[len(t0):])))
    out.append("Definition x_routes : list (cls * kind * string * bool * string) :=\n [" + ";\n  ".join(route_rows) + "].")
    return {"gen/C12Table.v": "\n".join(out) + "\n"}


# ================================================================================================
# cases
# ================================================================================================
def _supported(clsname, kind, op):
    k = op[0]
    if k in ("limit", "offset"):
        return True
    if kind == "setop":
        return k == "orderby"
    if k == "slice":
        return True
    if k == "fetch_next":
        return clsname in FETCH
    if k == "top":
        return clsname == "MSSQLQuery"
    if k in ("limit_by", "limit_offset_by"):
        return clsname == "ClickHouseQuery"
    return True


VALUES = [0, 0, 1, 2, 7, 10, 99, 10 ** 12]


def _val(rng):
    r = rng.random()
    if r < 0.7:
        return rng.choice(VALUES)
    if r < 0.95:
        return rng.randrange(1, 10 ** 6)
    return rng.randrange(10 ** 12, 10 ** 30)


def _page_op(rng, clsname, kind, malformed=False):
    kinds = ["limit", "limit", "offset", "offset"]
    if kind != "setop":
        kinds += ["slice", "slice"]
        if clsname in FETCH:
            kinds += ["fetch_next"]
        if clsname == "MSSQLQuery":
            kinds += ["top", "top"]
        if clsname == "ClickHouseQuery":
            kinds += ["limit_by", "limit_offset_by"]
    if malformed and rng.random() < 0.4:
        kinds = ["slice", "fetch_next", "top", "limit_by", "limit_offset_by"]   # possibly not supported by the class
    k = rng.choice(kinds)

    def v():
        if malformed:
            r = rng.random()
            if r < 0.35:
                return -rng.randrange(1, 50)
            if r < 0.5:
                return str(rng.randrange(0, 20))
            if r < 0.6:
                return rng.randrange(0, 40) / 4.0
            if r < 0.7:
                return None
        return _val(rng)
    cols = lambda: [rng.choice("abc") for _ in range(rng.choice([0, 1, 1, 2]))]  # noqa
    if k in ("limit", "offset", "fetch_next"):
        return [k, v()]
    if k == "slice":
        a = None if rng.random() < 0.25 else v()
        b = None if rng.random() < 0.25 else v()
        return [k, a, b]
    if k == "top":
        pc = rng.random() < 0.25
        val = rng.choice([0, 1, 5, 50, 100]) if pc and not malformed else (rng.choice([0, 1, 5, 100, 101, 250, -2]) if malformed else _val(rng))
        return [k, val, pc, rng.random() < 0.25]
    if k == "limit_by":
        return [k, v() if malformed else _val(rng), cols()]
    return [k, _val(rng), rng.choice([0, 0, 1, 2, 7]) if not malformed else rng.choice([0, -1, 3]), cols()]


def _random_case(rng, malformed=False):
    clsname = rng.choice(CLASSES)[1]
    kind = rng.choice(["select"] * 6 + ["setop"] * 3 + ["update"] * 2)
    ops = [_page_op(rng, clsname, kind, malformed and rng.random() < 0.6) for _ in range(rng.choice([0, 1, 1, 2, 2, 3, 3, 4, 6]))]
    if kind != "update":
        extra = []
        if rng.random() < 0.6:
            extra.append(["orderby"])
        if kind == "select" and rng.random() < 0.4:
            extra.append(["for_update"])
        if kind == "select" and rng.random() < 0.25:
            extra.append(["distinct"])
        if rng.random() < 0.1:
            extra.append(["orderby"])
        for e in extra:
            ops.insert(rng.randrange(len(ops) + 1), e)
    _sprinkle_other(rng, ops, kind, 0.45)
    c = {"cls": clsname, "kind": kind, "ops": ops}
    _pick_route(rng, c, 0.5)
    if kind == "setop":
        c["setop"] = rng.choice(SETOPS)
        if rng.random() < 0.5:
            c["operands"] = _operand_ops(rng, clsname)
    return c


def _routes(kind):
    return {"select": SELECT_ROUTES, "update": UPDATE_ROUTES, "setop": OPERAND_ROUTES}[kind]


def _pick_route(rng, case, p):
    if rng.random() < p:
        case["route"] = rng.choice(_routes(case["kind"]))


def _route_product(rng, full):
    """every query class x statement kind x EVERY class-method factory that can start the statement x a few windows"""
    out = []
    for _, py in CLASSES:
        for kind in ("select", "setop", "update"):
            for route in _routes(kind):
                states = [[["limit", 7], ["offset", 5]], [["limit", 0]], [["offset", 3], ["limit", 4]]]
                if kind != "setop":
                    states.append([["slice", 2, 9]])
                    if py == "MSSQLQuery" and kind == "select":
                        states.append([["top", 0, False, False]])
                    if py == "ClickHouseQuery" and kind == "select":
                        states.append([["limit_offset_by", 3, 2, ["a"]], ["limit", 7]])
                    if py in FETCH:
                        states.append([["fetch_next", 4]])
                if not full:
                    states = [states[0], rng.choice(states[1:])]
                for st in states:
                    ops = [list(o) for o in st]
                    if kind != "update" and rng.random() < 0.5:
                        ops.insert(rng.randrange(len(ops) + 1), ["orderby"])
                    c = {"cls": py, "kind": kind, "route": route, "ops": ops}
                    if kind == "setop":
                        c["setop"] = rng.choice(SETOPS)
                    out.append(c)
    return out


def _sprinkle_other(rng, ops, kind, p):
    """other @builder calls at random positions (mostly AFTER the pagination calls: the window must survive them)"""
    pool = OTHER_SELECT if kind == "select" else (OTHER_UPDATE if kind == "update" else ())
    if not pool or rng.random() >= p:
        return
    for _ in range(rng.choice([1, 1, 2, 3])):
        pos = len(ops) if rng.random() < 0.6 else rng.randrange(len(ops) + 1)
        ops.insert(pos, [rng.choice(pool)])


def _operand_ops(rng, clsname):
    """pagination calls made on the OPERANDS of a set operation before it is formed"""
    def one():
        return [_page_op(rng, clsname, "select") for _ in range(rng.choice([0, 1, 1, 2, 3]))]
    return [one(), one()]


def _grid_ops(n, m, order, kind):
    if order == "slice" and kind != "setop" and (n is not None or m is not None):
        return [["slice", m, n]]
    ops = []
    for w in ("lo" if order != "ol" else "ol"):
        if w == "l" and n is not None:
            ops.append(["limit", n])
        if w == "o" and m is not None:
            ops.append(["offset", m])
    return ops


def _grid(rng, full):
    out = []
    for _, py in CLASSES:
        for _, kind in KINDS:
            for n in (None, 0, 7):
                for m in (None, 0, 5):
                    orders = ("lo", "ol", "slice") if full else (rng.choice(["lo", "ol", "slice"]),)
                    for order in orders:
                        for deco in ((False, True) if full else (rng.random() < 0.5,)):
                            nn = n if n != 7 else rng.choice([1, 2, 7, 10, 99, 10 ** 12, rng.randrange(1, 10 ** 6)])
                            mm = m if m != 5 else rng.choice([1, 2, 5, 10, 99, 10 ** 12, rng.randrange(1, 10 ** 6)])
                            ops = _grid_ops(nn, mm, order, kind)
                            if deco and kind != "update":
                                ops.insert(rng.randrange(len(ops) + 1), ["orderby"])
                                if kind == "select":
                                    ops.insert(rng.randrange(len(ops) + 1), ["for_update"])
                            _sprinkle_other(rng, ops, kind, 0.3)
                            c = {"cls": py, "kind": kind, "ops": ops}
                            _pick_route(rng, c, 0.5)
                            if kind == "setop":
                                c["setop"] = rng.choice(SETOPS)
                                if rng.random() < 0.4:
                                    c["operands"] = _operand_ops(rng, py)
                            out.append(c)
    return out


def _survival_product(rng, full):
    """product (pagination state incl. ClickHouse LIMIT n OFFSET m BY, MSSQL TOP) x (one later @builder call);
    and set operations whose operands carry their own limit/offset/limit_by/top"""
    out = []
    for _, py in CLASSES:
        states = [[["limit", 7], ["offset", 5]], [["limit", 0]], [["slice", 3, 9]]]
        if py in FETCH:
            states.append([["fetch_next", 4], ["offset", 2]])
        if py == "MSSQLQuery":
            states += [[["top", 0, False, False]], [["top", 5, True, True], ["limit", 3]]]
        if py == "ClickHouseQuery":
            states += [[["limit_offset_by", 3, 2, ["a"]]], [["limit_by", 4, ["a", "b"]], ["limit", 7]],
                       [["limit_offset_by", 1, 1, ["b"]], ["limit", 7], ["offset", 5]]]
        if not full:
            states = [rng.choice(states[:3])] + states[3:]
        for st in states:
            for kind, pool in (("select", OTHER_SELECT + ("orderby", "for_update", "distinct")), ("update", OTHER_UPDATE)):
                if kind == "update" and any(o[0] in ("limit_by", "limit_offset_by") for o in st) and not full:
                    continue
                for later in (pool if full or py in ("ClickHouseQuery", "MSSQLQuery") else [rng.choice(pool)]):
                    out.append({"cls": py, "kind": kind, "ops": [list(o) for o in st] + [[later]]})
        # operands with their own pagination
        opnds = [[["limit", 2], ["offset", 1]], [["limit", 3]]]
        if py == "ClickHouseQuery":
            opnds = [[["limit_offset_by", 3, 2, ["a"]], ["limit", 2]], [["limit_by", 1, ["b"]]]]
        if py == "MSSQLQuery":
            opnds = [[["top", 4, False, False], ["limit", 2]], [["offset", 3]]]
        for own in ([], [["limit", 7]], [["orderby"], ["limit", 7], ["offset", 5]], [["offset", 5]]):
            out.append({"cls": py, "kind": "setop", "setop": rng.choice(SETOPS), "operands": opnds, "ops": own})
            out.append({"cls": py, "kind": "setop", "setop": "union", "operands": [opnds[1], opnds[0]], "ops": own})
    return out


def gen_cases(rng, tier):
    out = _grid(rng, tier != "quick") + _survival_product(rng, tier != "quick") + _route_product(rng, tier != "quick")
    n_rand, n_bad = (420, 60) if tier == "quick" else (9000, 1200)
    out += [_random_case(rng) for _ in range(n_rand)]
    out += [_random_case(rng, malformed=True) for _ in range(n_bad)]
    return out


def _corpus_files():
    """witnesses kept under corpus/C12/*.json (one per open finding, plus minimised failures added later)"""
    import glob
    from harness.lib import VERIF
    out = []
    for p in sorted(glob.glob(os.path.join(VERIF, "corpus", "C12", "*.json"))):
        for w in json.load(open(p)):
            out.append({k: v for k, v in w.items() if not k.startswith("_")})
    return out


def corpus():
    def c(cls, kind, ops, **kw):
        d = {"cls": cls, "kind": kind, "ops": ops}
        if kind == "setop":
            d["setop"] = kw.get("setop", "union")
        return d
    return [
        # known finding: bare OFFSET in the LIMIT family (SQLite rejects it)
        c("SQLLiteQuery", "select", [["orderby"], ["offset", 5]]),
        c("Query", "select", [["slice", 5, None]]),
        c("MySQLQuery", "setop", [["offset", 3], ["orderby"]]),
        # fixed in the repository (8f3d161): set operations of FETCH-family classes paginate in their dialect's syntax
        c("OracleQuery", "setop", [["orderby"], ["limit", 7], ["offset", 5]]),
        c("MSSQLQuery", "setop", [["limit", 0]], setop="union_all"),
        # known finding: MSSQL UPDATE .. FETCH NEXT without the OFFSET the dialect requires
        c("MSSQLQuery", "update", [["limit", 2]]),
        # fixed in the repository: top(0) is rendered
        c("MSSQLQuery", "select", [["top", 0, False, False]]),
        c("MSSQLQuery", "select", [["distinct"], ["top", 5, True, True], ["orderby"], ["limit", 3]]),
        # boundary values
        c("MSSQLQuery", "select", [["orderby"], ["limit", 0], ["for_update"]]),
        c("MSSQLQuery", "select", [["limit", 7], ["offset", 0]]),
        c("OracleQuery", "select", [["offset", 0], ["orderby"], ["limit", 0]]),
        c("OracleQuery", "select", [["fetch_next", 4], ["offset", 9], ["for_update"], ["orderby"]]),
        c("SQLLiteQuery", "select", [["orderby"], ["limit", 0], ["offset", 3]]),
        c("SQLLiteQuery", "select", [["limit", 3], ["offset", 9], ["limit", 4], ["slice", 2, 6], ["orderby"], ["offset", 38]]),
        c("SQLLiteQuery", "update", [["limit", 3]]),
        c("ClickHouseQuery", "select", [["limit", 7], ["limit_offset_by", 3, 2, ["a", "b"]], ["offset", 5], ["orderby"]]),
        c("ClickHouseQuery", "select", [["limit_by", 3, ["a"]], ["limit_by", 9, []]]),
        c("PostgreSQLQuery", "select", [["slice", None, 10 ** 12], ["for_update"], ["orderby"]]),
        c("SnowflakeQuery", "update", [["limit", 5], ["offset", 2]]),
        # outside the model's types / the class's methods
        c("Query", "select", [["top", 3, False, False]]),
        c("MSSQLQuery", "select", [["top", 150, True, False]]),
        c("Query", "setop", [["slice", 1, 2]]),
        c("VerticaQuery", "select", [["limit", -3], ["offset", -2]]),
    ] + _corpus_files()


# ================================================================================================
# implementation
# ================================================================================================
def run_impl(case):
    kind = case["kind"]
    try:
        q0 = _build(case, lambda k: k in BASE_OPS)
        text0 = str(q0)
        ob = str(_build(case, lambda k: k in BASE_OPS or k == "orderby"))
        fu = str(_build(case, lambda k: k in BASE_OPS or k == "for_update"))
        unpaged = str(_build(case, lambda k: k not in PAGE_OPS and k != "for_update"))
    except Exception as e:  # noqa
        return {"harness_exc": "cannot render the un-paginated statement: %s: %s" % (type(e).__name__, e)}
    if not (ob.startswith(text0) and fu.startswith(text0)):
        # something is rendered after the place where ORDER BY / FOR UPDATE belong although no pagination was requested
        return {"shape_error": "without any limit/offset call the statement renders %r, with ORDER BY %r, with FOR UPDATE %r: "
                               "the latter do not extend the former" % (text0, ob, fu)}
    out = {"ob": ob[len(text0):], "fu": fu[len(text0):], "unpaged": unpaged, "plain": text0}
    if kind == "select":
        # what precedes the statement's own SELECT (WITH w AS (...) / INSERT INTO "u") is opaque and taken off
        pre = text0[:text0.rindex("SELECT ")] if "SELECT " in text0 else ""
        out["pre"] = pre
        prefix = "SELECT DISTINCT " if any(o[0] == "distinct" for o in case["ops"]) else "SELECT "
        if not text0[len(pre):].startswith(prefix):
            return {"harness_exc": "statement does not start with %r" % prefix}
        out["rest"] = text0[len(pre) + len(prefix):]
    else:
        out["rest"] = text0
    if kind == "setop" and case.get("operands"):
        try:
            out["operand_texts"] = [str(q) for q in _operands(case["cls"], case["operands"], case.get("route"))]
        except Exception as e:  # noqa
            return {"harness_exc": "cannot render the operands: %s: %s" % (type(e).__name__, e)}
    try:
        out["text"] = str(_build(case, lambda k: True))
    except Exception as e:  # noqa
        out["exc"] = type(e).__name__
    return out


# ================================================================================================
# model side
# ================================================================================================
def _is_int(v):
    return isinstance(v, int) and not isinstance(v, bool)


def _modelled(case):
    for op in case["ops"]:
        k = op[0]
        if k in ("limit", "offset", "fetch_next"):
            if not (op[1] is None or _is_int(op[1])):
                return False
        elif k == "slice":
            if not all(v is None or _is_int(v) for v in op[1:3]):
                return False
        elif k == "top":
            if not _is_int(op[1]):
                return False
        elif k == "limit_by":
            if not _is_int(op[1]):
                return False
        elif k == "limit_offset_by":
            if not (_is_int(op[1]) and _is_int(op[2])):
                return False
    return True


def _call_coq(op):
    k = op[0]
    cols = lambda cs: L([S('"%s"' % c) for c in cs])  # noqa
    if k == "limit":
        return "(CLimit %s)" % OZ(op[1])
    if k == "offset":
        return "(COffset %s)" % OZ(op[1])
    if k == "slice":
        return "(CSlice %s %s)" % (OZ(op[1]), OZ(op[2]))
    if k == "fetch_next":
        return "(CFetchNext %s)" % OZ(op[1])
    if k == "top":
        return "(CTop %s %s %s)" % (Zc(op[1]), B(op[2]), B(op[3]))
    if k == "limit_by":
        return "(CLimitBy %s %s)" % (Zc(op[1]), cols(op[2]))
    if k == "limit_offset_by":
        return "(CLimitOffsetBy %s %s %s)" % (Zc(op[1]), Zc(op[2]), cols(op[3]))
    return "COther"


def to_coq(case, outcome):
    if "harness_exc" in outcome or "shape_error" in outcome:
        raise RuntimeError(outcome.get("harness_exc") or outcome["shape_error"])
    if not _modelled(case):
        return None
    calls = [c for c in (_call_coq(op) for op in case["ops"]) if c is not None]
    expect = outcome["text"] if "text" in outcome else "!" + outcome["exc"]
    pre = outcome.get("pre", "")
    if pre and expect.startswith(pre):
        expect = expect[len(pre):]      # (if the text does not start with it, it stays and the comparison fails)
    distinct = any(o[0] == "distinct" for o in case["ops"])
    return P(COQ_CLS[case["cls"]], COQ_KIND[case["kind"]], B(distinct), L(calls),
             P(S(outcome["rest"]), S(outcome["ob"]), S(outcome["fu"])), S(expect))


# ================================================================================================
# oracle: the property's observable on the implementation, independent of the model
# ================================================================================================
def _requested(case):
    """(n, m, top, limit_by) asked for by the calls (last call of a kind wins; q[a:b] = offset(a).limit(b));
    None when some argument is outside the property's quantifier or a call is not available on the class"""
    n = m = top = lby = None
    for op in case["ops"]:
        k = op[0]
        if k not in PAGE_OPS:
            continue
        if not _supported(case["cls"], case["kind"], op):
            return None
        if k in ("limit", "fetch_next"):
            n = op[1]
        elif k == "offset":
            m = op[1]
        elif k == "slice":
            m, n = op[1], op[2]
        elif k == "top":
            if not _is_int(op[1]) or op[1] < 0 or (op[2] and op[1] > 100):
                return None
            top = (op[1], bool(op[2]), bool(op[3]))
        elif k == "limit_by":
            lby = (op[1], 0, list(op[2]))
        elif k == "limit_offset_by":
            lby = (op[1], op[2], list(op[3]))
    for v in (n, m):
        if v is not None and (not _is_int(v) or v < 0):
            return None
    if lby is not None and not (_is_int(lby[0]) and _is_int(lby[1]) and lby[0] >= 0 and lby[1] >= 0):
        return None
    return n, m, top, lby


_LIMIT = r"(?: LIMIT (\d+)(?: OFFSET (\d+))?)?"
RE_LIMIT = re.compile(r"^" + _LIMIT + r"$")
RE_FETCH = re.compile(r"^(?: OFFSET (\d+) ROWS)?(?: FETCH NEXT (\d+) ROWS ONLY)?$")
RE_CH = re.compile(r"^(?: LIMIT (\d+)(?: OFFSET (\d+))? BY \(([^()]*)\))?" + _LIMIT + r"$")
RE_TOP = re.compile(r"^SELECT (DISTINCT )?TOP \((\d+)\) (PERCENT )?(WITH TIES )?")


def _read_tail(clsname, tail):
    """-> (offset, limit or None, limit_by or None) denoted by the tail under the class's documented grammar, or None"""
    def num(s):
        return None if s is None else int(s)
    if clsname in FETCH:
        mo = RE_FETCH.match(tail)
        if not mo:
            return None
        off, lim = num(mo.group(1)), num(mo.group(2))
        if clsname == "MSSQLQuery" and lim is not None and off is None:
            return None           # MSSQL: a FETCH needs an OFFSET
        return (off or 0, lim, None)
    if clsname == "ClickHouseQuery":
        mo = RE_CH.match(tail)
        if not mo:
            return None
        by = None if mo.group(1) is None else (int(mo.group(1)), num(mo.group(2)) or 0, mo.group(3))
        return (num(mo.group(5)) or 0, num(mo.group(4)), by)
    mo = RE_LIMIT.match(tail)
    if not mo:
        return None
    return (num(mo.group(2)) or 0, num(mo.group(1)), None)


def _vclass(v):
    return "absent" if v is None else ("zero" if v == 0 else "positive")


_SQLITE = None
N_ROWS = 40


def _sqlite():
    global _SQLITE
    import sqlite3
    if _SQLITE is None:
        con = sqlite3.connect(":memory:")
        con.execute('create table "t" ("a" integer, "b" integer, "c" integer)')
        # rows inserted in a scrambled order so that ORDER BY matters; "a" has duplicates so DISTINCT matters
        vals = [((i * 17) % N_ROWS, i) for i in range(N_ROWS)] + [(3, 100), (3, 101), (11, 102)]
        con.executemany('insert into "t" ("a", "b") values (?, ?)', vals)
        con.commit()
        _SQLITE = con
    return _SQLITE


def oracle(case, outcome):
    if "harness_exc" in outcome:
        return [{"signature": ["C12", case["cls"], case["kind"], "-", "-", "harness"], "what": outcome["harness_exc"]}]
    req = _requested(case)
    if req is None:
        return []                       # outside the quantifier (negative / non-int arguments, method not on the class)
    n, m, top, lby = req
    cls, kind = case["cls"], case["kind"]

    def viol(what, msg):
        return [{"signature": ["C12", cls, kind, _vclass(n), _vclass(m), what],
                 "what": "%s %s%s, calls %s: %s" % (cls, kind, " started with %s.%s" % (cls, case["route"]) if case.get("route") else "",
                                                    json.dumps(case["ops"]), msg)}]
    if "shape_error" in outcome:
        return viol("position", outcome["shape_error"])
    if "exc" in outcome:
        return viol("exception", "building/rendering raised %s" % outcome["exc"])
    text, unpaged, fu = outcome["text"], outcome["unpaged"], outcome["fu"]
    pre = outcome.get("pre", "")
    if pre:
        if not (text.startswith(pre) and unpaged.startswith(pre)):
            return viol("position", "statement %r does not start with %r like its un-paginated form" % (text, pre))
        text, unpaged = text[len(pre):], unpaged[len(pre):]
    # --- TOP (MSSQL SELECT): read it from the head, then take it out
    if kind == "select":
        mo = RE_TOP.match(text)
        got = None if not mo else (int(mo.group(2)), bool(mo.group(3)), bool(mo.group(4)))
        if got != top:
            return viol("top", "top%r requested, statement head reads %r: %r" % (top, got, text))
        if mo:
            text = "SELECT " + (mo.group(1) or "") + text[mo.end():]
    # --- position: after everything up to ORDER BY, before FOR UPDATE
    if not (text.startswith(unpaged) and text.endswith(fu) and len(text) >= len(unpaged) + len(fu)):
        return viol("position", "statement %r is not <%r><pagination><%r>" % (text, unpaged, fu))
    tail = text[len(unpaged):len(text) - len(fu)]
    # --- operands of a set operation keep their own pagination (their standalone text occurs in the statement)
    ots = outcome.get("operand_texts", [])
    for i, ot in enumerate(ots):
        if ot not in text:
            return viol("operand", "operand %d renders %r on its own but that text is not part of %r" % (i, ot, text))
    if ots and not outcome["plain"].endswith((ots[-1], ots[-1] + ")")):
        return viol("operand", "the set operation without ORDER BY/limit/offset renders %r: something follows its last operand %r"
                    % (outcome["plain"], ots[-1]))
    den = _read_tail(cls, tail)
    if den is None:
        return viol("grammar", "pagination tail %r is not in the %s grammar" %
                    (tail, "OFFSET m ROWS / FETCH NEXT n ROWS ONLY" if cls in FETCH else "LIMIT n [OFFSET m]"))
    off, lim, by = den
    if lim != n or (kind != "update" and off != (m or 0)) or (kind == "update" and m is None and off != 0):
        return viol("window", "requested offset=%r limit=%r, tail %r denotes offset=%r limit=%r" % (m, n, tail, off, lim))
    want_by = None
    if lby is not None and kind == "select":
        want_by = (lby[0], lby[1], ",".join('"%s"' % c for c in lby[2]))
    if by != want_by:
        return viol("limit-by", "requested LIMIT BY %r, tail %r denotes %r" % (want_by, tail, by))
    # --- SQLite: the rendered window really returns rows m .. m+n-1 of the ordered result
    if cls == "SQLLiteQuery" and all(v is None or v < 2 ** 63 for v in (n, m)):     # sqlite3 integers are 64-bit
        has_ob = any(o[0] == "orderby" for o in case["ops"])
        has_fu = any(o[0] == "for_update" for o in case["ops"]) or any(o[0] == "replace_other" for o in case["ops"])
        con = _sqlite()
        if kind == "select" and has_ob and not has_fu:
            try:
                rows = con.execute(unpaged).fetchall()
                got_rows = con.execute(text).fetchall()
            except Exception as e:  # noqa
                return viol("sqlite-error", "sqlite3 rejects %r: %s" % (text, e))
            a = m or 0
            want = rows[a:] if n is None else rows[a:a + n]
            if got_rows != want:
                return viol("sqlite-rows", "%r returns %d rows starting %r; rows[%d:%s] of the ordered result has %d starting %r"
                            % (text, len(got_rows), got_rows[:2], a, "" if n is None else a + n, len(want), want[:2]))
        if kind == "update" and n is not None and not has_fu and not any(o[0] == "where" for o in case["ops"]) \
                and case.get("route") != "with_":
            try:
                total = con.execute('select count(*) from "t"').fetchone()[0]
                cur = con.execute(text)
                changed = cur.rowcount
                con.rollback()
            except Exception as e:  # noqa
                con.rollback()
                return viol("sqlite-error", "sqlite3 rejects %r: %s" % (text, e))
            if changed != min(n, total):
                return viol("sqlite-rows", "%r changed %d rows, limit %d of %d rows" % (text, changed, n, total))
    return []


def nontrivial_key(case):
    req = _requested(case)
    if req is None:
        return None
    if not any(o[0] in PAGE_OPS for o in case["ops"]):
        return None
    return json.dumps([case["cls"], case["kind"], case.get("route"), case["ops"]], sort_keys=True)


def histogram(cases):
    h = {}

    def bump(k):
        h[k] = h.get(k, 0) + 1
    for c in cases:
        bump("cls=" + c["cls"])
        bump("kind=" + c["kind"])
        bump("route=%s" % c.get("route", "default"))
        bump("calls=%d" % sum(1 for o in c["ops"] if o[0] in PAGE_OPS))
        for o in c["ops"]:
            bump("op=" + o[0])
        req = _requested(c)
        if req is None:
            bump("outside-quantifier")
        else:
            bump("n=%s,m=%s" % (_vclass(req[0]), _vclass(req[1])))
    return h


def targeted_search(rng, broken, mism_cases):
    out = []
    for c in mism_cases:                       # shrink-ish: every single call of a disagreeing case, and every pair
        ops = c["ops"]
        for i in range(len(ops)):
            d = dict(c)
            d["ops"] = [ops[i]]
            out.append(d)
            for j in range(i + 1, len(ops)):
                d = dict(c)
                d["ops"] = [ops[i], ops[j]]
                out.append(d)
    out += _grid(rng, True) + _survival_product(rng, True) + _route_product(rng, True)
    for _, py in CLASSES:                      # call sequences with repeated calls / slices
        for kind in ("select", "setop", "update"):
            for ops in ([["limit", 7], ["offset", 5], ["limit", 3]], [["offset", 5], ["limit", 7], ["offset", 2]],
                        [["limit", 9], ["offset", 4]], [["offset", 4], ["limit", 9]]):
                for deco in (False, True):
                    o2 = list(ops) + ([["orderby"]] if deco and kind != "update" else []) + \
                         ([["for_update"]] if deco and kind == "select" else [])
                    c = {"cls": py, "kind": kind, "ops": o2}
                    if kind == "setop":
                        c["setop"] = "union"
                    out.append(c)
            if kind != "setop":
                for a, b in ((5, 7), (2, 12), (None, 4), (6, None), (0, 3)):
                    out.append({"cls": py, "kind": kind, "ops": [["orderby"]] * (kind == "select") + [["slice", a, b]]})
    for n, m in ((3, 0), (3, 2), (0, 0)):
        for lim, off in ((None, None), (7, None), (7, 5)):
            ops = [["orderby"], ["limit_offset_by", n, m, ["a"]]]
            if lim is not None:
                ops.append(["limit", lim])
            if off is not None:
                ops.append(["offset", off])
            out.append({"cls": "ClickHouseQuery", "kind": "select", "ops": ops})
            out.append({"cls": "ClickHouseQuery", "kind": "select", "ops": list(reversed(ops))})
    for v in (0, 1, 5):
        for pc, ties in ((False, False), (True, False), (False, True), (True, True)):
            out.append({"cls": "MSSQLQuery", "kind": "select", "ops": [["top", v, pc, ties], ["orderby"]]})
            out.append({"cls": "MSSQLQuery", "kind": "select", "ops": [["distinct"], ["limit", 2], ["top", v, pc, ties]]})
    out += [_random_case(rng) for _ in range(1500)]
    return out
