"""C05, second generation of cases (added after an independent red team's mutants were missed):
* `summarize`  — the positional summary of ANY legal call list (Python twin of Dml.v section 4), independent of pypika;
* `triples`    — every (outer operator, side, inner operator) arithmetic triple over + - * / as SET value, WHERE operand,
                 INSERT value and DELETE criterion on a table of non-commuting primes;
* forks        — a kept prefix from which several statements are derived (every list-valued builder slot is forked);
* correlated   — UPDATE / DELETE whose WHERE holds a correlated sub-query built by several where() calls."""
import json
import sqlite3

from harness import terms_family as tf
from harness import queries_family as qf
from harness.lib import S
from harness.query_extract import qclass
from harness.c05 import engine as en
from harness.c05.gen import G, F, I, JUDGED

OPS = ["add", "sub", "mul", "div"]


# ---------------------------------------------------------------------------------------------
# positional summary of a call list (what the user asked for), written without pypika
# ---------------------------------------------------------------------------------------------
def summarize(start, calls):
    kind, table = start
    if kind == "builder":
        intos = [c for c in calls if c[0] == "into"]
        if len(intos) != 1:
            return None
        kind, table = "into", intos[0][1]
    cols, rows, sets, wheres, froms, sels = [], [], [], [], [], []
    limit = None
    flags = [False, False]
    for c in calls:
        k = c[0]
        if k == "retarget":
            if table == c[1]:
                table = c[2]
            froms = [c[2] if f == c[1] else f for f in froms]
            continue
        if k == "columns":
            items = c[1]
            if items and items[0][0] == "seq":
                cols += [x[1] for x in items[0][2]]
            else:
                cols += [x[1] for x in items]
        elif k in ("insert", "replace", "ior"):
            args = c[1]
            if args:
                if args[0][0] == "v":
                    rows.append([a[1] for a in args])
                else:
                    rows += [list(a[2]) for a in args]
            if k == "insert":
                flags[0] = False
            elif k == "replace":
                flags[0] = True
            else:
                flags = [True, True]
        elif k == "set":
            sets.append([c[1][1], c[2]])
        elif k == "fromselect":
            froms.append(c[1])
            sels += c[2]
        elif k == "from":
            froms.append(c[1])
        elif k == "select":
            sels += c[1]
        elif k == "where":
            wheres.append(c[1])
        elif k == "limit":
            limit = c[1]
    w = None
    for x in wheres:
        w = x if w is None else ["cplx", "and", w, x, None]
    mode = "insert" if not flags[0] else ("ior" if flags[1] else "replace")
    if kind == "into":
        if rows:
            return {"kind": "insert", "table": table, "cols": cols, "rows": rows, "mode": mode}
        if sels:
            spec = {"kind": "insert-select", "table": table, "cols": cols, "from": froms, "sels": sels, "where": w, "mode": mode}
            if limit is not None:
                spec["limit"] = limit
            return spec
        return None
    if kind == "update":
        if not sets:
            return None
        spec = {"kind": "update", "table": table, "sets": sets, "where": w}
    else:
        spec = {"kind": "delete", "table": table, "where": w}
    if limit is not None:
        spec["limit"] = limit
    return spec


# ---------------------------------------------------------------------------------------------
# arithmetic triples
# ---------------------------------------------------------------------------------------------
def triple_trees(leaves):
    """all (outer, side, inner) trees over three leaves; x*(y/z) is left out: it is rendered x*y/z, an identity C02's
    statement allows and integer division does not honour"""
    a, b, c = leaves
    out = []
    for o in OPS:
        for i in OPS:
            out.append(("%s-L-%s" % (o, i), ["arith", o, ["arith", i, a, b, None], c, None]))
            if not (o == "mul" and i == "div"):
                out.append(("%s-R-%s" % (o, i), ["arith", o, a, ["arith", i, b, c, None], None]))
    return out


def _value_on_row(tree, rowid):
    c = en.fresh_db(0)
    try:
        params = []
        sql = "SELECT %s FROM n WHERE id = %d" % (en.explicit(tree, params), rowid)
        return c.execute(sql, params).fetchone()[0]
    finally:
        c.close()


def triples():
    out = []
    fields = [F("p"), F("q"), F("r")]
    consts = [I(7), I(3), I(2)]
    for name, tree in triple_trees(fields):
        for cls in ("SQLLiteQuery",):
            out.append({"kind": "b", "cls": cls, "start": ["update", "n"], "db": 0, "tag": "triple:set:" + name,
                        "calls": [["set", ["s", "w"], ["t", tree]]],
                        "spec": {"kind": "update", "table": "n", "sets": [["w", ["t", tree]]], "where": None}})
            v = _value_on_row(tree, 3)
            if v is None:
                continue
            crit = ["basic", "eq", tree, (I(v) if isinstance(v, int) else ["valf", repr(float(v)), None]), None]
            out.append({"kind": "b", "cls": cls, "start": ["update", "n"], "db": 0, "tag": "triple:where:" + name,
                        "calls": [["set", ["s", "w"], ["i", 99]], ["where", crit]],
                        "spec": {"kind": "update", "table": "n", "sets": [["w", ["i", 99]]], "where": crit}})
            out.append({"kind": "b", "cls": cls, "start": ["delete", "n"], "db": 0, "tag": "triple:delete:" + name,
                        "calls": [["where", crit]], "spec": {"kind": "delete", "table": "n", "where": crit}})
    # unary minus and negative literals in every operator position (the shapes repaired by 33fa91c / fbde87c)
    p_, q_ = fields[0], fields[1]
    negs = [("neg-neg", ["neg", ["neg", p_]]), ("neg-lit", ["neg", I(-3)])]
    for o in OPS:
        negs += [("neg-over-%s" % o, ["neg", ["arith", o, p_, q_, None]]),
                 ("%s-R-neg" % o, ["arith", o, p_, ["neg", q_], None]),
                 ("%s-L-neg" % o, ["arith", o, ["neg", p_], q_, None]),
                 ("%s-R-neglit" % o, ["arith", o, p_, I(-3), None]),
                 ("%s-R-negtree" % o, ["arith", o, p_, ["arith", "mul", I(-3), q_, None], None])]
    for name, tree in negs:
        out.append({"kind": "b", "cls": "SQLLiteQuery", "start": ["update", "n"], "db": 0, "tag": "triple:neg-set:" + name,
                    "calls": [["set", ["s", "w"], ["t", tree]], ["where", ["basic", "gt", F("id"), I(1), None]]],
                    "spec": {"kind": "update", "table": "n", "sets": [["w", ["t", tree]]], "where": ["basic", "gt", F("id"), I(1), None]}})
        v = _value_on_row(tree, 3)
        crit = ["basic", "eq", tree, (I(v) if isinstance(v, int) else ["valf", repr(float(v)), None]), None]
        out.append({"kind": "b", "cls": "SQLLiteQuery", "start": ["delete", "n"], "db": 0, "tag": "triple:neg-delete:" + name,
                    "calls": [["where", crit]], "spec": {"kind": "delete", "table": "n", "where": crit}})
    for name, tree in triple_trees(consts):
        row = [["i", 100], ["t", tree]]
        out.append({"kind": "b", "cls": "SQLLiteQuery", "start": ["into", "n"], "db": 0, "tag": "triple:insert:" + name,
                    "calls": [["columns", [["s", "id"], ["s", "w"]]], ["insert", [["v", v] for v in row]]],
                    "spec": {"kind": "insert", "table": "n", "cols": ["id", "w"], "rows": [row], "mode": "insert"}})
    return out


# ---------------------------------------------------------------------------------------------
# forks
# ---------------------------------------------------------------------------------------------
class FG(G):
    """a linear case, cut somewhere: the part in front is the kept prefix, the part behind is branch 1; further
    branches are other continuations of the same prefix"""

    def continuation(self, start, prefix):
        kind, table = start
        allcols = en.TABLES[table][1]
        if kind == "into":
            p = summarize(start, prefix)
            if p is not None and p["kind"] == "insert-select":
                cols = ["x", "y", "z"] if "k" not in p["from"] else ["x", "y", "z", "a", "b", "c"]
                calls = [["where", self.crit(cols[:3], 1)] for _ in range(self.r.choice([0, 1, 2]))]
                if self.r.random() < 0.4:
                    calls.append([self.r.choice(["replace", "insert"]), []])
                return calls
            cols_p = summarize(start, [x for x in prefix if x[0] == "columns"] + [["insert", [["v", ["i", 0]]]]])["cols"]
            rows_p = p["rows"] if p is not None else []
            cand = [c for c in allcols if c not in cols_p]
            width = len(rows_p[0]) if rows_p else None
            if width is not None:
                e = width - len(cols_p)
                if not cols_p and width == len(allcols) and self.r.random() < 0.5:
                    e = 0
                if e < 0 or e > len(cand):
                    e = 0
            else:
                e = self.r.randrange(0, len(cand) + 1)
            ext = self.r.sample(cand, e)
            final = cols_p + ext
            names = final if final else allcols
            if width is None:
                width = len(names)
            nrows = self.r.choice([1, 1, 2]) if rows_p else self.r.choice([1, 2])
            new_rows = [[self.key_value(table, names[j] if j < len(names) else names[-1]) for j in range(width)] for _ in range(nrows)]
            verbs = ["insert", "insert", "replace"] + (["ior"] if self._cls == "SQLLiteQuery" else [])
            calls = []
            for row in new_rows:
                calls.append([self.r.choice(verbs), self.row_args([row])])
            if ext:
                if len(ext) > 1 and self.r.random() < 0.3:
                    cc = [["columns", self.col_items(ext[:1])], ["columns", self.col_items(ext[1:])]]
                else:
                    cc = [["columns", self.col_items(ext)]]
                pos = 0
                for x in cc:
                    pos = self.r.randrange(pos, len(calls) + 1)
                    calls.insert(pos, x)
                    pos += 1
            return calls
        if kind == "update":
            setcols = [c for c in allcols if c != "id"]
            calls = [["set", ["s", self.r.choice(setcols)], (self.value() if self.r.random() < 0.6 else ["t", self.expr(setcols, 2)])]
                     for _ in range(self.r.choice([1, 1, 2]))]
            for _ in range(self.r.choice([0, 1, 1])):
                calls.insert(self.r.randrange(len(calls) + 1), ["where", self.crit(allcols, 1)])
            return calls
        calls = [["where", self.crit(allcols, 1)] for _ in range(self.r.choice([0, 1, 2]))]
        if self.r.random() < 0.15:
            calls.append(["limit", self.r.choice([0, 1, 2])])
        return calls

    def fork(self):
        x = self.r.random()
        base = self.insert() if x < 0.5 else (self.update() if x < 0.75 else (self.delete() if x < 0.88 else self.insert_select()))
        if self.r.random() < 0.85:
            base["cls"] = self.r.choice(JUDGED + ["SQLLiteQuery"])
            if base["cls"] != "SQLLiteQuery":
                for c in base["calls"]:
                    if c[0] == "ior":
                        c[0] = "replace"
        self._cls = base["cls"]
        calls = base["calls"]
        lo = 0
        if base["spec"]["kind"] == "insert-select":
            lo = 1 + max(i for i, c in enumerate(calls) if c[0] in ("columns", "fromselect"))
        k = self.r.randrange(lo, len(calls) + 1) if lo <= len(calls) else len(calls)
        prefix, first = calls[:k], calls[k:]
        branches = [first] + [self.continuation(base["start"], prefix) for _ in range(self.r.choice([1, 1, 2]))]
        self.r.shuffle(branches)
        specs = [summarize(base["start"], prefix + b) for b in branches]
        return {"kind": "f", "cls": base["cls"], "start": base["start"], "prefix": prefix, "branches": branches, "specs": specs,
                "db": base["db"]}


def fork_witnesses():
    """the red team's shape: one kept prefix with a column, two derived statements adding different columns"""
    out = []
    for cls in JUDGED:
        out.append({"kind": "f", "cls": cls, "start": ["into", "t"], "db": 1,
                    "prefix": [["columns", [["s", "id"]]]],
                    "branches": [[["columns", [["s", "a"]]], ["insert", [["v", ["i", 101]], ["v", ["s", "it's"]]]]],
                                 [["columns", [["s", "b"]]], ["insert", [["seq", "tuple", [["i", 102], ["n"]]], ["seq", "tuple", [["i", 103], ["i", 5]]]]]],
                                 [["insert", [["v", ["i", 104]]]]]],
                    "specs": None})
        out.append({"kind": "f", "cls": cls, "start": ["into", "k"], "db": 2,
                    "prefix": [["columns", [["s", "a"], ["s", "b"]]], ["insert", [["v", ["s", "p1"]], ["v", ["i", 1]]]]],
                    "branches": [[["insert", [["v", ["s", "p2"]], ["v", ["i", 2]]]]], [["replace", [["seq", "list", [["s", "p3"], ["n"]]]]]]],
                    "specs": None})
        out.append({"kind": "f", "cls": cls, "start": ["update", "t"], "db": 1,
                    "prefix": [["set", ["s", "a"], ["i", 5]], ["where", ["basic", "gt", F("id"), I(1), None]]],
                    "branches": [[["set", ["s", "b"], ["s", "x"]]], [["set", ["s", "c"], ["n"]], ["where", ["basic", "lt", F("id"), I(4), None]]], []],
                    "specs": None})
        out.append({"kind": "f", "cls": cls, "start": ["into", "t"], "db": 1,
                    "prefix": [["columns", [["s", "a"]]], ["fromselect", "u", [F("x")]]],
                    "branches": [[["where", ["basic", "gt", F("x"), I(1), None]]], [["fromselect", "k", [F("b")]], ["columns", [["s", "b"]]]], []],
                    "specs": None})
        out.append({"kind": "f", "cls": cls, "start": ["delete", "t"], "db": 1,
                    "prefix": [["where", ["basic", "gt", F("id"), I(1), None]]],
                    "branches": [[["where", ["basic", "lt", F("id"), I(4), None]]], [["where", ["isnull", F("a"), None]]], []],
                    "specs": None})
    for c in out:
        c["specs"] = [summarize(c["start"], c["prefix"] + b) for b in c["branches"]]
    return out


# ---------------------------------------------------------------------------------------------
# correlated sub-queries in the WHERE of an UPDATE / DELETE
# ---------------------------------------------------------------------------------------------
def tfield(table, col):
    return ["field", col, [table, [], None], None]


def corr_case(rng, g, form=None, cls=None, stmt=None, local_after=None, outer_after=None, db=None):
    """outer table t, inner table s (both have id and a).  The inner statement gets its criteria by separate where()
    calls; the correlation predicate (names the outer table) comes first unless local_after is False."""
    form = form or rng.choice(["in", "in", "exists", "cmp"])
    stmt = stmt or rng.choice(["delete", "update"])
    cls = cls or (rng.choice(JUDGED) if rng.random() < 0.85 else rng.choice(qf.CLS_NAMES))
    ocol = rng.choice(["id", "id", "a"])
    icol = rng.choice(["tid", "tid", "a", "id"])
    corr = ["basic", rng.choice(["eq", "eq", "lte"]), tfield("s", icol), tfield("t", ocol), None]
    nloc = rng.choice([1, 1, 2]) if local_after is None else (1 if local_after else 0)
    locs = [["basic", rng.choice(["gt", "gte", "lt", "ne"]), tfield("s", rng.choice(["x", "x", "a", "id"])), I(rng.choice([0, 1, 2])), None]
            for _ in range(nloc)]
    order = rng.random()
    if local_after is not None or order < 0.7:
        inner_wheres = [corr] + locs                   # correlation first: a later, purely local where() follows it
    elif order < 0.85:
        inner_wheres = locs + [corr]
    else:
        inner_wheres = locs[:1] + [corr] + locs[1:]
    if form == "cmp":
        sel = ["func", rng.choice(["MAX", "MIN", "COUNT"]), [tfield("s", rng.choice(["x", "id"]))], None]
    else:
        sel = tfield("s", rng.choice(["tid", "tid", "id", "a"]))
    outer_term = tfield("t", rng.choice(["id", "id", "a"]))
    n_out = rng.choice([0, 0, 1]) if outer_after is None else (1 if outer_after else 0)
    outer_wheres = [["basic", rng.choice(["gt", "lt", "ne"]), tfield("t", "id"), I(rng.choice([1, 2, 4])), None] for _ in range(n_out)]
    case = {"kind": "c", "cls": cls, "stmt": stmt, "form": form, "neg": rng.random() < 0.25, "op": rng.choice(["eq", "gt", "lte"]),
            "outer_term": outer_term, "sel": sel, "inner_wheres": inner_wheres, "outer_wheres": outer_wheres,
            "outer_first": rng.random() < 0.3 and bool(outer_wheres),
            "sets": [[rng.choice(["a", "b", "c"]), g.value()] for _ in range(rng.choice([1, 2]))] if stmt == "update" else [],
            "db": rng.randrange(4) if db is None else db}
    return case


def corr_witnesses():
    import random
    r = random.Random("C05-corr")
    g = G(r, hazards=0.0)
    out = []
    for cls in JUDGED:
        for form in ("in", "exists", "cmp"):
            for stmt in ("delete", "update"):
                c = corr_case(r, g, form=form, cls=cls, stmt=stmt, local_after=True, outer_after=False, db=1)
                c["neg"] = False
                c["inner_wheres"] = [["basic", "eq", tfield("s", "tid"), tfield("t", "id"), None],
                                     ["basic", "gt", tfield("s", "x"), I(0), None]]
                c["outer_term"] = tfield("t", "id")
                if form != "cmp":
                    c["sel"] = tfield("s", "tid")
                else:
                    c["sel"], c["op"] = ["func", "COUNT", [tfield("s", "id")], None], "lte"
                    c["outer_term"] = tfield("t", "a")
                out.append(c)
    return out


def corr_inner_where(case):
    w = None
    for x in case["inner_wheres"]:
        w = x if w is None else ["cplx", "and", w, x, None]
    return w


def corr_item(case, sub):
    """the WHERE item (outer criteria conjoined in call order) with `sub` standing for the sub-query"""
    form = case["form"]
    if form == "in":
        it = ["in", case["outer_term"], sub, case["neg"]]
    elif form == "exists":
        it = ["exists", sub, case["neg"]]
    else:
        it = ["cmp", case["op"], case["outer_term"], sub]
    items = [["t", w] for w in case["outer_wheres"]]
    seq = (items + [it]) if case["outer_first"] else ([it] + items)
    acc = None
    for x in seq:
        acc = x if acc is None else ["cplx", "and", acc, x]
    return acc


def corr_spec(case):
    """engine-side specification"""
    sub = {"from": "s", "selects": [case["sel"]], "where": corr_inner_where(case)}
    spec = {"kind": case["stmt"], "table": "t", "where": None, "where_item": corr_item(case, sub)}
    if case["stmt"] == "update":
        spec["sets"] = case["sets"]
    return spec


def corr_qspec(case):
    """the same statement as a spec of the shared `queries` family (for Query.v): ONE where item = the conjunction"""
    tt, st = ["t", [], None], ["s", [], None]
    sub = {"k": "sel", "cls": case["cls"], "from": [["t", st]], "selects": [["t", case["sel"]]], "where": ["t", corr_inner_where(case)]}
    if case["stmt"] == "delete":
        return {"k": "del", "cls": case["cls"], "from": [["t", tt]], "where": corr_item(case, sub)}
    return {"k": "upd", "cls": case["cls"], "table": tt, "where": corr_item(case, sub),
            "sets": [[c, ["t", value_term(v)]] for c, v in case["sets"]]}


def value_term(v):
    """the term set() stores for a Python value, as a spec of the terms family (Query.v takes terms)"""
    k = v[0]
    if k == "s":
        return ["vals", v[1], None]
    if k == "i":
        return ["vali", v[1], None]
    if k == "b":
        return ["valb", v[1], None, None]      # the sqlite flag is filled in by run_c
    if k == "n":
        return ["valnone", None]
    if k == "f":
        return ["valf", v[1], None]
    raise ValueError(v)


def run_c(case):
    """built by hand on pypika: every inner criterion by its own where() call, every outer one too"""
    import pypika.terms as T
    import pypika.enums as E
    from pypika import Table
    from harness.c05.build import py_value
    try:
        Q = qclass(case["cls"])
        t, s = Table("t"), Table("s")
        inner = Q.from_(s).select(tf.build(case["sel"]))
        for w in case["inner_wheres"]:
            inner = inner.where(tf.build(w))
        if case["form"] == "in":
            crit = T.ContainsCriterion(tf.build(case["outer_term"]), inner)
            if case["neg"]:
                crit = crit.negate()
        elif case["form"] == "exists":
            crit = T.ExistsCriterion(inner)
            if case["neg"]:
                crit = crit.negate()
        else:
            crit = T.BasicCriterion(getattr(E.Equality, case["op"]), tf.build(case["outer_term"]), inner)
        if case["stmt"] == "delete":
            q = Q.from_(t).delete()
        else:
            q = Q.update(t)
            for c, v in case["sets"]:
                q = q.set(c, py_value(v))
        outs = [tf.build(w) for w in case["outer_wheres"]]
        seq = (outs + [crit]) if case["outer_first"] else ([crit] + outs)
        for w in seq:
            q = q.where(w)
        return {"text": str(q)}
    except Exception as e:  # noqa
        return {"text": "!" + type(e).__name__}


def coq_c(case, outcome):
    spec = corr_qspec(case)
    sqlite = case["cls"] == "SQLLiteQuery"
    for pair in spec.get("sets", []):
        t = pair[1][1]
        if t[0] == "valb":
            t[2] = sqlite
    return "(CaseQ %s %s)" % (qf.coq_query(spec), S(outcome["text"]))


# ---------------------------------------------------------------------------------------------
# INSERT ... SELECT in every call order pypika accepts
# ---------------------------------------------------------------------------------------------
def insert_select_orders():
    """every permutation of into / columns / from_ / select / where / [replace() | insert_or_replace()] in which into()
    precedes columns(), select() and the verb call (into() AFTER select() is pypika's SELECT ... INTO, another statement);
    the builder starts empty.  Target k(a UNIQUE, b, c) so that REPLACE differs from INSERT; source u."""
    import itertools
    w = ["basic", "gt", F("x"), I(1), None]
    base = {"I": ["into", "k"], "C": ["columns", [["s", "a"], ["s", "b"]]], "F": ["from", "u"], "S": ["select", [F("x"), F("y")]],
            "W": ["where", w]}
    out = []
    for verb in (None, "replace", "ior"):
        names = "ICFSW" + ("R" if verb else "")
        for perm in itertools.permutations(names):
            pos = {n: i for i, n in enumerate(perm)}
            if pos["I"] > pos["C"] or pos["I"] > pos["S"] or (verb and pos["I"] > pos["R"]):
                continue
            calls = [([verb, []] if n == "R" else base[n]) for n in perm]
            case = {"kind": "b", "cls": "SQLLiteQuery", "start": ["builder", "k"], "calls": calls, "db": 2,
                    "tag": "insert-select-order:" + (verb or "insert")}
            case["spec"] = summarize(case["start"], calls)
            out.append(case)
    return out


def random_insert_select_order(rng, g):
    """a random INSERT ... SELECT of the generator, its calls re-dealt in a random admissible order on an empty builder"""
    c = g.insert_select()
    calls = []
    for call in c["calls"]:
        if call[0] == "fromselect":
            calls += [["from", call[1]], ["select", call[2]]]
        else:
            calls.append(call)
    calls.append(["into", c["start"][1]])
    for _ in range(50):
        rng.shuffle(calls)
        pos_into = [i for i, x in enumerate(calls) if x[0] == "into"][0]
        if all(i > pos_into for i, x in enumerate(calls) if x[0] in ("columns", "select", "insert", "replace", "ior")):
            break
    else:
        calls = [x for x in calls if x[0] == "into"] + [x for x in calls if x[0] != "into"]
    spec = summarize(["builder", c["start"][1]], calls)
    # the relative order of columns / select items / from tables / criteria decides the specification: recompute, do not reuse
    return {"kind": "b", "cls": c["cls"], "start": ["builder", c["start"][1]], "calls": calls, "spec": spec, "db": c["db"]}


# ---------------------------------------------------------------------------------------------
# a scalar sub-query nested inside compound values, in every value position
# ---------------------------------------------------------------------------------------------
def nested_subquery_values():
    import random
    g = G(random.Random("C05-subvalue"), hazards=0.0)
    out = []
    for k in range(G.N_SUBVALUES):
        for cls in JUDGED:
            v = g.subvalue(["a", "b"], which=k)
            w = ["basic", "gt", F("id"), I(1), None]
            out.append({"kind": "b", "cls": cls, "start": ["update", "t"], "db": 1, "tag": "nested-subquery:set:%d" % k,
                        "calls": [["set", ["s", "b"], ["t", v]], ["set", ["s", "c"], ["s", "k"]], ["where", w]],
                        "spec": {"kind": "update", "table": "t", "sets": [["b", ["t", v]], ["c", ["s", "k"]]], "where": w}})
        # as an INSERT value (no column references: literals instead of fields)
        vi = G(random.Random("C05-subvalue-%d" % k), hazards=0.0).subvalue(["a"], which=k)
        vi = json.loads(json.dumps(vi).replace(json.dumps(F("a")), json.dumps(I(3))))
        row = [["i", 300 + k], ["t", vi]]
        out.append({"kind": "b", "cls": "SQLLiteQuery", "start": ["into", "t"], "db": 1, "tag": "nested-subquery:insert:%d" % k,
                    "calls": [["columns", [["s", "id"], ["s", "a"]]], ["insert", [["v", x] for x in row]]],
                    "spec": {"kind": "insert", "table": "t", "cols": ["id", "a"], "rows": [row], "mode": "insert"}})
        # as a WHERE operand
        crit = g.subvalue(["a", "b"], which=k)
        if crit[0] in ("case", "neg", "arith", "func"):
            crit = ["basic", "gt", crit, I(1), None]
        out.append({"kind": "b", "cls": "SQLLiteQuery", "start": ["delete", "t"], "db": 1, "tag": "nested-subquery:where:%d" % k,
                    "calls": [["where", crit]], "spec": {"kind": "delete", "table": "t", "where": crit}})
    return out


# ---------------------------------------------------------------------------------------------
# the table-factory spellings of the statement starters (Round 6)
# ---------------------------------------------------------------------------------------------
def starter_spellings():
    """Q.Table('t').insert(...) / Table('t', query_cls=Q).insert(...) with every row form, and .update()"""
    out = []
    r1, r2, r3 = [["i", 401], ["s", "d"], ["i", 40]], [["i", 402], ["s", "it's"], ["n"]], [["i", 403], ["s", ""], ["b", True]]
    forms = {
        "flat": ([["v", x] for x in r1], [r1]),
        "one-tuple": ([["seq", "tuple", r1]], [r1]),
        "one-list": ([["seq", "list", r1]], [r1]),
        "tuples": ([["seq", "tuple", r1], ["seq", "tuple", r2], ["seq", "tuple", r3]], [r1, r2, r3]),
        "lists": ([["seq", "list", r1], ["seq", "list", r2]], [r1, r2]),
        "mixed": ([["seq", "tuple", r1], ["seq", "list", r2]], [r1, r2]),
    }
    for via in ("factory", "query_cls"):
        for cls in JUDGED:
            for name, (args, rows) in forms.items():
                for with_cols in (False, True):
                    calls = [["insert", args]]
                    rws = rows
                    if with_cols:
                        calls.append(["columns", [["s", "id"], ["s", "b"], ["s", "a"]]])
                    else:
                        rws = [r + [["n"], ["f", "1.5"]] for r in rows]
                        calls = [["insert", [([a[0], a[1], a[2] + [["n"], ["f", "1.5"]]] if a[0] == "seq" else a) for a in args]
                                  + ([["v", ["n"]], ["v", ["f", "1.5"]]] if args[0][0] == "v" else [])]]
                    calls.append(["insert", [["seq", "tuple", [["i", 450]] + rws[0][1:]]]])      # chained after the starter
                    case = {"kind": "b", "cls": cls, "start": ["into", "t"], "via": via, "calls": calls, "db": 1,
                            "tag": "starter:%s:insert:%s" % (via, name)}
                    case["spec"] = summarize(case["start"], calls)
                    out.append(case)
            w = ["basic", "gt", F("id"), I(2), None]
            calls = [["set", ["s", "b"], ["s", "via"]], ["where", w]]
            out.append({"kind": "b", "cls": cls, "start": ["update", "t"], "via": via, "calls": calls, "db": 1,
                        "tag": "starter:%s:update" % via, "spec": summarize(["update", "t"], calls)})
    return out


def retargeted():
    """a DML template re-targeted with replace_table(Table(old), Table(new)) — the Table passed equals the target but is a
    different object (the target was given through another Table instance).  t and k share the columns a, b, c."""
    out = []
    w = ["basic", "gt", F("b"), I(0), None]
    for cls in JUDGED:
        for verb in ("insert", "replace") + (("ior",) if cls == "SQLLiteQuery" else ()):
            calls = [["columns", [["s", "a"], ["s", "b"]]], [verb, [["seq", "tuple", [["s", "rt1"], ["i", 1]]], ["seq", "tuple", [["s", "abc"], ["i", 2]]]]],
                     ["retarget", "t", "k"]]
            out.append({"kind": "b", "cls": cls, "start": ["into", "t"], "calls": calls, "db": 2, "tag": "retarget:" + verb})
        calls = [["set", ["s", "c"], ["s", "moved"]], ["where", w], ["retarget", "t", "k"]]
        out.append({"kind": "b", "cls": cls, "start": ["update", "t"], "calls": calls, "db": 2, "tag": "retarget:update"})
        calls = [["where", w], ["retarget", "t", "k"]]
        out.append({"kind": "b", "cls": cls, "start": ["delete", "t"], "calls": calls, "db": 2, "tag": "retarget:delete"})
        calls = [["columns", [["s", "a"]]], ["fromselect", "u", [F("x")]], ["retarget", "t", "k"]]
        out.append({"kind": "b", "cls": cls, "start": ["into", "t"], "calls": calls, "db": 2, "tag": "retarget:insert-select"})
    for c in out:
        c["spec"] = summarize(c["start"], c["calls"])
    return out
