"""C05 generators: a DML specification first (table, columns, rows / SET pairs / criteria, verb), then a random call
list that expresses it (chained inserts, scalars vs tuples vs lists, columns before/after, set/where interleaved)."""
import json

from harness.c05.engine import TABLES, STR_POOL, INT_POOL, FLOAT_POOL

HOSTILE = ["it's", 'say "hi"', "back\\slash", "--c", "/*x*/", "#h", "a;b", "l1\nl2", "é✓", "''", "", " ", "%x_",
           "a,b),(c", "x'),('y", "'); DROP TABLE t; --", "1,2", "NULL", "é中\U0001F600", "tab\there", "nul\x00z",
           "C:\\data\\", "\\", "\\\\", "it's\\", "{}", "{0}", "%s", "%", "100%", "%(a)s", "$1", ":a", "?"]
JUDGED = ["SQLLiteQuery", "Query"]
ALL_CLS = ["Query", "MySQLQuery", "VerticaQuery", "OracleQuery", "PostgreSQLQuery", "RedshiftQuery", "MSSQLQuery",
           "ClickHouseQuery", "SQLLiteQuery", "SnowflakeQuery"]


def F(name):
    return ["field", name, None, None]


def I(n):
    return ["vali", n, None]


def Sv(s):
    return ["vals", s, None]


class G:
    def __init__(self, rng, hostile=0.35, hazards=0.02):
        self.r = rng
        self.hostile = hostile
        self.hazards = hazards

    # ---- data values ----
    def value(self):
        x = self.r.random()
        if x < 0.30:
            return ["i", self.r.choice(INT_POOL + [-(10 ** 9), 2 ** 62, -(2 ** 63)])]
        if x < 0.65:
            if self.r.random() < self.hostile:
                return ["s", self.r.choice(HOSTILE)]
            return ["s", self.r.choice(STR_POOL)]
        if x < 0.75:
            return ["b", self.r.random() < 0.5]
        if x < 0.88:
            return ["n"]
        return ["f", repr(self.r.choice(FLOAT_POOL + [-0.5, 2.5e-3, 123456.75]))]

    def key_value(self, table, col):
        if table == "t" and col == "id":
            x = self.r.random()
            return ["n"] if x < 0.45 else (["i", 100 + self.r.randrange(50)] if x < 0.8 else ["i", self.r.choice([1, 2, 3])])
        if table == "k" and col == "a" and self.r.random() < 0.5:
            return self.r.choice([["i", 1], ["i", 2], ["s", "abc"], ["s", "x"], ["i", 7], ["n"]])
        return self.value()

    # ---- expressions / criteria over the columns of a table (tf term specs, table-less fields) ----
    def lit(self):
        x = self.r.random()
        if x < 0.6:
            return I(self.r.choice([0, 1, 2, 3, 7, 10, -1, 5]))
        if x < 0.9:
            return Sv(self.r.choice(STR_POOL[:6] + ["C:\\data\\", "\\"] + (HOSTILE if self.r.random() < self.hostile else [])))
        return ["valf", repr(self.r.choice([1.5, -2.25, 3.0])), None]

    def expr(self, cols, d, hazard_ok=True):
        """arithmetic over columns and literals of either sign, unary minus included (C02's repaired grammar)"""
        x = self.r.random()
        if d <= 0 or x < 0.33:
            return F(self.r.choice(cols)) if self.r.random() < 0.7 else I(self.r.choice([0, 1, 2, 3, 10, -1, -5]))
        if x < 0.82:
            op, l, r = self.r.choice(["add", "sub", "mul", "div"]), self.expr(cols, d - 1), self.expr(cols, d - 1)
            while op == "mul" and r[0] == "arith" and r[1] == "div":
                r = self.expr(cols, d - 1)   # x*(y/z) is rendered x*y/z: equal over the reals (C02 allows it), not under integer division
            return ["arith", op, l, r, None]
        if x < 0.90:
            return ["neg", self.expr(cols, d - 1)]
        if x < 0.95:
            return ["func", "ABS", [self.expr(cols, d - 1)], None]
        return ["func", "COALESCE", [self.expr(cols, d - 1), I(0)], None]

    def subvalue(self, cols, which=None):
        """a compound value that CONTAINS the scalar sub-query (SELECT "x" FROM "u"): inside a CASE branch / ELSE / WHEN
        condition, a comparison, unary minus, an IN list, arithmetic, a function argument"""
        sub = ["sub", None]
        f = F(self.r.choice(cols))
        g = F(self.r.choice(cols))
        shapes = [
            ["case", [[["basic", "gt", f, I(1), None], sub]], g, None],
            ["case", [[["basic", "gt", f, I(1), None], g]], sub, None],
            ["case", [[["basic", "lte", f, sub, None], I(5)]], I(6), None],
            ["case", [[["isnull", f, None], sub], [["basic", "eq", f, I(2), None], ["func", "COALESCE", [sub, I(1)], None]]], None, None],
            ["basic", "eq", f, sub, None],
            ["basic", "lt", sub, f, None],
            ["neg", sub],
            ["in", f, ["tuple", [sub, I(2)], None], False, None],
            ["in", f, ["tuple", [I(7), sub], None], True, None],
            # (a sub-query as a direct OPERAND of + - * / gets parentheses of its own from ArithmeticExpression; the shared
            #  Terms.v has no rule for that slot yet, so those shapes are left to the lead's model)
            ["case", [[["in", f, ["tuple", [sub, I(1)], None], False, None], ["neg", sub]]], ["neg", g], None],
            ["notnull", sub, None],
            ["func", "COALESCE", [sub, I(0)], None],
            ["between", f, I(0), sub, None],
            ["isnull", sub, None],
        ]
        return shapes[self.r.randrange(len(shapes)) if which is None else which]

    N_SUBVALUES = 14

    def hazard_set(self, cols):
        """the shapes of the (repaired) C02 defects that used to change C05's observable, as SET values: regression cases"""
        f = F(self.r.choice(cols))
        return self.r.choice([["arith", "sub", f, I(-1), None], ["neg", ["arith", "add", f, I(1), None]]])

    def hazard_where(self, cols):
        return ["basic", "eq", ["arith", "sub", F(self.r.choice(cols)), I(-1), None], I(self.r.choice([2, 3])), None]

    def crit(self, cols, d):
        x = self.r.random()
        f = F(self.r.choice(cols))
        if d <= 0 or x < 0.45:
            lhs = f if self.r.random() < 0.8 else self.expr(cols, 1)
            return ["basic", self.r.choice(["eq", "ne", "gt", "gte", "lt", "lte"]), lhs, self.lit(), None]
        if x < 0.65:
            return ["cplx", self.r.choice(["and", "or"]), self.crit(cols, d - 1), self.crit(cols, d - 1), None]
        if x < 0.72:
            return ["not", self.crit(cols, d - 1), None]
        if x < 0.82:
            return ["in", f, ["tuple", [self.lit() for _ in range(self.r.choice([0, 0, 1, 2, 3]))], None], self.r.random() < 0.4, None]
        if x < 0.89:
            return ["between", f, I(self.r.choice([0, 1, 2])), I(self.r.choice([3, 7, 10])), None]
        if x < 0.95:
            return [self.r.choice(["isnull", "notnull"]), f, None]
        return ["basic", "like", f, Sv(self.r.choice(["a%", "%'%", "x", "%"])), None]

    # ---- choosing a class ----
    def cls(self):
        x = self.r.random()
        if x < 0.62:
            return "SQLLiteQuery"
        if x < 0.8:
            return "Query"
        return self.r.choice(ALL_CLS)

    # ---- INSERT ... VALUES ----
    def insert(self):
        cls = self.cls()
        table = self.r.choice(["t", "t", "k"])
        allcols = TABLES[table][1]
        if self.r.random() < 0.6:
            cols = self.r.sample(allcols, self.r.randrange(1, len(allcols) + 1))
            width_cols = cols
        else:
            cols, width_cols = [], allcols
        nrows = self.r.choice([1, 1, 2, 2, 3, 5])
        rows = [[self.key_value(table, c) for c in width_cols] for _ in range(nrows)]
        calls, flags = self.express_insert(cls, cols, rows)
        mode = "insert" if not flags[0] else ("ior" if flags[1] else "replace")
        spec = {"kind": "insert", "table": table, "cols": cols, "rows": rows, "mode": mode}
        case = {"kind": "b", "cls": cls, "start": ["into", table], "calls": calls, "spec": spec, "db": self.r.randrange(4)}
        if self.r.random() < 0.3:      # the table-factory spellings of the starter: t.insert(...) is then the first call
            case["via"] = self.r.choice(["factory", "query_cls"])
        return case

    def row_args(self, chunk):
        """one insert-like call's argument list for the rows in chunk"""
        if len(chunk) == 1:
            x = self.r.random()
            if x < 0.5:
                return [["v", v] for v in chunk[0]]
            return [["seq", "tuple" if x < 0.8 else "list", chunk[0]]]
        kind = self.r.choice(["tuple", "list", "mixed"])
        return [["seq", kind if kind != "mixed" else self.r.choice(["tuple", "list"]), row] for row in chunk]

    def col_items(self, cols):
        def one(c):
            x = self.r.random()
            return ["s", c] if x < 0.8 else ["f", c, x < 0.9]
        if self.r.random() < 0.35:
            return [["seq", self.r.choice(["list", "tuple"]), [one(c) for c in cols]]]
        return [one(c) for c in cols]

    def express_insert(self, cls, cols, rows):
        # rows -> chunks -> calls
        chunks, i = [], 0
        while i < len(rows):
            n = self.r.choice([1, 1, 2, 3, len(rows)])
            chunks.append(rows[i:i + n])
            i += n
        verbs = ["insert", "insert", "replace"] + (["ior"] if cls == "SQLLiteQuery" else [])
        ins_calls = []
        flags = [False, False]
        for ch in chunks:
            v = self.r.choice(verbs)
            ins_calls.append([v, self.row_args(ch)])
            if v == "insert":
                flags[0] = False
            elif v == "replace":
                flags[0] = True
            else:
                flags = [True, True]
        # columns: one or two calls, anywhere
        col_calls = []
        if cols:
            if len(cols) > 1 and self.r.random() < 0.3:
                cut = self.r.randrange(1, len(cols))
                col_calls = [["columns", self.col_items(cols[:cut])], ["columns", self.col_items(cols[cut:])]]
            else:
                col_calls = [["columns", self.col_items(cols)]]
        elif self.r.random() < 0.1:
            col_calls = [["columns", []]]
        calls = list(ins_calls)
        pos = 0
        for cc in col_calls:       # keep the column calls in order, at random positions
            pos = self.r.randrange(pos, len(calls) + 1)
            calls.insert(pos, cc)
            pos += 1
        if self.r.random() < 0.1:  # a no-op insert() of the verb already in force does not change anything
            last = [c for c in calls if c[0] in ("insert", "replace", "ior")][-1][0]
            if last != "ior":
                calls.append([last, []])
        return calls, flags

    # ---- INSERT ... SELECT ----
    def insert_select(self):
        cls = self.cls()
        table = self.r.choice(["t", "k"])
        tcols = [c for c in TABLES[table][1] if c != "id"]
        cols = self.r.sample(tcols, self.r.randrange(1, len(tcols) + 1))
        ucols = ["x", "y", "z"]
        sels = [F(self.r.choice(ucols)) if self.r.random() < 0.7 else self.expr(ucols, 1) for _ in cols]
        wheres = [self.crit(ucols, 1) for _ in range(self.r.choice([0, 1, 1, 2]))]
        froms = ["u"]
        if len(sels) > 1 and self.r.random() < 0.25:
            # two FROM tables (a cross product): select items split over two from_().select() calls
            froms = ["u", "k"]
            cut = self.r.randrange(1, len(sels))
            sels = sels[:cut] + [F(self.r.choice(["a", "b", "c"])) for _ in sels[cut:]]
            fs = [["fromselect", "u", sels[:cut]], ["fromselect", "k", sels[cut:]]]
        else:
            fs = [["fromselect", "u", sels]]
        calls = [["columns", self.col_items(cols)]] + fs + [["where", w] for w in wheres]
        if self.r.random() < 0.3:
            calls = [calls[1], calls[0]] + calls[2:]
        mode = "insert"
        x = self.r.random()
        if x < 0.3:
            calls.append(["replace", []])
            mode = "replace"
        elif x < 0.4:
            calls.append(["insert", []])
        w = None
        for c in wheres:
            w = c if w is None else ["cplx", "and", w, c, None]
        spec = {"kind": "insert-select", "table": table, "cols": cols, "from": froms, "sels": sels, "where": w, "mode": mode}
        return {"kind": "b", "cls": cls, "start": ["into", table], "calls": calls, "spec": spec, "db": self.r.randrange(4)}

    # ---- UPDATE ----
    def update(self):
        # a comment opened by a double-minus template ends at a newline: keep such statements on one line, so that
        # every template has exactly one outcome
        while True:
            c = self._update()
            if not (c.pop("_hazard") and "\\n" in json.dumps(c["calls"])):
                return c

    def _update(self):
        cls = self.cls()
        table = self.r.choice(["t", "t", "t", "k", "k", "n"])
        cols = [c for c in TABLES[table][1]]
        setcols = [c for c in cols if c != "id"]
        n = self.r.choice([1, 1, 2, 3, 4])
        sets = []
        for _ in range(n):
            c = self.r.choice(setcols)
            v = self.value() if self.r.random() < 0.6 else ["t", self.expr(setcols, 2)]
            sets.append([c, v])
        wheres = [self.crit(cols, 2) for _ in range(self.r.choice([0, 1, 1, 1, 2]))]
        if self.r.random() < 0.03:      # a scalar sub-query as SET value (repaired by 5249523: parenthesised)
            sets[self.r.randrange(len(sets))][1] = ["t", ["sub", None]]
        if self.r.random() < 0.06:      # ... and nested inside a compound value
            sets[self.r.randrange(len(sets))][1] = ["t", self.subvalue(setcols)]
        hz = self.r.random()
        hazard = False
        if table != "t":
            pass      # the templates are run on the unconstrained table only (one outcome per template: stable signatures)
        elif hz < self.hazards:
            sets[self.r.randrange(len(sets))][1] = ["t", self.hazard_set(setcols)]
            hazard = True
        elif hz < 2 * self.hazards:
            wheres.insert(self.r.randrange(len(wheres) + 1), self.hazard_where(setcols))
            hazard = True
        calls = [["set", (["s", c] if self.r.random() < 0.8 else ["f", c, self.r.random() < 0.5]), v] for c, v in sets]
        pos = 0
        for w in wheres:
            pos = self.r.randrange(pos, len(calls) + 1)
            calls.insert(pos, ["where", w])
            pos += 1
        w = None
        for c in wheres:
            w = c if w is None else ["cplx", "and", w, c, None]
        spec = {"kind": "update", "table": table, "sets": sets, "where": w}
        if self.r.random() < 0.08:
            lim = self.r.choice([0, 1, 2])
            calls.insert(self.r.randrange(len(calls) + 1), ["limit", lim])
            spec["limit"] = lim
        case = {"kind": "b", "cls": cls, "start": ["update", table], "calls": calls, "spec": spec, "db": self.r.randrange(4),
                "_hazard": hazard}
        if self.r.random() < 0.2:
            case["via"] = self.r.choice(["factory", "query_cls"])
        return case

    # ---- DELETE ----
    def delete(self):
        while True:
            c = self._delete()
            if not (c.pop("_hazard") and "\\n" in json.dumps(c["calls"])):
                return c

    def _delete(self):
        cls = self.cls()
        table = self.r.choice(["t", "t", "t", "k", "k", "u", "u", "n", "s"])
        cols = TABLES[table][1]
        wheres = [self.crit(cols, 2) for _ in range(self.r.choice([0, 1, 1, 1, 2]))]
        hazard = False
        if table == "t" and self.r.random() < self.hazards:
            wheres.insert(self.r.randrange(len(wheres) + 1), self.hazard_where([c for c in cols if c != "id"]))
            hazard = True
        calls = [["where", w] for w in wheres]
        w = None
        for c in wheres:
            w = c if w is None else ["cplx", "and", w, c, None]
        spec = {"kind": "delete", "table": table, "where": w}
        if self.r.random() < 0.1:
            lim = self.r.choice([0, 1, 2])
            calls.insert(self.r.randrange(len(calls) + 1), ["limit", lim])
            spec["limit"] = lim
        return {"kind": "b", "cls": cls, "start": ["delete", table], "calls": calls, "spec": spec, "db": self.r.randrange(4),
                "_hazard": hazard}

    # ---- malformed / unusual call lists (correspondence of the error cases; never judged by the engine) ----
    def malformed(self, which=None):
        cls = self.r.choice(ALL_CLS)
        v = self.value
        x = self.r.randrange(12) if which is None else which
        if x == 0:
            return {"kind": "b", "cls": cls, "start": ["update", "t"], "calls": [["insert", [["v", v()]]]], "spec": None, "db": 0}
        if x == 1:
            return {"kind": "b", "cls": cls, "start": ["delete", "t"], "calls": [["columns", [["s", "a"]]]], "spec": None, "db": 0}
        if x == 2:
            return {"kind": "b", "cls": cls, "start": ["into", "t"],
                    "calls": [["insert", [["seq", "tuple", [v(), v()]], ["v", self.r.choice([["i", 3], ["n"], ["f", "1.5"], ["b", True]])]]]], "spec": None, "db": 0}
        if x == 3:
            return {"kind": "b", "cls": cls, "start": ["into", "t"],
                    "calls": [["insert", [["seq", "list", [v(), v()]], ["v", ["s", self.r.choice(["ab", "é✓", "x'y", ""])]]]]], "spec": None, "db": 0}
        if x == 4:
            return {"kind": "b", "cls": cls, "start": ["into", "t"], "calls": [["ior", [["v", v()]]], ["insert", [["v", v()]]]], "spec": None, "db": 0}
        if x == 5:
            return {"kind": "b", "cls": cls, "start": ["into", "t"], "calls": [["insert", []]], "spec": None, "db": 0}
        if x == 6:
            return {"kind": "b", "cls": cls, "start": ["into", "t"],
                    "calls": [["columns", [["seq", "list", [["s", "a"]]], ["s", "b"]]], ["insert", [["v", v()]]]], "spec": None, "db": 0}
        if x == 7:   # a value that is itself a tuple / list inside a single row
            return {"kind": "b", "cls": cls, "start": ["into", "t"],
                    "calls": [["insert", [["v", v()], ["seq", self.r.choice(["tuple", "list"]), [["i", 2], ["s", "x"]]]]]], "spec": None, "db": 0}
        if x == 8:   # a set as a row (iteration order is Python's)
            return {"kind": "b", "cls": cls, "start": ["into", "t"],
                    "calls": [["insert", [["seq", "set", [["i", 3], ["i", 1], ["s", "b"], ["s", "a"]]]]]], "spec": None, "db": 0}
        if x == 9:   # an aliased expression as inserted value (its alias is no longer rendered inside VALUES since f84cf61)
            return {"kind": "b", "cls": cls, "start": ["into", "t"],
                    "calls": [["insert", [["v", ["t", ["func", "NOW", [], "n"]]], ["v", v()]]]], "spec": None, "db": 0}
        if x == 10:  # set() on an INSERT builder, where() on VALUES: ignored by the renderer
            return {"kind": "b", "cls": cls, "start": ["into", "t"],
                    "calls": [["insert", [["v", v()]]], ["set", ["s", "a"], v()], ["where", ["basic", "eq", F("a"), I(1), None]]], "spec": None, "db": 0}
        return {"kind": "b", "cls": cls, "start": ["into", "t"],
                "calls": [["insert", [["seq", "tuple", []]]], ["insert", [["seq", "tuple", [v()]]]]], "spec": None, "db": 0}

    def any_b(self):
        x = self.r.random()
        if x < 0.40:
            return self.insert()
        if x < 0.50:
            return self.insert_select()
        if x < 0.75:
            return self.update()
        if x < 0.90:
            return self.delete()
        return self.malformed()
