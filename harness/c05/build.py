"""C05: a builder-call case on real pypika (state dump + text) and as a Gallina value (coq/Dml.v, coq/DmlCorr.v)."""
from harness import terms_family as tf
from harness import queries_family as qf
from harness.lib import S, Zc, B, L, P
from harness.query_extract import qclass

KINDS = ("ValueWrapper", "SQLLiteValueWrapper", "NullValue", "Tuple", "Array")
CTX = dict(quote_char='"', secondary_quote_char="'")


# ---------------------------------------------------------------------------------------------
# pypika side
# ---------------------------------------------------------------------------------------------
def py_value(v):
    k = v[0]
    if k == "s":
        return v[1]
    if k == "i":
        return int(v[1])
    if k == "b":
        return bool(v[1])
    if k == "n":
        return None
    if k == "f":
        return float(v[1])
    if k == "t":
        return tf.build(v[1])
    raise ValueError(v)


def py_arg(a):
    if a[0] == "v":
        return py_value(a[1])
    vals = [py_value(x) for x in a[2]]
    return {"tuple": tuple, "list": list, "set": set}[a[1]](vals)


def set_order(a):
    """iteration order of the Python set built for a ["seq","set",...] argument (values must be hashable literals)"""
    return list(set(py_value(x) for x in a[2]))


def py_colarg(c, table):
    from pypika import Field
    if c[0] == "s":
        return c[1]
    return Field(c[1], table=table if c[2] else None)


def py_colitem(i, table):
    if i[0] == "seq":
        return {"tuple": tuple, "list": list}[i[1]]([py_colarg(c, table) for c in i[2]])
    return py_colarg(i, table)


LIT_KINDS = ("vali", "vals", "valf")


def build_crit(t):
    """a criterion spec -> pypika object, going through the PUBLIC api where there is one: a membership test over literal
    values is built by Term.isin(list) / Term.notin(list) (which wrap the values themselves; an EMPTY list included),
    AND/OR/NOT recurse; everything else is the terms family's constructor-level build.  On the unchanged tree the result
    is the same object tree as tf.build(t), which is what the Gallina side (tf.coq) describes."""
    import pypika.terms as T
    import pypika.enums as E
    k = t[0]
    if k == "in" and t[2][0] == "tuple" and t[2][2] is None and t[4] is None and all(x[0] in LIT_KINDS and x[2] is None for x in t[2][1]):
        vals = [int(x[1]) if x[0] == "vali" else (float(x[1]) if x[0] == "valf" else x[1]) for x in t[2][1]]
        term = tf.build(t[1])
        return term.notin(vals) if t[3] else term.isin(vals)
    if k == "cplx" and t[4] is None:
        return T.ComplexCriterion(getattr(E.Boolean, t[1] + "_"), build_crit(t[2]), build_crit(t[3]))
    if k == "not" and t[2] is None:
        return T.Not(build_crit(t[1]))
    return tf.build(t)


VIAS = (None, "factory", "query_cls")


def start_builder(case, calls=()):
    """-> (builder, table, calls still to apply).  case["via"] chooses the public spelling of the statement starter:
    None: Q.into(t) / Q.update(t) / Q.from_(t).delete();  "factory": t = Q.Table(name);  "query_cls": t = Table(name,
    query_cls=Q) — and then t.insert(*args) (which IS the first insert call), t.update(), Q.from_(t).delete()."""
    from pypika import Table
    Q = qclass(case["cls"])
    kind, tname = case["start"]
    via = case.get("via")
    if via not in VIAS:
        raise ValueError("unknown statement-starter spelling %r" % (via,))
    calls = list(calls)
    if via == "factory":
        tbl = Q.Table(tname)
    elif via == "query_cls":
        tbl = Table(tname, query_cls=Q)
    else:
        tbl = Table(tname)
    if kind == "builder":      # nothing chosen yet: into() / from_() / select() come as calls
        return Q._builder(), tbl, calls
    if kind == "into":
        if via and calls and calls[0][0] == "insert":
            return tbl.insert(*[py_arg(a) for a in calls[0][1]]), tbl, calls[1:]
        return Q.into(tbl), tbl, calls
    if kind == "update":
        return (tbl.update() if via else Q.update(tbl)), tbl, calls
    return Q.from_(tbl).delete(), tbl, calls


def apply_calls(q, tbl, calls):
    from pypika import Table
    for call in calls:
        k = call[0]
        if k == "columns":
            q = q.columns(*[py_colitem(i, tbl) for i in call[1]])
        elif k == "insert":
            q = q.insert(*[py_arg(a) for a in call[1]])
        elif k == "replace":
            q = q.replace(*[py_arg(a) for a in call[1]])
        elif k == "ior":
            q = q.insert_or_replace(*[py_arg(a) for a in call[1]])
        elif k == "set":
            q = q.set(py_colarg(call[1], tbl), py_value(call[2]))
        elif k == "fromselect":
            q = q.from_(Table(call[1])).select(*[tf.build(t) for t in call[2]])
        elif k == "where":
            q = q.where(build_crit(call[1]))
        elif k == "limit":
            q = q.limit(call[1])
        elif k == "retarget":      # q.replace_table(Table(old), Table(new)) with a Table that EQUALS the target but is another object
            q = q.replace_table(Table(call[1]), Table(call[2]))
        elif k == "into":
            q = q.into(tbl if call[1] == tbl._table_name else Table(call[1]))
        elif k == "from":
            q = q.from_(Table(call[1]))
        elif k == "select":
            q = q.select(*[tf.build(t) for t in call[1]])
        else:
            raise ValueError(k)
    return q


def build(case):
    q, tbl, rest = start_builder(case, case["calls"])
    return apply_calls(q, tbl, rest)


def cell_dump(x):
    n = type(x).__name__
    return (n if n in KINDS else "Term") + ":" + x.get_sql(**CTX)


def dump(q):
    return {
        "cols": [c.get_sql(with_namespace=True, **CTX) for c in q._columns],
        "vals": [[cell_dump(x) for x in row] for row in q._values],
        "upds": [[f.get_sql(with_namespace=True, **CTX), cell_dump(v)] for f, v in q._updates],
        "replace": bool(q._replace),
        "ior": bool(q.__dict__.get("_insert_or_replace", False)),
    }


def observe(q):
    out = {}
    try:
        out["dump"] = dump(q)
    except Exception as e:  # noqa
        out["dump_exc"] = type(e).__name__
    try:
        out["text"] = str(q)
    except Exception as e:  # noqa
        out["text_exc"] = type(e).__name__
    return out


def run_b(case):
    try:
        q = build(case)
    except Exception as e:  # noqa
        return {"build_exc": type(e).__name__}
    return observe(q)


def run_f(case):
    """a fork: the prefix is built once and KEPT; every branch is derived from that one object; the prefix is
    observed again afterwards"""
    try:
        q0, tbl, rest = start_builder(case, case["prefix"])
        q0 = apply_calls(q0, tbl, rest)
    except Exception as e:  # noqa
        return {"build_exc": type(e).__name__}
    out = {"before": observe(q0), "branches": []}
    for br in case["branches"]:
        try:
            out["branches"].append(observe(apply_calls(q0, tbl, br)))
        except Exception as e:  # noqa
            out["branches"].append({"build_exc": type(e).__name__})
    out["after"] = observe(q0)
    return out


# ---------------------------------------------------------------------------------------------
# Gallina side
# ---------------------------------------------------------------------------------------------
def tref(name):
    return "{| tname := %s; tschema := []; talias := None |}" % S(name)


def coq_value(v, from_py=None):
    k = v[0]
    if k == "s":
        return "(VStr %s)" % S(v[1])
    if k == "i":
        return "(VInt %s)" % Zc(v[1])
    if k == "b":
        return "(VBool %s)" % B(v[1])
    if k == "n":
        return "VNone"
    if k == "f":
        return "(VFloat %s)" % S(str(float(v[1])))
    if k == "t":
        return "(VTerm %s)" % tf.coq(v[1])
    raise ValueError(v)


def inv_value(x):
    """Python value -> value spec (for the reported iteration order of a set)"""
    if x is None:
        return ["n"]
    if isinstance(x, bool):
        return ["b", x]
    if isinstance(x, int):
        return ["i", x]
    if isinstance(x, float):
        return ["f", repr(x)]
    return ["s", x]


def coq_arg(a):
    if a[0] == "v":
        return "(AVal %s)" % coq_value(a[1])
    if a[1] == "set":
        return "(ASeq SqSet %s)" % L([coq_value(inv_value(x)) for x in set_order(a)])
    return "(ASeq %s %s)" % ({"tuple": "SqTuple", "list": "SqList"}[a[1]], L([coq_value(x) for x in a[2]]))


def coq_colarg(c, tname):
    if c[0] == "s":
        return "(CStr %s)" % S(c[1])
    return "(CFld (TField %s %s None))" % (S(c[1]), "(Some %s)" % tref(tname) if c[2] else "None")


def coq_colitem(i, tname):
    if i[0] == "seq":
        return "(ColSeq %s)" % L([coq_colarg(c, tname) for c in i[2]])
    return "(ColOne %s)" % coq_colarg(i, tname)


def coq_call(call, tname):
    k = call[0]
    if k == "columns":
        return "(KColumns %s)" % L([coq_colitem(i, tname) for i in call[1]])
    if k in ("insert", "replace", "ior"):
        return "(%s %s)" % ({"insert": "KInsert", "replace": "KReplace", "ior": "KInsertOrReplace"}[k], L([coq_arg(a) for a in call[1]]))
    if k == "set":
        return "(KSet %s %s)" % (coq_colarg(call[1], tname), coq_value(call[2]))
    if k == "fromselect":
        return "(KFromSelect %s %s)" % (tref(call[1]), L([tf.coq(t) for t in call[2]]))
    if k == "where":
        return "(KWhere %s)" % tf.coq(call[1])
    if k == "limit":
        return "(KLimit %s)" % Zc(call[1])
    if k == "into":
        return "(KInto %s)" % tref(call[1])
    if k == "from":
        return "(KFrom %s)" % tref(call[1])
    if k == "select":
        return "(KSel %s)" % L([tf.coq(t) for t in call[1]])
    raise ValueError(k)


def modelled(case):
    """shapes the model declares unmodelled (Err "unmodelled") are not sent to the correspondence check"""
    for call in case["calls"]:
        if call[0] == "retarget":      # replace_table on the builder is C15's model; here it is judged by the engine only
            return False
        if call[0] == "columns":
            items = call[1]
            if items and items[0][0] != "seq" and any(i[0] == "seq" for i in items[1:]):
                return False
        if call[0] in ("insert", "replace", "ior"):
            args = call[1]
            if args and args[0][0] == "v" and any(a[0] == "seq" and a[1] == "set" for a in args):
                return False
            for a in args:
                if a[0] == "seq" and a[1] == "set" and any(x[0] == "t" for x in a[2]):
                    return False
    return True


def coq_b(case, outcome, calls=None):
    kind, tname = case["start"]
    start = {"into": "SInto", "update": "SUpdate", "delete": "SDelete", "builder": "SBuilder"}[kind]
    calls = L([coq_call(c, tname) for c in (case["calls"] if calls is None else calls)])
    if "build_exc" in outcome:
        built, txt = '(Err %s)' % S(outcome["build_exc"]), '(Err "")'
    else:
        if "dump_exc" in outcome:
            return None
        d = outcome["dump"]
        built = "(Ok (mkDump %s %s %s %s %s))" % (
            L([S(x) for x in d["cols"]]), L([L([S(x) for x in row]) for row in d["vals"]]),
            L([P(S(a), S(b)) for a, b in d["upds"]]), B(d["replace"]), B(d["ior"]))
        txt = "(Ok %s)" % S(outcome["text"]) if "text" in outcome else "(Err %s)" % S(outcome["text_exc"])
    st = "SBuilder" if kind == "builder" else "(%s %s)" % (start, tref(tname))
    return "(CaseB %s %s %s %s %s)" % (qf.CLS_CTOR[case["cls"]], st, calls, built, txt)


def coq_f(case, outcome):
    """every branch is, for the (pure) model, the linear call list prefix ++ branch; the prefix afterwards is the prefix"""
    if "build_exc" in outcome:
        return coq_b(case, outcome, calls=case["prefix"])
    parts = []
    for br, o in zip(case["branches"], outcome["branches"]):
        parts.append(coq_b(case, o, calls=case["prefix"] + br))
    parts.append(coq_b(case, outcome["after"], calls=case["prefix"]))
    if any(x is None for x in parts):
        return None
    return "(CaseF %s)" % L(parts)


def coq_q(case, outcome):
    return "(CaseQ %s %s)" % (qf.coq_query(case["spec"]), S(outcome["text"]))
