"""C05 engine half: apply pypika's statement and a reference effect written WITHOUT pypika (explicit, fully
parenthesised SQL whose data values are bound as parameters) to two copies of a seeded in-memory SQLite database and
compare the contents of every table."""
import random
import sqlite3

TABLES = {
    "t": ('CREATE TABLE "t" ("id" INTEGER PRIMARY KEY, "a", "b", "c" TEXT, "d" REAL)', ["id", "a", "b", "c", "d"]),
    "u": ('CREATE TABLE "u" ("id" INTEGER PRIMARY KEY, "x", "y", "z")', ["id", "x", "y", "z"]),
    "k": ('CREATE TABLE "k" ("a" UNIQUE, "b", "c")', ["a", "b", "c"]),
    # numeric table for the arithmetic grammar: rows of small, pairwise different, non-commuting primes, so that the two
    # readings of every (outer operator, side, inner operator) triple differ in value on some row
    "n": ('CREATE TABLE "n" ("id" INTEGER PRIMARY KEY, "p", "q", "r", "w")', ["id", "p", "q", "r", "w"]),
    # shares the column names id / a with t: an unqualified correlated reference binds to the wrong table
    "s": ('CREATE TABLE "s" ("id" INTEGER PRIMARY KEY, "tid", "x", "a")', ["id", "tid", "x", "a"]),
}
N_ROWS = [(1, 7, 3, 2, 0), (2, 11, 5, 3, 1), (3, 13, 2, 7, 5), (4, 5, 11, 3, 2), (5, 17, 13, 19, 3), (6, 23, 29, 31, 4)]
STR_POOL = ["abc", "x", "it's", "", "2020-01-01", "é✓", "a,b),(c", "--c", "/*x*/", "l1\nl2", "back\\slash", 'say "hi"', "%x_", " ",
            "C:\\data\\", "\\", "{x}", "100%"]
INT_POOL = [0, 1, 2, 3, 7, 10, -1, -5, 42, 10 ** 12]
FLOAT_POOL = [1.5, -2.25, 0.1, 1e20, 3.0]


def seed_rows(seed):
    r = random.Random("c05-db-%d" % seed)

    def val():
        x = r.random()
        if x < 0.2:
            return None
        if x < 0.6:
            return r.choice(INT_POOL[:8])
        if x < 0.9:
            return r.choice(STR_POOL[:6])
        return r.choice(FLOAT_POOL)
    t = [(i + 1, r.choice([1, 2, 2, 3, None, 7]), val(), r.choice(["abc", "x", None, "it's", "5", "C:\\data\\", "\\"]), r.choice([1.5, None, 3.0, -2.25]))
         for i in range(r.choice([5, 6, 8]))]
    t.append(t[1][:0] + (len(t) + 1,) + t[1][1:])          # a duplicate of row 2 (apart from the key)
    t.append((len(t) + 1, 2, "\\", "C:\\data\\", 1.5))       # strings ending in a backslash are data like any other
    u = [(i + 1, r.choice([1, 2, 3, 10]), val(), val()) for i in range(r.choice([3, 4, 6]))]
    u.append((len(u) + 1,) + u[0][1:])
    k = [(a, val(), val()) for a in r.sample([1, 2, 3, "abc", "x", 7], 4)] + [(None, 1, None), (None, 1, None)]
    nt = len(t)
    sr = [(i + 1, r.choice([1, 2, 3, nt, nt + 3]), r.choice([-1, 0, 1, 2, 5]), r.choice([1, 2, 3, None])) for i in range(r.choice([4, 5, 7]))]
    sr.append((len(sr) + 1, 2, 5, 2))
    return {"t": t, "u": u, "k": k, "n": list(N_ROWS), "s": sr}


_TEMPLATES = {}


def fresh_db(seed):
    """a private copy of the seeded database (built once per seed, then copied with the backup API)"""
    tpl = _TEMPLATES.get(seed)
    if tpl is None:
        tpl = sqlite3.connect(":memory:")
        rows = seed_rows(seed)
        for name, (ddl, cols) in TABLES.items():
            tpl.execute(ddl)
            tpl.executemany('INSERT INTO "%s" VALUES (%s)' % (name, ",".join("?" * len(cols))), rows[name])
        tpl.commit()
        _TEMPLATES[seed] = tpl
    c = sqlite3.connect(":memory:")
    tpl.backup(c)
    return c


def snapshot(c):
    return {name: c.execute('SELECT rowid, * FROM "%s" ORDER BY rowid' % name).fetchall() for name in TABLES}


def show(rows):
    return [[[type(v).__name__, repr(v)] for v in row] for row in rows[:12]]


def cell_equal(x, y, tol):
    """tol = 0: same Python type and same value (what a literal must satisfy).  tol > 0 (the statement computes with
    expressions): numbers are compared by value up to a relative tolerance, because the renderer may re-associate
    x+(y-z) / x*(y*z) — identities C02's statement allows — which changes the last bits of a floating-point result
    (or whether an intermediate integer overflow turned it into a REAL)."""
    if tol and isinstance(x, (int, float)) and isinstance(y, (int, float)):
        fx, fy = float(x), float(y)
        return fx == fy or abs(fx - fy) <= tol * max(1.0, abs(fx), abs(fy))
    if tol and isinstance(x, str) and isinstance(y, str) and x != y:
        # a computed number stored in a TEXT-affinity column is its decimal text
        try:
            fx, fy = float(x), float(y)
        except ValueError:
            return False
        return fx == fy or abs(fx - fy) <= tol * max(1.0, abs(fx), abs(fy))
    return type(x) is type(y) and x == y


def row_equal(r1, r2, tol):
    if r1 is None or r2 is None:
        return r1 is None and r2 is None
    return len(r1) == len(r2) and all(cell_equal(x, y, tol) for x, y in zip(r1, r2))


def rows_equal(a, b, tol):
    return len(a) == len(b) and all(row_equal(x, y, tol) for x, y in zip(a, b))


def state_equal(sa, sb, tol):
    return all(rows_equal(sa[t], sb[t], tol) for t in TABLES)


def has_expression(spec):
    return (spec["kind"] == "update" and any(v[0] == "t" for _, v in spec["sets"])) or \
           (spec["kind"] == "insert-select" and any(t[0] != "field" for t in spec["sels"])) or \
           (spec["kind"] == "insert" and any(v[0] == "t" for row in spec["rows"] for v in row))


# ---------------------------------------------------------------------------------------------
# explicit texts (no pypika): every operator application parenthesised, every data value a bound parameter
# ---------------------------------------------------------------------------------------------
class NotJudged(Exception):
    pass


CMPS = {"eq": "=", "ne": "<>", "gt": ">", "gte": ">=", "lt": "<", "lte": "<=", "like": "LIKE", "not_like": "NOT LIKE", "glob": "GLOB"}
ARITH = {"add": "+", "sub": "-", "mul": "*", "div": "/"}


def explicit(t, params):
    k = t[0]
    if k == "field":
        if t[2] is not None and (t[2][1] or t[2][2]):
            raise NotJudged("schema / alias")
        if t[2] is not None:       # bound to a table: the reference always says which one
            return '"%s"."%s"' % (t[2][0].replace('"', '""'), t[1].replace('"', '""'))
        return '"%s"' % t[1].replace('"', '""')
    if k == "vali":
        params.append(int(t[1]))
        return "?"
    if k == "vals":
        if "\x00" in t[1]:
            raise NotJudged("NUL")
        params.append(t[1])
        return "?"
    if k == "valb":
        params.append(bool(t[1]))
        return "?"
    if k in ("valnone", "null"):
        return "NULL"
    if k == "valf":
        params.append(float(t[1]))
        return "?"
    if k == "neg":
        return "(- %s)" % explicit(t[1], params)
    if k == "sub":      # the terms family's fixed scalar sub-query  Query.from_("u").select("x")
        return '(SELECT "x" FROM "u")'
    if k == "arith":
        if t[1] not in ARITH:
            raise NotJudged("operator")
        a = explicit(t[2], params)
        b = explicit(t[3], params)
        return "(%s %s %s)" % (a, ARITH[t[1]], b)
    if k == "basic":
        if t[1] not in CMPS:
            raise NotJudged("comparison")
        a = explicit(t[2], params)
        b = explicit(t[3], params)
        return "(%s %s %s)" % (a, CMPS[t[1]], b)
    if k == "cplx":
        if t[1] not in ("and", "or"):
            raise NotJudged("xor")
        a = explicit(t[2], params)
        b = explicit(t[3], params)
        return "(%s %s %s)" % (a, t[1].upper(), b)
    if k == "not":
        return "(NOT %s)" % explicit(t[1], params)
    if k == "isnull":
        return "(%s IS NULL)" % explicit(t[1], params)
    if k == "notnull":
        return "(%s IS NOT NULL)" % explicit(t[1], params)
    if k == "in":
        if t[2][0] != "tuple":
            raise NotJudged("container")
        if not t[2][1]:
            # membership in the EMPTY list: no row qualifies / every row qualifies (NULL operands included)
            return "(1)" if t[3] else "(0)"
        a = explicit(t[1], params)
        items = [explicit(x, params) for x in t[2][1]]
        return "(%s %sIN (%s))" % (a, "NOT " if t[3] else "", ", ".join(items))
    if k == "between":
        a = explicit(t[1], params)
        b = explicit(t[2], params)
        c = explicit(t[3], params)
        return "(%s BETWEEN %s AND %s)" % (a, b, c)
    if k == "case":
        if not t[1]:
            raise NotJudged("case without when")
        parts = []
        for c, v in t[1]:
            cc = explicit(c, params)
            vv = explicit(v, params)
            parts.append("WHEN %s THEN %s" % (cc, vv))
        sql = "(CASE " + " ".join(parts)
        if t[2] is not None:
            sql += " ELSE %s" % explicit(t[2], params)
        return sql + " END)"
    if k == "func" and t[1] in ("ABS", "COALESCE", "LENGTH", "UPPER", "MAX", "MIN", "COUNT") and t[2]:
        return "%s(%s)" % (t[1], ", ".join(explicit(x, params) for x in t[2]))
    raise NotJudged(k)


def pyvalue(v):
    """harness value spec -> Python value to bind"""
    k = v[0]
    if k == "s":
        if "\x00" in v[1]:
            raise NotJudged("NUL")
        return v[1]
    if k == "i":
        if not -2 ** 63 <= int(v[1]) < 2 ** 63:
            raise NotJudged("int64")
        return int(v[1])
    if k == "b":
        return bool(v[1])
    if k == "n":
        return None
    if k == "f":
        f = float(v[1])
        if f != f or f in (float("inf"), float("-inf")):
            raise NotJudged("non-finite float (C03)")
        return f
    raise NotJudged("term value")


def explicit_sub(sub, params):
    """{"from": table, "selects": [term], "where": term|None} -> explicit SELECT"""
    sql = "SELECT %s FROM %s" % (", ".join("(%s)" % explicit(x, params) for x in sub["selects"]), qid(sub["from"]))
    if sub.get("where") is not None:
        sql += " WHERE " + explicit(sub["where"], params)
    return sql


def explicit_item(it, params):
    """criterion items that may hold sub-queries: ["t", term] | ["in", term, sub, neg] | ["exists", sub, neg] |
    ["cmp", op, term, sub] | ["cplx", "and"/"or", item, item]"""
    k = it[0]
    if k == "t":
        return explicit(it[1], params)
    if k == "in":
        a = explicit(it[1], params)
        return "(%s %sIN (%s))" % (a, "NOT " if it[3] else "", explicit_sub(it[2], params))
    if k == "exists":
        return "(%sEXISTS (%s))" % ("NOT " if it[2] else "", explicit_sub(it[1], params))
    if k == "cmp":
        a = explicit(it[2], params)
        return "(%s %s (%s))" % (a, CMPS[it[1]], explicit_sub(it[3], params))
    if k == "cplx":
        a = explicit_item(it[2], params)
        b = explicit_item(it[3], params)
        return "(%s %s %s)" % (a, it[1].upper(), b)
    raise NotJudged(k)


def where_sql(spec, params):
    if spec.get("where_item") is not None:
        return explicit_item(spec["where_item"], params)
    if spec.get("where") is not None:
        return explicit(spec["where"], params)
    return None


def qid(n):
    return '"%s"' % n.replace('"', '""')


def reference(spec):
    """spec (see harness/c05/gen.py: the positional summary of the call list) -> (sql, params)"""
    kind = spec["kind"]
    params = []
    if kind in ("insert", "insert-select"):
        verb = {"insert": "INSERT INTO", "replace": "REPLACE INTO", "ior": "INSERT OR REPLACE INTO"}[spec["mode"]]
        head = "%s %s" % (verb, qid(spec["table"]))
        if spec["cols"]:
            head += " (%s)" % ", ".join(qid(c) for c in spec["cols"])
        if kind == "insert":
            groups = []
            for row in spec["rows"]:
                cells = []
                for v in row:
                    if v[0] == "t":
                        cells.append(explicit(v[1], params))
                    else:
                        params.append(pyvalue(v))
                        cells.append("?")
                groups.append("(%s)" % ", ".join(cells))
            return head + " VALUES " + ", ".join(groups), params
        sels = ", ".join("(%s)" % explicit(s, params) for s in spec["sels"])
        sql = "%s SELECT %s FROM %s" % (head, sels, ", ".join(qid(f) for f in spec["from"]))
        if spec.get("where") is not None:
            sql += " WHERE " + explicit(spec["where"], params)
        if spec.get("limit") is not None:
            sql += " LIMIT %d" % int(spec["limit"])
        return sql, params
    if kind == "update":
        sets = []
        for col, v in spec["sets"]:
            if v[0] == "t":
                sets.append("%s = %s" % (qid(col), explicit(v[1], params)))
            else:
                params.append(pyvalue(v))
                sets.append("%s = ?" % qid(col))
        sql = "UPDATE %s SET %s" % (qid(spec["table"]), ", ".join(sets))
        w = where_sql(spec, params)
        if spec.get("limit") is not None:
            sql += " WHERE rowid IN (SELECT rowid FROM %s%s ORDER BY rowid LIMIT %d)" % (
                qid(spec["table"]), "" if w is None else " WHERE " + w, int(spec["limit"]))
        elif w is not None:
            sql += " WHERE " + w
        return sql, params
    if kind == "delete":
        sql = "DELETE FROM %s" % qid(spec["table"])
        w = where_sql(spec, params)
        if spec.get("limit") is not None:
            sql += " WHERE rowid IN (SELECT rowid FROM %s%s ORDER BY rowid LIMIT %d)" % (
                qid(spec["table"]), "" if w is None else " WHERE " + w, int(spec["limit"]))
        elif w is not None:
            sql += " WHERE " + w
        return sql, params
    raise NotJudged(kind)


def _rows(c, table):
    return {r[0]: r for r in c.execute('SELECT rowid, * FROM "%s" ORDER BY rowid' % table).fetchall()}


def limited(text, spec, seed):
    """UPDATE/DELETE ... LIMIT n: WHICH n matching rows are taken is the engine's choice (no ORDER BY), so the check is:
    every row is either untouched or exactly as the un-limited reference effect leaves it, at most n rows are touched,
    for DELETE exactly min(n, #matching) rows are gone, and every other table is untouched."""
    n = int(spec["limit"])
    full = dict(spec)
    del full["limit"]
    ref_sql, ref_params = reference(full)
    a, b, o = fresh_db(seed), fresh_db(seed), fresh_db(seed)
    try:
        out = {"reference": ref_sql + "   -- limited to any %d of the rows it touches" % n, "reference_params": [repr(p) for p in ref_params]}
        try:
            b.execute(ref_sql, ref_params)
            b.commit()
        except sqlite3.Error as e:
            return {"verdict": "not-judged", "why": "reference rejected: %s" % e}
        try:
            a.execute(text)
            a.commit()
        except (sqlite3.Error, sqlite3.Warning) as e:
            out.update(verdict="rejected", error="%s: %s" % (type(e).__name__, e))
            return out
        tb = spec["table"]
        tol = 1e-9 if has_expression(spec) else 0
        sa, so = snapshot(a), snapshot(o)
        for other in TABLES:
            if other != tb and not rows_equal(sa[other], so[other], 0):
                out.update(verdict="state-differs", table=other, got=show(sa[other]), expected=show(so[other]))
                return out
        ra, rb, ro = _rows(a, tb), _rows(b, tb), _rows(o, tb)
        touched = 0
        for rid, orig in ro.items():
            got, ref = ra.get(rid), rb.get(rid)
            if row_equal(got, orig, 0):
                continue
            touched += 1
            if not row_equal(got, ref, tol):
                out.update(verdict="state-differs", table=tb, got=[repr(got)], expected=[repr(ref), "or untouched", repr(orig)])
                return out
        extra = [rid for rid in ra if rid not in ro]
        want = None
        if spec["kind"] == "delete":
            want = min(n, len([rid for rid in ro if rid not in rb]))
        if extra or touched > n or (want is not None and touched != want):
            out.update(verdict="state-differs", table=tb, got=["%d rows touched" % touched] + [repr(ra[r]) for r in extra],
                       expected=["at most %d" % n if want is None else "exactly %d" % want])
            return out
        out["verdict"] = "same"
        return out
    finally:
        a.close()
        b.close()
        o.close()


def differential(text, spec, seed):
    """-> dict(verdict=same|rejected|state-differs|reference-rejected|not-judged, ...)"""
    if "\x00" in text:
        return {"verdict": "not-judged", "why": "NUL"}
    try:
        if spec.get("limit") is not None and spec["kind"] in ("update", "delete"):
            return limited(text, spec, seed)
        ref_sql, ref_params = reference(spec)
    except NotJudged as e:
        return {"verdict": "not-judged", "why": str(e)}
    a, b = fresh_db(seed), fresh_db(seed)
    try:
        ref_err = got_err = None
        try:
            b.execute(ref_sql, ref_params)
            b.commit()
        except (sqlite3.Error, OverflowError) as e:
            ref_err = "%s: %s" % (type(e).__name__, e)
            b.rollback()
        try:
            a.execute(text)
            a.commit()
        except (sqlite3.Error, sqlite3.Warning) as e:      # Warning: "You can only execute one statement at a time."
            got_err = "%s: %s" % (type(e).__name__, e)
            a.rollback()
        sa, sb = snapshot(a), snapshot(b)
        same = state_equal(sa, sb, 1e-9 if has_expression(spec) else 0)
        out = {"reference": ref_sql, "reference_params": [repr(p) for p in ref_params]}
        if got_err and ref_err:
            # both rejected (constraint, arity): consistent as long as nothing changed on either side
            out["verdict"] = "same" if same else "state-differs"
            out["both_rejected"] = [got_err, ref_err]
        elif got_err:
            out["verdict"] = "rejected"
            out["error"] = got_err
        elif ref_err:
            out["verdict"] = "reference-rejected"
            out["error"] = ref_err
        else:
            out["verdict"] = "same" if same else "state-differs"
        if out["verdict"] == "state-differs":
            for tname in sa:
                if not rows_equal(sa[tname], sb[tname], 1e-9 if has_expression(spec) else 0):
                    out["table"] = tname
                    out["got"] = show(sa[tname])
                    out["expected"] = show(sb[tname])
                    break
        return out
    finally:
        a.close()
        b.close()
