"""C04 extraction (fail-closed ast walk of pypika/queries.py) -> coq/gen/C04Table.v:
 * the ordered clause-renderer calls of the SELECT path of QueryBuilder.get_sql, each with the attribute guarding it;
 * for every clause renderer, the keyword arguments it passes on to its items (with_alias / subquery literals, whether
   with_namespace is forwarded) and the separator it joins its items with;
 * the guards of _apply_pagination.
Anything the walk does not recognise raises (the driver then poisons the generated file)."""
import ast
import os

from harness.lib import REPO, S, L, P, B


def _src():
    return open(os.path.join(REPO, "pypika", "queries.py")).read()


def _method(tree, cname, mname):
    for n in tree.body:
        if isinstance(n, ast.ClassDef) and n.name == cname:
            for m in n.body:
                if isinstance(m, ast.FunctionDef) and m.name == mname:
                    return m
    raise RuntimeError("%s.%s not found" % (cname, mname))


def _self_attr(e):
    """self._x -> '_x'"""
    if isinstance(e, ast.Attribute) and isinstance(e.value, ast.Name) and e.value.id == "self":
        return e.attr
    return None


def _calls_in(node):
    """clause-renderer calls inside an expression / statement, in source order"""
    out = []
    loopvars = {}
    for n in ast.walk(node):
        if isinstance(n, ast.GeneratorExp) and len(n.generators) == 1 and isinstance(n.generators[0].target, ast.Name):
            it = _self_attr(n.generators[0].iter)
            if it:
                loopvars[n.generators[0].target.id] = it
    for n in ast.walk(node):
        if isinstance(n, ast.Call) and isinstance(n.func, ast.Attribute):
            if _self_attr(n.func) and (n.func.attr.endswith("_sql") or n.func.attr == "_apply_pagination"):
                out.append((n.lineno, n.col_offset, n.func.attr))
            elif n.func.attr == "get_sql" and isinstance(n.func.value, ast.Name) and loopvars.get(n.func.value.id) == "_joins":
                out.append((n.lineno, n.col_offset, "join.get_sql"))
        if isinstance(n, ast.Call) and isinstance(n.func, ast.Name) and n.func.id == "format_alias_sql":
            out.append((n.lineno, n.col_offset, "format_alias_sql"))
    return [c for _, _, c in sorted(out)]


def _guard(test):
    a = _self_attr(test)
    if a:
        return a
    if isinstance(test, ast.Name):
        return test.id
    if isinstance(test, ast.Compare) and len(test.ops) == 1 and isinstance(test.ops[0], ast.IsNot) and _self_attr(test.left):
        return _self_attr(test.left) + " is not None"
    raise RuntimeError("guard not understood at line %d: %s" % (test.lineno, ast.dump(test)[:200]))


ACC = ["querystring", "kwargs"]     # names of the accumulator variable and of the ** parameter (set by select_path)


def _linear(stmts, guard, out):
    """linearise a statement list: (guard, call) in execution order; raise on anything unexpected"""
    for s in stmts:
        if isinstance(s, ast.If):
            g = _guard(s.test)
            _linear(s.body, g if not guard else guard + " & " + g, out)
            if s.orelse:
                raise RuntimeError("unexpected else at line %d" % s.lineno)
        elif isinstance(s, (ast.AugAssign, ast.Assign)):
            tgt = s.target if isinstance(s, ast.AugAssign) else s.targets[0]
            if isinstance(tgt, ast.Name) and tgt.id == ACC[0]:
                cs = _calls_in(s.value)
                if not cs:
                    if isinstance(s.value, ast.Call) and isinstance(s.value.func, ast.Attribute) and s.value.func.attr == "format":
                        out.append((guard, "(parenthesise)"))
                    elif isinstance(s.value, ast.Constant) and s.value.value == "":
                        pass
                    else:
                        raise RuntimeError("assignment to querystring not understood at line %d" % s.lineno)
                for c in cs:
                    out.append((guard, c))
            elif isinstance(tgt, ast.Subscript) and isinstance(tgt.value, ast.Name) and tgt.value.id == ACC[1]:
                pass
            else:
                raise RuntimeError("assignment not understood at line %d" % s.lineno)
        elif isinstance(s, ast.Return):
            for c in _calls_in(s):
                out.append((guard, c))
        else:
            raise RuntimeError("statement not understood at line %d: %s" % (s.lineno, type(s).__name__))


def select_path():
    tree = ast.parse(_src())
    g = _method(tree, "QueryBuilder", "get_sql")
    body = list(g.body)
    rets = [x for x in body if isinstance(x, ast.Return) and isinstance(x.value, ast.Name)]
    if len(rets) != 1 or g.args.kwarg is None:
        raise RuntimeError("QueryBuilder.get_sql: final return / ** parameter not found")
    ACC[0], ACC[1] = rets[0].value.id, g.args.kwarg.arg
    # prologue: _set_kwargs_defaults, three early returns, the five has_* assignments, kwargs["with_namespace"] = any([...])
    i = 0
    ns_terms = None
    while i < len(body):
        s = body[i]
        if isinstance(s, ast.If) and _self_attr(s.test) == "_update_table" and any(isinstance(x, ast.Return) for x in s.body):
            break
        if isinstance(s, ast.Assign) and isinstance(s.targets[0], ast.Subscript):
            key = s.targets[0].slice
            if isinstance(key, ast.Constant) and key.value == "with_namespace":
                call = s.value
                if not (isinstance(call, ast.Call) and isinstance(call.func, ast.Name) and call.func.id == "any"
                        and isinstance(call.args[0], ast.List)):
                    raise RuntimeError("with_namespace decision is not any([...])")
                ns_terms = [e.id for e in call.args[0].elts]
        i += 1
    if i == len(body) or ns_terms is None:
        raise RuntimeError("UPDATE branch / with_namespace decision of QueryBuilder.get_sql not found")
    # what each has_* name means
    has = {}
    for s in body[:i]:
        if isinstance(s, ast.Assign) and isinstance(s.targets[0], ast.Name) and s.targets[0].id.startswith("has_"):
            has[s.targets[0].id] = ast.unparse(s.value)
    rest = body[i + 1:]
    chain = rest[0]
    if not (isinstance(chain, ast.If) and _self_attr(chain.test) == "_delete_from"):
        raise RuntimeError("DELETE / INSERT / SELECT chain not found")
    ins = chain.orelse
    if not (len(ins) == 1 and isinstance(ins[0], ast.If)):
        raise RuntimeError("INSERT branch not found")
    sel_branch = ins[0].orelse
    out = []
    # the SELECT branch: if self._with: querystring = self._with_sql(..) else: querystring = ""
    for s in sel_branch:
        if isinstance(s, ast.If) and _self_attr(s.test) == "_with":
            _linear(s.body, "_with", out)
            _linear(s.orelse, "", [])
        else:
            _linear([s], "", out)
    _linear(rest[1:], "", out)
    return out, [(n, has[n]) for n in ns_terms]


KNOWN_ITEM_KW = {"with_alias", "subquery", "quote_char", "alias_quote_char", "with_namespace", "groupby_alias", "orderby_alias"}


def _item_call(fn, owner):
    """the get_sql call a clause renderer makes on its items: (with_alias, subquery, forwards with_namespace, separator)"""
    named = [a.arg for a in fn.args.args[1:]] + [a.arg for a in fn.args.kwonlyargs]
    calls = [n for n in ast.walk(fn) if isinstance(n, ast.Call) and isinstance(n.func, ast.Attribute) and n.func.attr == "get_sql"
             and not (isinstance(n.func.value, ast.Call) and isinstance(n.func.value.func, ast.Name) and n.func.value.func.id == "super")]
    if not calls:
        raise RuntimeError("%s: no item get_sql call" % owner)
    sigs = set()
    for c in calls:
        kw = {}
        star = False
        for k in c.keywords:
            if k.arg is None:
                if not (isinstance(k.value, ast.Name) and fn.args.kwarg is not None and k.value.id == fn.args.kwarg.arg):
                    raise RuntimeError("%s: ** of something else than kwargs" % owner)
                star = True
            elif k.arg in ("with_alias", "subquery"):
                if not isinstance(k.value, ast.Constant):
                    raise RuntimeError("%s: %s is not a literal" % (owner, k.arg))
                kw[k.arg] = bool(k.value.value)
            elif k.arg == "with_namespace":
                if isinstance(k.value, ast.Constant):
                    kw["with_namespace"] = "const"
                else:
                    kw["with_namespace"] = "named"
            elif k.arg in KNOWN_ITEM_KW:
                if not (isinstance(k.value, ast.Name) and k.value.id == k.arg):
                    raise RuntimeError("%s: %s is not passed through" % (owner, k.arg))
            else:
                raise RuntimeError("%s: unknown keyword %s" % (owner, k.arg))
        if c.args:
            raise RuntimeError("%s: positional arguments to get_sql" % owner)
        fwd = (star and "with_namespace" not in named and "with_namespace" not in kw) or kw.get("with_namespace") == "named"
        sigs.add((kw.get("with_alias", False), kw.get("subquery", False), fwd))
    if len(sigs) != 1:
        raise RuntimeError("%s: item get_sql calls disagree: %r" % (owner, sigs))
    seps = [n.func.value.value for n in ast.walk(fn) if isinstance(n, ast.Call) and isinstance(n.func, ast.Attribute)
            and n.func.attr == "join" and isinstance(n.func.value, ast.Constant) and isinstance(n.func.value.value, str)]
    return sigs.pop(), seps


RENDERERS = [("QueryBuilder", "_with_sql"), ("QueryBuilder", "_select_sql"), ("QueryBuilder", "_from_sql"),
             ("QueryBuilder", "_where_sql"), ("QueryBuilder", "_group_sql"), ("QueryBuilder", "_having_sql"),
             ("QueryBuilder", "_orderby_sql"), ("Join", "get_sql"), ("JoinOn", "get_sql"), ("JoinUsing", "get_sql")]


def pagination_guards():
    """informative only (pagination is C12's subject; no C04 lemma depends on it): guards are printed as source text"""
    tree = ast.parse(_src())
    fn = _method(tree, "QueryBuilder", "_apply_pagination")
    out = []
    for s in fn.body:
        if isinstance(s, ast.If):
            cs = _calls_in(s)
            if len(cs) != 1 or s.orelse:
                raise RuntimeError("_apply_pagination: branch not understood")
            out.append((ast.unparse(s.test), cs[0]))
        elif isinstance(s, ast.Return):
            if not (isinstance(s.value, ast.Name) and s.value.id == fn.args.args[1].arg):
                raise RuntimeError("_apply_pagination: return not understood")
        else:
            raise RuntimeError("_apply_pagination: statement not understood")
    return out


def distinct_text():
    """what _distinct_sql returns for _distinct True / False (read off a real builder)"""
    from pypika.dialects import SQLLiteQuery
    b = SQLLiteQuery._builder()
    off = b._distinct_sql()
    b._distinct = True
    return b._distinct_sql(), off


def table_text():
    tree = ast.parse(_src())
    path, ns = select_path()
    rows = []
    for cname, mname in RENDERERS:
        (wa, sq, fwd), seps = _item_call(_method(tree, cname, mname), cname + "." + mname)
        name = mname if cname == "QueryBuilder" else cname + "." + mname
        if name in ("_from_sql", "_with_sql", "Join.get_sql"):
            fwd = True        # the items are tables / statements: they ignore or recompute with_namespace
        rows.append((name, wa, sq, fwd, seps))
    d_on, d_off = distinct_text()
    out = ["(* GENERATED by harness/c04/extract.py from pypika/queries.py on every run. Do not edit. *)",
           "From PV Require Import Base.", "",
           "(* (guard attribute, clause renderer) in the order QueryBuilder.get_sql calls them on the SELECT path *)",
           "Definition x_select_path : list (string * string) :=\n  " + L([P(S(g), S(c)) for g, c in path]) + ".",
           "(* clause renderer -> (with_alias, subquery) literals passed to its items, is with_namespace forwarded, separators *)",
           "Definition x_item_flags : list (string * (bool * bool * bool) * list string) :=\n  "
           + L([P(S(n), P(B(wa), B(sq), B(fwd)), L([S(x) for x in seps])) for n, wa, sq, fwd, seps in rows]) + ".",
           "(* _apply_pagination: (guard, piece) in order *)",
           "Definition x_pagination : list (string * string) :=\n  " + L([P(S(g), S(c)) for g, c in pagination_guards()]) + ".",
           "(* _distinct_sql with the flag set / not set *)",
           "Definition x_distinct : string * string := %s." % P(S(d_on), S(d_off))]
    return "\n".join(out) + "\n"
