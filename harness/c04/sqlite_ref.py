"""C04 engine half: seeded SQLite databases, a reference renderer that turns a plain-data SELECT specification into
maximally explicit SQLite SQL WITHOUT using pypika, and the result-set comparison.

Specification format = the `queries` family format (harness/queries_family.py) restricted to SELECT, plus the
oracle-only term kind ["win", fname, [args], [partition], [[term, dir]], frame, alias] (window function).

Explicit means: every sub-expression parenthesised, every column qualified by a reference alias that this module gives
to every source (r1, r2, ...; unique over the whole statement, so no scoping rule of the engine is relied upon), AS
written for every named output column, join types spelled in full, ASC/DESC always written, clauses in standard order.
"""
import random
import sqlite3

INT_COLS = ["a", "b", "c", "id", "alias", "star"]    # "alias", "star": column names that are attributes of a pypika Selectable
COLS = INT_COLS + ["s"]
MAIN_TABLES = ["t", "u", "v", "orders", "cust", "t2", "t3"]     # t2 / t3: real tables named like the numbered alias of a re-joined t
SCHEMA_TABLES = {"s": ["w"]}          # ATTACH ':memory:' AS "s";  "s"."w"
N_DBS = 2
SUB_VALUE = 2          # value of the shared family's scalar sub-query SELECT "x" FROM "u" (see dbs())


class NotJudged(Exception):
    pass


# ----------------------------------------------------------------------------------------------
# databases
# ----------------------------------------------------------------------------------------------
_DBS = None


def _rows(rng, n):
    ints = [None, 0, 1, 1, 2, 2, 3, 5, -1, 7]
    strs = [None, "x", "abc", "it's", "x", "%x_", "b", "{name}", "{{name}}"]
    rows = [tuple([rng.choice(ints) for _ in INT_COLS] + [rng.choice(strs)]) for _ in range(n)]
    rows.append(rows[0])                                  # an exact duplicate
    rows.append(tuple([None] * len(COLS)))                # an all-NULL row
    rows.append(tuple([1, 2, 3, 1] + [1] * (len(INT_COLS) - 4) + ["x"]))   # one row common to every table (joins match)
    rng.shuffle(rows)
    return rows


def dbs():
    global _DBS
    if _DBS is None:
        _DBS = []
        for k in range(N_DBS):
            rng = random.Random("c04-db-%d" % k)
            db = sqlite3.connect(":memory:")
            db.execute("ATTACH DATABASE ':memory:' AS \"s\"")
            # "x" (the constant SUB_VALUE in every row) serves the fixed scalar sub-query of the shared term family,
            # SELECT "x" FROM "u": whichever row the engine takes, its value is the same
            coldef = ", ".join('"%s" %s' % (c, "TEXT" if c == "s" else "INTEGER") for c in COLS) + ', "x" INTEGER'
            for tb in MAIN_TABLES:
                db.execute('CREATE TABLE "%s" (%s)' % (tb, coldef))
                db.executemany('INSERT INTO "%s" VALUES (%s)' % (tb, ",".join("?" * (len(COLS) + 1))), [r + (SUB_VALUE,) for r in _rows(rng, 4 + k)])
            for sch, tbs in SCHEMA_TABLES.items():
                for tb in tbs:
                    db.execute('CREATE TABLE "%s"."%s" (%s)' % (sch, tb, coldef))
                    db.executemany('INSERT INTO "%s"."%s" VALUES (%s)' % (sch, tb, ",".join("?" * (len(COLS) + 1))), [r + (SUB_VALUE,) for r in _rows(rng, 4 + k)])
            db.commit()
            _DBS.append(db)
    return _DBS


def execute(db, sql):
    try:
        return ("ok", db.execute(sql).fetchall())
    except sqlite3.Error as e:
        return ("err", "%s: %s" % (type(e).__name__, e))
    except sqlite3.Warning as e:   # "You can only execute one statement at a time"
        return ("err", "%s: %s" % (type(e).__name__, e))


# ----------------------------------------------------------------------------------------------
# reference renderer
# ----------------------------------------------------------------------------------------------
CMP = {"eq": "=", "ne": "<>", "gt": ">", "gte": ">=", "lt": "<", "lte": "<=", "like": "LIKE", "not_like": "NOT LIKE",
       "glob": "GLOB"}
ARITH = {"add": "+", "sub": "-", "mul": "*", "div": "/", "lshift": "<<", "rshift": ">>"}
JOIN = {"inner": "INNER JOIN", "left": "LEFT OUTER JOIN", "right": "RIGHT OUTER JOIN", "outer": "FULL OUTER JOIN",
        "left_outer": "LEFT OUTER JOIN", "right_outer": "RIGHT OUTER JOIN", "full_outer": "FULL OUTER JOIN",
        "cross": "CROSS JOIN"}
EDGE = {"unbounded_preceding": "UNBOUNDED PRECEDING", "current": "CURRENT ROW", "unbounded_following": "UNBOUNDED FOLLOWING"}


def qi(name):
    return '"' + name.replace('"', '""') + '"'


def qs(s):
    return "'" + s.replace("'", "''") + "'"


def norm_rotate(t):
    """the re-association pypika's parenthesisation policy silently applies:  x*(y/z) -> (x*y)/z  (also x*(y*z), x+(y+z),
    x+(y-z), which are exact on integers).  Used only to CLASSIFY a difference, never to excuse one."""
    if not isinstance(t, list):
        return t
    t = [norm_rotate(x) if isinstance(x, list) else x for x in t]
    if t and t[0] == "arith" and t[1] == "mul" and isinstance(t[3], list) and t[3][0] == "arith" and t[3][1] == "div" \
            and t[3][4] is None:
        inner = t[3]
        return ["arith", "div", norm_rotate(["arith", "mul", t[2], inner[2], None]), inner[3], t[4]]
    return t


class Ref:
    def __init__(self, rotate=False):
        self.n = 0
        self.scopes = []      # innermost last; each a list of {"ref", "tref", "cols"}
        self.rotate = rotate

    def fresh(self):
        self.n += 1
        return "r%d" % self.n

    # ---- column references
    def column(self, name, tbl):
        if tbl is None:
            cur = self.scopes[-1]
            if len(cur) != 1:
                raise NotJudged("unbound field in a statement with %d sources" % len(cur))
            return "%s.%s" % (qi(cur[0]["ref"]), qi(name))
        tname, schema, alias = tbl
        if tname.startswith("#"):
            return "%s.%s" % (qi(self.scopes[-1][int(tname[1:])]["ref"]), qi(name))
        for scope in reversed(self.scopes):
            for src in scope:
                if src["tref"] is not None and src["tref"] == [tname, list(schema or []), alias]:
                    return "%s.%s" % (qi(src["ref"]), qi(name))
        raise NotJudged("field bound to a table that is not a source of any enclosing statement")

    # ---- terms
    def term(self, t):
        k = t[0]
        if k == "field":
            return self.column(t[1], t[2])
        if k == "vali":
            return "(%d)" % int(t[1])
        if k == "vals":
            return qs(t[1])
        if k == "valb":
            return "1" if t[1] else "0"
        if k == "null":
            return "NULL"
        if k == "neg":
            return "(- (%s))" % self.term(t[1])
        if k == "arith":
            return "((%s) %s (%s))" % (self.term(t[2]), ARITH[t[1]], self.term(t[3]))
        if k == "basic":
            return "((%s) %s (%s))" % (self.term(t[2]), CMP[t[1]], self.term(t[3]))
        if k == "cplx":
            if t[1] not in ("and", "or"):
                raise NotJudged("xor")
            return "((%s) %s (%s))" % (self.term(t[2]), t[1].upper(), self.term(t[3]))
        if k == "not":
            return "(NOT (%s))" % self.term(t[1])
        if k == "in":
            if t[2][0] == "sub":
                return "((%s) %sIN %s)" % (self.term(t[1]), "NOT " if t[3] else "", self.term(t[2]))
            if t[2][0] != "tuple":
                raise NotJudged("in-container")
            return "((%s) %sIN (%s))" % (self.term(t[1]), "NOT " if t[3] else "", ", ".join("(%s)" % self.term(x) for x in t[2][1]))
        if k == "between":
            return "((%s) BETWEEN (%s) AND (%s))" % (self.term(t[1]), self.term(t[2]), self.term(t[3]))
        if k == "isnull":
            return "((%s) IS NULL)" % self.term(t[1])
        if k == "notnull":
            return "((%s) IS NOT NULL)" % self.term(t[1])
        if k == "case":
            s = "(CASE " + " ".join("WHEN (%s) THEN (%s)" % (self.term(c), self.term(v)) for c, v in t[1])
            if t[2] is not None:
                s += " ELSE (%s)" % self.term(t[2])
            return s + " END)"
        if k == "func":
            return "%s(%s)" % (t[1], ", ".join(self.arg(x) for x in t[2]))
        if k == "sub":
            # the fixed sub-query of harness/terms_family.py: Query.from_(Table("u")).select("x")
            r = self.fresh()
            return "(SELECT %s.%s FROM %s AS %s)" % (qi(r), qi("x"), qi("u"), qi(r))
        if k == "star":
            if t[1] is None:
                return "*"
            return self.column("*", t[1])[:-3] + "*"
        if k == "win":
            _, fname, args, part, obs, frame, _alias = t
            over = []
            if part:
                over.append("PARTITION BY " + ", ".join("(%s)" % self.term(p) for p in part))
            if obs:
                over.append("ORDER BY " + ", ".join("(%s) %s" % (self.term(o), "DESC" if d == "desc" else "ASC") for o, d in obs))
            if frame is not None:
                over.append("%s BETWEEN %s AND %s" % (frame[0].upper(), self.edge(frame[1]), self.edge(frame[2])))
            return "%s(%s) OVER (%s)" % (fname, ", ".join(self.arg(x) for x in args), " ".join(over))
        raise NotJudged("term kind %s" % k)

    def edge(self, e):
        if isinstance(e, str):
            return EDGE[e]
        return "%d %s" % (int(e[1]), e[0].upper())

    def arg(self, t):
        if t[0] == "star" and t[1] is None:
            return "*"
        return "(%s)" % self.term(t)

    def rterm(self, t):
        return self.term(norm_rotate(t) if self.rotate else t)

    # ---- clause items (may contain sub-queries)
    def item(self, it):
        k = it[0]
        if k == "t":
            return self.rterm(it[1])
        if k == "sub":
            return "(%s)" % self.select(it[1])
        if k == "in":
            return "((%s) %sIN (%s))" % (self.rterm(it[1]), "NOT " if it[3] else "", self.select(it[2]))
        if k == "exists":
            return "(%sEXISTS (%s))" % ("NOT " if it[2] else "", self.select(it[1]))
        if k == "cmp":
            return "((%s) %s (%s))" % (self.rterm(it[2]), CMP[it[1]], self.select(it[3]))
        if k == "func":
            return "%s(%s)" % (it[1], ", ".join("(%s)" % self.item(a) for a in it[2]))
        if k == "cplx":
            return "((%s) %s (%s))" % (self.item(it[2]), it[1].upper(), self.item(it[3]))
        if k == "not":
            return "(NOT (%s))" % self.item(it[1])
        raise NotJudged("item kind %s" % k)

    # ---- sources
    def source(self, s, entry):
        if s[0] == "t":
            name, schema, _alias = s[1]
            if len(schema or []) > 1:
                raise NotJudged("two-level schema")
            return "%s AS %s" % (".".join(qi(x) for x in list(schema or []) + [name]), qi(entry["ref"]))
        if s[0] == "q":
            saved = self.scopes
            self.scopes = list(saved[:-1])          # a derived table does not see its siblings
            try:
                inner = self.select(s[1])
            finally:
                self.scopes = saved
            return "(%s) AS %s" % (inner, qi(entry["ref"]))
        if s[0] == "a":
            return "%s AS %s" % (qi(s[1]), qi(entry["ref"]))
        raise NotJudged("source kind %s" % s[0])

    @staticmethod
    def out_name(it):
        """output column name of a select item, when the specification fixes one"""
        if it[0] == "t":
            t = it[1]
            if t[0] == "field":
                return t[3] if t[3] is not None else t[1]
            if t[0] in ("arith", "func", "case", "win"):
                return t[-1]
            return None
        if it[0] == "sub":
            return it[1].get("alias")
        if it[0] == "func":
            return it[3]
        return None

    def select(self, s):
        if s.get("k") != "sel":
            raise NotJudged("statement kind %s" % s.get("k"))
        if s.get("for_update"):
            raise NotJudged("for update")
        head = ""
        if s.get("with"):
            parts = []
            for name, sub in s["with"]:
                saved = self.scopes
                self.scopes = []
                try:
                    parts.append("%s AS (%s)" % (qi(name), self.select(sub)))
                finally:
                    self.scopes = saved
            head = "WITH " + ", ".join(parts) + " "
        srcs = list(s.get("from", [])) + [j[1] for j in s.get("joins", [])]
        scope = []
        for src in srcs:
            tref = None
            if src[0] == "t":
                tref = [src[1][0], list(src[1][1] or []), src[1][2]]
            elif src[0] == "a":
                tref = [src[1], [], src[1]]
            scope.append({"ref": self.fresh(), "tref": tref})
        nfrom = len(s.get("from", []))
        self.scopes.append(scope)
        try:
            # the sources themselves are rendered while the scope is visible to correlated sub-queries of the
            # join conditions, but a derived table is rendered without it (see source())
            fr = [self.source(src, scope[i]) for i, src in enumerate(s.get("from", []))]
            js = []
            for n, (how, src, cond) in enumerate(s.get("joins", [])):
                e = scope[nfrom + n]
                if how not in JOIN:
                    raise NotJudged("join type %s" % how)
                if cond[0] == "on":
                    js.append("%s %s ON %s" % (JOIN[how], self.source(src, e), self.item(cond[1])))
                elif cond[0] == "using":
                    if nfrom != 1 or n != 0:
                        raise NotJudged("USING beyond the first join")
                    on = " AND ".join("(%s.%s = %s.%s)" % (qi(scope[0]["ref"]), qi(c), qi(e["ref"]), qi(c)) for c in cond[1])
                    js.append("%s %s ON (%s)" % (JOIN[how], self.source(src, e), on))
                else:
                    js.append("CROSS JOIN %s" % self.source(src, e))
            sels = []
            for it in s.get("selects", []):
                txt = self.item(it)
                nm = self.out_name(it)
                if it[0] == "t" and it[1][0] == "star":
                    sels.append(txt)
                else:
                    sels.append("%s AS %s" % (txt, qi(nm)) if nm is not None else txt)
            if not sels:
                raise NotJudged("no select items")
            sql = head + "SELECT " + ("DISTINCT " if s.get("distinct") else "") + ", ".join(sels)
            if fr:
                sql += " FROM " + ", ".join(fr)
            if js:
                sql += " " + " ".join(js)
            if s.get("where") is not None:
                sql += " WHERE " + self.item(s["where"])
            def key(it):
                # an integer literal as GROUP BY / ORDER BY key is SQL's positional reference to a result column
                if it[0] == "t" and it[1][0] == "vali" and 1 <= int(it[1][1]) <= len(s["selects"]):
                    tgt = s["selects"][int(it[1][1]) - 1]
                    if not (tgt[0] == "t" and tgt[1][0] == "star"):
                        return self.item(tgt)
                return self.item(it)
            if s.get("groupby"):
                sql += " GROUP BY " + ", ".join("(%s)" % key(g) for g in s["groupby"])
            if s.get("having") is not None:
                sql += " HAVING " + self.item(s["having"])
            if s.get("orderby"):
                sql += " ORDER BY " + ", ".join("(%s) %s" % (key(o), "DESC" if d == "desc" else "ASC")
                                                for o, d in s["orderby"])
            lim, off = s.get("limit"), s.get("offset")
            if lim is not None or off:
                sql += " LIMIT %d" % (-1 if lim is None else int(lim))
                if off:
                    sql += " OFFSET %d" % int(off)
            return sql
        finally:
            self.scopes.pop()

    @staticmethod
    def strip_alias(it):
        return it


def reference_sql(spec, rotate=False):
    return Ref(rotate=rotate).select(spec)


# ----------------------------------------------------------------------------------------------
# result comparison
# ----------------------------------------------------------------------------------------------
def _nv(v):
    if isinstance(v, float):
        return round(v, 9)
    return v


def _key(row):
    out = []
    for v in row:
        v = _nv(v)
        if v is None:
            out.append((0, 0))
        elif isinstance(v, (int, float)):
            out.append((1, v))
        elif isinstance(v, str):
            out.append((2, v))
        else:
            out.append((3, bytes(v)))
    return tuple(out)


def same_multiset(r1, r2):
    return sorted(map(_key, r1)) == sorted(map(_key, r2))


def same_list(r1, r2):
    return list(map(_key, r1)) == list(map(_key, r2))


def sorted_by(rows, keys):
    """keys: [(column index, descending)] -- is the row sequence sorted the way SQLite sorts (NULL first, numbers, text)?"""
    def k(row):
        return [_key((row[i],))[0] for i, _ in keys]
    for x, y in zip(rows, rows[1:]):
        kx, ky = k(x), k(y)
        for (i, desc), a, b in zip(keys, kx, ky):
            if a == b:
                continue
            if (a < b) != (not desc):
                return False
            break
    return True
