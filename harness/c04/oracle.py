"""C04 oracle: pypika's text and the explicit reference text on the same seeded databases; classification of a
difference into a stable signature ["C04", clause, construct, what]."""
import copy

from harness.c04 import sqlite_ref as sr
from harness.c04 import build as bd
from harness.c04 import spec as sp

ALIASABLE = ("field", "arith", "func", "case", "win")


def strip_alias_term(t):
    if t[0] in ALIASABLE and t[-1] is not None:
        t = list(t)
        t[-1] = None
    return t


def item_key(it):
    if it[0] == "t":
        return repr(strip_alias_term(it[1]))
    return None


def order_plan(s):
    """('exact', None) when ORDER BY covers the whole select list (row sequence determined up to identical rows);
    ('sorted', keys) when every ORDER BY item is a select item (sortedness of the result can be checked);
    ('bag', None) otherwise."""
    obs = s.get("orderby") or []
    if not obs:
        return ("bag", None)
    sel_keys = [item_key(i) for i in s.get("selects", [])]
    keys = []
    for it, d in obs:
        if it[0] == "t" and it[1][0] == "vali" and 1 <= int(it[1][1]) <= len(sel_keys):
            keys.append((int(it[1][1]) - 1, d == "desc"))        # positional key
            continue
        k = item_key(it)
        if k is None or k not in sel_keys:
            return ("bag", None)
        keys.append((sel_keys.index(k), d == "desc"))
    if set(i for i, _ in keys) == set(range(len(sel_keys))):
        return ("exact", keys)
    return ("sorted", keys)


def compare(spec, text, ref_sql):
    """-> None when pypika's text behaves like the reference on every database; otherwise (what, detail).
    Raises NotJudged when the reference itself is rejected."""
    plan, keys = order_plan(spec)
    paged = spec.get("limit") is not None or bool(spec.get("offset"))
    for n, db in enumerate(sr.dbs()):
        r = sr.execute(db, ref_sql)
        if r[0] == "err":
            raise sr.NotJudged("reference rejected: " + r[1])
        p = sr.execute(db, text)
        if p[0] == "err":
            return ("engine-error", "db%d: SQLite rejects pypika's text (%s) while the explicit text is accepted" % (n, p[1]))
        if len(p[1]) != len(r[1]):
            return ("rows-differ", "db%d: %d rows from pypika's text, %d from the explicit text" % (n, len(p[1]), len(r[1])))
        if plan == "exact":
            if not sr.same_list(p[1], r[1]):
                if sr.same_multiset(p[1], r[1]):
                    return ("order-differs", "db%d: same rows in a different order under a total ORDER BY: %r vs %r" % (n, p[1][:6], r[1][:6]))
                return ("rows-differ", "db%d: %r vs %r" % (n, p[1][:6], r[1][:6]))
        elif paged:
            # a page of a not totally ordered result: only acceptance and the row count are determined by the data
            continue
        else:
            if not sr.same_multiset(p[1], r[1]):
                return ("rows-differ", "db%d: %r vs %r" % (n, sorted(p[1], key=sr._key)[:6], sorted(r[1], key=sr._key)[:6]))
            if plan == "sorted" and not sr.sorted_by(p[1], keys):
                return ("order-differs", "db%d: result of pypika's text is not sorted by its ORDER BY keys: %r" % (n, p[1][:8]))
    return None


def judge_spec(spec, order, rotate=False):
    """render with pypika (calls in the given order) and compare -> dict"""
    text, trace = bd.render(spec, order)
    out = {"text": text if not text.startswith("!") else text.split(":")[0], "trace": trace[-1] if trace else []}
    if text.startswith("!"):
        out["detail"] = text
    try:
        ref = sr.reference_sql(spec, rotate=rotate)
    except sr.NotJudged as e:
        out.update(verdict="not-judged", why=str(e))
        return out
    out["ref"] = ref
    if text.startswith("!"):
        ok = all(sr.execute(db, ref)[0] == "ok" for db in sr.dbs())
        if ok:
            out.update(verdict="differs", what="exception", why=text)
        else:
            out.update(verdict="not-judged", why="pypika raised and the reference is rejected")
        return out
    try:
        d = compare(spec, text, ref)
    except sr.NotJudged as e:
        out.update(verdict="not-judged", why=str(e))
        return out
    if d is None:
        out["verdict"] = "same"
    else:
        out.update(verdict="differs", what=d[0], why=d[1])
    return out


def passes(spec, order, rotate=False):
    j = judge_spec(spec, order, rotate)
    return j["verdict"] == "same"


# ----------------------------------------------------------------------------------------------
# classification
# ----------------------------------------------------------------------------------------------
def source_columns(src, withs):
    if src[0] == "t":
        return set(sr.COLS)
    q = src[1] if src[0] == "q" else dict(withs).get(src[1])
    if not isinstance(q, dict):
        return set()
    return {n for n in (sr.Ref.out_name(i) for i in q.get("selects", [])) if n is not None}


def statements(s):
    """the statement and all nested statements"""
    out = [s]
    for src in s.get("from", []) + [j[1] for j in s.get("joins", [])]:
        if src[0] == "q":
            out += statements(src[1])
    for _, w in s.get("with", []):
        out += statements(w)
    items = list(s.get("selects", [])) + [x for x in (s.get("where"), s.get("having")) if x is not None] \
        + list(s.get("groupby", [])) + [o[0] for o in s.get("orderby", [])] + [j[2][1] for j in s.get("joins", []) if j[2][0] == "on"]

    def rec(it):
        for sub in sp.sub_specs(it) if it[0] not in ("func", "cplx", "not") else []:
            out.extend(statements(sub))
        if it[0] == "func":
            for a in it[2]:
                rec(a)
        elif it[0] == "cplx":
            rec(it[2]); rec(it[3])
        elif it[0] == "not":
            rec(it[1])
    for it in items:
        rec(it)
    return out


def captured_group_aliases(q):
    """GROUP BY items of q that pypika renders as a bare alias although a source of q has a column of that name"""
    aliases = {sr.Ref.out_name(i) for i in q.get("selects", [])
               if i[0] == "t" and i[1][0] in ALIASABLE and i[1][-1] is not None}
    cols = set()
    for src in q.get("from", []) + [j[1] for j in q.get("joins", [])]:
        cols |= source_columns(src, q.get("with", []))
    hits = []
    for n, g in enumerate(q.get("groupby", [])):
        if g[0] == "t" and g[1][0] in ALIASABLE and g[1][-1] is not None and g[1][-1] in aliases and g[1][-1] in cols:
            hits.append(n)
    return hits


def has_bare_subquery(it):
    """an item rendered by HAVING / GROUP BY / ORDER BY (subquery=False): does a sub-query lose its parentheses?"""
    k = it[0]
    if k in ("sub", "exists", "cmp"):
        return True
    if k == "cplx":
        return has_bare_subquery(it[2]) or has_bare_subquery(it[3])
    if k == "not":
        return has_bare_subquery(it[1])
    return False        # IN and function arguments force subquery=True themselves


def has_mul_over_div(s):
    found = []

    def f(t):
        if t[0] == "arith" and t[1] == "mul" and isinstance(t[3], list) and t[3][0] == "arith" and t[3][1] == "div":
            found.append(1)
    for it in sp.all_items(s):
        for t_ in sp.item_terms(it):
            sp.walk_terms(t_, f)
    return bool(found)


def has_sub_left_of_in(spec):
    found = []

    def f(t):
        if t[0] == "in" and isinstance(t[1], list) and t[1][0] == "sub":
            found.append(1)
    for it in sp.all_items(spec):
        for t_ in sp.item_terms(it):
            sp.walk_terms(t_, f)
    return bool(found)


def _replace_sub_left_of_in(x):
    """deep copy in which every scalar sub-query left of IN / NOT IN is replaced by the constant it evaluates to"""
    if isinstance(x, dict):
        return {k: _replace_sub_left_of_in(v) for k, v in x.items()}
    if isinstance(x, list):
        if x and x[0] == "in" and len(x) == 5 and isinstance(x[1], list) and x[1] and x[1][0] == "sub":
            return ["in", ["vali", sr.SUB_VALUE, None]] + [_replace_sub_left_of_in(v) for v in x[2:]]
        return [_replace_sub_left_of_in(v) for v in x]
    return x


def _mutate_all(spec, fn):
    """apply fn (in place) to a deep copy of the statement and each nested statement"""
    c = copy.deepcopy(spec)
    for q in statements(c):
        fn(q)
    return c


def first_construct(it):
    if it is None:
        return "none"
    k = it[0]
    if k == "t":
        t = it[1]
        if t[0] in ALIASABLE and t[-1] is not None:
            return "aliased-" + t[0]
        return t[0] if t[0] != "func" else "func:" + t[1]
    return {"sub": "subquery", "in": "in-subquery", "exists": "exists", "cmp": "cmp-subquery", "func": "func:" + str(it[1]),
            "cplx": first_construct(it[2]), "not": first_construct(it[1])}.get(k, k)


def classify(spec, order, j):
    """signature of a judged difference"""
    what = j.get("what", "rows-differ")
    stmts = statements(spec)
    # The known shapes, each with the repair that removes exactly that shape; repairs accumulate, the signature is the one
    # of the repair after which pypika's text behaves like the reference.
    base, rotate = spec, False
    # F1: GROUP BY alias captured by a column of a source
    if any(captured_group_aliases(q) for q in stmts):
        def repair(q):
            for n in captured_group_aliases(q):
                q["groupby"][n] = ["t", strip_alias_term(q["groupby"][n][1])]
        base = _mutate_all(base, repair)
        if passes(base, order, rotate):
            return ["C04", "groupby", "alias-of-select-item", "captured-by-source-column"]
    # F6: a scalar sub-query as the LEFT operand of IN / NOT IN is rendered without parentheses
    if has_sub_left_of_in(base):
        base = _replace_sub_left_of_in(base)
        if passes(base, order, rotate):
            return ["C04", "expression", "subquery-left-of-in", "no-parentheses"]
    # F5: ORDER BY column rendered as a bare name that a select alias of another meaning captures
    if any(sp.captured_order_items(q) for q in statements(base)):
        def repair5(q):
            hits = sp.captured_order_items(q)
            if hits:
                q["orderby"] = [o for n, o in enumerate(q["orderby"]) if n not in hits]
                q.pop("limit", None); q.pop("offset", None)
                if not q["orderby"]:
                    q.pop("orderby")
        base = _mutate_all(base, repair5)
        if passes(base, order, rotate):
            return ["C04", "orderby", "unqualified-column", "captured-by-select-alias"]
    # F4: x*(y/z) rendered x*y/z (integer division): compare against the re-associated reference
    if has_mul_over_div(spec):
        rotate = True
        if passes(base, order, rotate):
            return ["C04", "expression", "mul-over-div", "reassociated"]
    # F2 / F3: sub-query rendered without parentheses by a clause that does not pass subquery=True
    for clause, getter in (("having", lambda q: [q["having"]] if q.get("having") is not None else []),
                           ("orderby", lambda q: [o[0] for o in q.get("orderby", [])]),
                           ("groupby", lambda q: list(q.get("groupby", [])))):
        if any(has_bare_subquery(i) for q in statements(base) for i in getter(q)):
            def drop(q, clause=clause, getter=getter):
                if clause == "having":
                    if q.get("having") is not None and has_bare_subquery(q["having"]):
                        q.pop("having")
                elif clause == "orderby":
                    q["orderby"] = [o for o in q.get("orderby", []) if not has_bare_subquery(o[0])]
                    if not q["orderby"]:
                        q.pop("orderby"); q.pop("limit", None); q.pop("offset", None)
                else:
                    q["groupby"] = [g for g in q.get("groupby", []) if not has_bare_subquery(g)]
            base = _mutate_all(base, drop)
            if passes(base, order, rotate):
                return ["C04", clause, "subquery-operand", "no-parentheses"]
    # anything else: attribute to a clause by removal
    for clause, fn in (("limit", lambda q: (q.pop("limit", None), q.pop("offset", None))),
                       ("orderby", lambda q: (q.pop("orderby", None), q.pop("limit", None), q.pop("offset", None))),
                       ("having", lambda q: q.pop("having", None)),
                       ("where", lambda q: q.pop("where", None)),
                       ("distinct", lambda q: q.pop("distinct", None))):
        if not any(clause in q or (clause == "limit" and "offset" in q) for q in stmts):
            continue
        try:
            if passes(_mutate_all(spec, fn), order):
                probe = next((q for q in stmts if clause in q), spec)
                v = probe.get(clause)
                cons = first_construct(v if clause in ("having", "where") else (v[0][0] if clause == "orderby" and v else None)) \
                    if clause in ("having", "where", "orderby") else clause
                return ["C04", clause, cons, what]
        except Exception:  # noqa
            continue
    if any(q.get("joins") for q in stmts):
        j0 = next(q for q in stmts if q.get("joins"))["joins"][0]
        return ["C04", "join", "%s/%s/%s" % (j0[0], j0[1][0], j0[2][0]), what]
    if any(src[0] != "t" for q in stmts for src in q.get("from", [])):
        return ["C04", "from", "subquery-source", what]
    if sp.has_window(spec):
        return ["C04", "select", "window-function", what]
    return ["C04", "select", first_construct(spec["selects"][0]) if spec.get("selects") else "none", what]
